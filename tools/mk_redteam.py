#!/usr/bin/env python3
"""Create a scratch worktree + TASK.md for a red-team sub-agent (seeded-change generation).
usage: mk_redteam.py <Cxx> [suffix]   -> /tmp/rt_<Cxx><suffix>/{repo,out,TASK.md}
The task file contains ONLY the property text and generic rules — nothing from /verif's machinery."""
import json, os, subprocess, sys
pid = sys.argv[1]; suffix = sys.argv[2] if len(sys.argv) > 2 else ""
d = f"/tmp/rt_{pid}{suffix}"
os.makedirs(d + "/out", exist_ok=True)
if not os.path.isdir(d + "/repo"):
    subprocess.run(["git", "-C", "/repo", "worktree", "add", "--detach", d + "/repo", "HEAD", "-q"], check=True)
prop = next(json.loads(l) for l in open("/verif/properties.jsonl") if json.loads(l)["id"] == pid)
task = f"""# Task: write a realistic property-breaking change (seeded defect) for folo-rs/folo

You work ONLY inside `{d}` (a scratch git worktree of the repository is at `{d}/repo`, build output
must go to `{d}/target`, your deliverables go to `{d}/out`). Do not read or write anything under
`/verif` and do not touch `/repo` itself. The machine is shared: always run cargo as
`CARGO_BUILD_JOBS=4 CARGO_TARGET_DIR={d}/target cargo ... --offline` (there is no network).
NEVER use `git stash` (the stash is shared by every worktree of the repository and other people use
sibling worktrees right now): to test the pristine tree use `git diff > {d}/out/patch.diff;
git checkout -- <paths>; ...; git apply {d}/out/patch.diff`.

## The property

**{prop['title']}**

{prop['statement']}

Quantified over: {prop['quantifier']['text']}

Code the property is anchored in (start reading here): {', '.join(prop['anchors']['files'])}

## What to produce

A small source change to the repository (in `{d}/repo`) that makes the property FALSE, such that:

1. the workspace still compiles and the repository's own tests for the crates you touched (and
   crates that directly depend on them, if they have tests exercising the changed code) still
   PASS — run them (`cargo test -p <crate> --offline`, add `-p <dependent>`), and report the result;
2. the defect needs something SPECIFIC to manifest: a particular thread interleaving, a fault or
   panic at a particular point, a multi-step sequence of operations, an unusual input (boundary
   size, alignment, id at the top of the range, many slabs, ...), or two cooperating sites that
   each look fine alone — NOT something ordinary use would expose at once;
3. it looks like a plausible mistake a maintainer could make in a refactoring or optimisation
   (wrong ordering constraint, off-by-one at a boundary, a check moved across a lock, a cursor
   advanced too early, a stale cached value, a forgotten branch) — not sabotage, not a deleted
   feature, no `cfg`-tricks. Code behind `cfg(folo_verif)` / `cfg(folo_verif_loom)` is
   verification instrumentation: do not modify it and do not rely on it.
4. you provide a DEMONSTRATION: a test file or small program (put it in `{d}/out/demo/`, with a
   README of how to run it; e.g. a `tests/*.rs` file to drop into the crate, or a tiny cargo
   project with a path dependency on `{d}/repo/packages/<crate>`) that FAILS with your change and
   PASSES without it. For a concurrency defect the demo may force the interleaving with sleeps,
   barriers, many iterations, or (if the crate has test hooks) those hooks; say how reliable it is.

Deliver in `{d}/out/`:
- `patch.diff` — `git -C {d}/repo diff` of your change only (no demo files inside the repo tree);
- `demo/` — the demonstration and `README.md`;
- `report.md` — which clause of the property breaks, what is needed for it to manifest (the exact
  history / interleaving / input), the commands you ran and their results (tests with the change:
  pass; demo with the change: fail; demo without: pass).

Keep the change minimal (a few lines). Verify everything you claim by running it. When done,
leave the worktree with your change applied and answer with a 10-line summary.
"""
open(d + "/TASK.md", "w").write(task)
print(d)

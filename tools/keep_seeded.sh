#!/bin/bash
# usage: tools/keep_seeded.sh <rt dir> <seed id> <property> "<detected by / result line>"
# copies patch.diff, demo/, report.md of a red-team result into /verif/seeded/<seed id>/ and writes meta.json
set -e
RT=$1; ID=$2; PROP=$3; RESULT=$4
D=/verif/seeded/$ID; mkdir -p $D
cp $RT/out/patch.diff $D/patch.diff
rm -rf $D/demo; cp -r $RT/out/demo $D/demo 2>/dev/null || true
find $D/demo -name target -type d -prune -exec rm -rf {} + 2>/dev/null || true
cp $RT/out/report.md $D/report.md 2>/dev/null || true
python3 - "$D" "$ID" "$PROP" "$RESULT" <<'PY'
import json,sys,re,os
d,i,p,res=sys.argv[1:5]
rep=open(os.path.join(d,'report.md')).read() if os.path.exists(os.path.join(d,'report.md')) else ''
meta={"seed_id":i,"breaks_property":p,
 "origin":"written by a fresh sub-agent that was given only the property text and its own scratch worktree (tools/mk_redteam.py), nothing from /verif",
 "needs_to_manifest": "see report.md (section on what is needed for it to manifest)",
 "confirmed_by_coordinator": "patch applies to /repo HEAD; the sub-agent's report lists the repository tests it ran with the change (pass) and the demo with/without the change (fail/pass)",
 "checks_run_against_it": res}
json.dump(meta,open(os.path.join(d,'meta.json'),'w'),indent=1)
PY
echo kept $D

#!/usr/bin/env python3
"""Regenerate /verif/MANIFEST.json from checks.d/*.json (+ manifest_base.json).

A checks.d entry is claimed in the manifest only if it has a "manifest" object with at least
level_category, level_text, level_note, technique. Everything else is listed under not_applicable
with the reason given in manifest_base.json["pending"][id] (or a generic one).
"""
import json, os, subprocess
ROOT = os.path.dirname(os.path.dirname(os.path.abspath(__file__)))
base = json.load(open(os.path.join(ROOT, "manifest_base.json")))
props = [json.loads(l)["id"] for l in open(os.path.join(ROOT, "properties.jsonl"))]
checks, na = [], []
for pid in props:
    f = os.path.join(ROOT, "checks.d", pid + ".json")
    entry = json.load(open(f)) if os.path.exists(f) else None
    m = entry.get("manifest") if entry else None
    if not m:
        na.append({"property_id": pid, "reason": base.get("pending", {}).get(pid, "check not finished yet; see DESIGN.md")})
        continue
    c = {
        "property_id": pid,
        "quick_cmd": f"./check {pid} --tier quick",
        "thorough_cmd": f"./check {pid} --tier thorough",
        "evidence_file": f"/verif/evidence/{pid}.json",
        "replay_cmd_template": f"./check {pid} --replay {{path}}",
        "engine": m.get("engine", entry.get("flavour", "multi-stage")),
        "level_claimed": {"category": m["level_category"], "text": m["level_text"], "design_ref": m.get("design_ref", f"DESIGN.md section 4 {pid}")},
        "level_note": m["level_note"],
        "technique": m["technique"],
    }
    checks.append(c)
out = {k: v for k, v in base.items() if k not in ("pending",)}
try:
    commits = subprocess.run(["git", "-C", os.path.join(ROOT, "..", "repo"), "log", "--format=%h %s", "5ef0f1b..HEAD"],
                             capture_output=True, text=True).stdout.strip().splitlines()
    out["hooks"]["source_commits"] = [c.split()[0] for c in commits if "verif hooks" in c]
except Exception:
    pass
out["checks"] = checks
out["not_applicable"] = na
json.dump(out, open(os.path.join(ROOT, "MANIFEST.json"), "w"), indent=1)
print(f"claimed: {[c['property_id'] for c in checks]}  not_applicable: {[n['property_id'] for n in na]}")

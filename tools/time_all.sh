#!/bin/bash
# run every registered quick check once, sequentially, and record exit code + wall time
cd /verif
out=${1:-/tmp/time_all.log}; : > $out
for id in $(ls checks.d | sed 's/.json//' | sort); do
  s=$(date +%s)
  ./check $id --tier quick > /tmp/time_$id.log 2>&1; rc=$?
  e=$(date +%s)
  echo "$id rc=$rc wall=$((e-s))s $(grep -c '^VIOLATION' /tmp/time_$id.log) violations, $(grep -c '^KNOWN-FINDING' /tmp/time_$id.log) known; $(grep '^SUMMARY' /tmp/time_$id.log | tail -1 | cut -c1-160)" >> $out
done
echo DONE >> $out

#!/bin/bash
# run every registered check once at the given tier, sequentially; record exit code + wall time
# usage: tools/time_all.sh <log file> [quick|thorough] [per-check timeout seconds] [ids...]
cd /verif
out=${1:-/tmp/time_all.log}; tier=${2:-quick}; tmo=${3:-3600}; shift 3 2>/dev/null
ids="$@"; [ -z "$ids" ] && ids=$(ls checks.d | sed 's/.json//' | sort)
: > $out
for id in $ids; do
  s=$(date +%s)
  timeout $tmo ./check $id --tier $tier > /tmp/time_${tier}_$id.log 2>&1; rc=$?
  e=$(date +%s)
  echo "$id tier=$tier rc=$rc wall=$((e-s))s $(grep -c '^VIOLATION' /tmp/time_${tier}_$id.log) violations, $(grep -c '^KNOWN-FINDING' /tmp/time_${tier}_$id.log) known; $(grep '^SUMMARY' /tmp/time_${tier}_$id.log | tail -1 | cut -c1-170)" >> $out
  cp evidence/$id.json /tmp/evidence_${tier}_$id.json 2>/dev/null
done
echo DONE >> $out

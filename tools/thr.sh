#!/bin/bash
# measure vsched throughput vs number of concurrent runner processes
cd /verif
for K in 1 2 4 8 16; do
  s=$(date +%s.%N); pids=""
  for i in $(seq 0 $((K-1))); do VERIF_JOB_SLOT=$i VSCHED_NO_PIN=${NOPIN:-} VERIF_JOB="p1w1:s@0:live|$((i%8))|8|1" ./target/native/release/c14 > /tmp/k_$i.out & pids="$pids $!"; done
  wait $pids
  e=$(date +%s.%N); n=$(cat /tmp/k_*.out | grep -o '"executions":[0-9]*' | cut -d: -f2 | paste -sd+ | bc); rm -f /tmp/k_*.out
  echo "K=$K execs=$n wall=$(echo "$e-$s"|bc) rate=$(echo "$n/($e-$s)"|bc)/s"
done

#!/bin/bash
# Run one check against /repo's HEAD + a patch, in a persistent scratch layout (/tmp/try/{repo,verif}),
# without touching /repo. usage: tools/try_patch.sh <Cxx> <patch.diff|none> [quick|thorough]
# Remove /tmp/try (git -C /repo worktree remove --force /tmp/try/repo; rm -rf /tmp/try) when done.
set -u
PID=$1; PATCH=$2; TIER=${3:-quick}
S=/tmp/try
exec 9>/tmp/try.lock; flock 9
mkdir -p $S
if [ ! -d $S/repo ]; then git -C /repo worktree add --detach $S/repo HEAD -q || exit 2; fi
git -C $S/repo checkout -q --detach $(git -C /repo rev-parse HEAD) 2>/dev/null
git -C $S/repo checkout -q -- . ; git -C $S/repo clean -fdq
# uncommitted hook/fix edits of the main checkout are part of "the current tree"
git -C /repo diff HEAD > /tmp/try.wip.diff; if [ -s /tmp/try.wip.diff ]; then git -C $S/repo apply /tmp/try.wip.diff || echo "WARN: could not apply working-tree diff"; fi
if [ "$PATCH" != "none" ]; then git -C $S/repo apply "$PATCH" || { echo "PATCH DOES NOT APPLY"; exit 2; }; fi
rsync -a --delete --exclude target --exclude .git --exclude replays --exclude evidence /verif/ $S/verif/
mkdir -p $S/verif/evidence $S/verif/replays
cd $S/verif && ./check $PID --tier $TIER; rc=$?
echo "try_patch: property=$PID patch=$PATCH exit=$rc"
exit $rc

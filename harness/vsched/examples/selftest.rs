//! Self-test of the SCHED engine on textbook cases (run by `./check --setup`).
use std::collections::BTreeMap;
use std::sync::Arc;
use std::sync::atomic::{AtomicBool, AtomicUsize, Ordering::SeqCst};
use vsched::{Config, block_until, explore, point, spawn};

fn lost_update() -> String {
    let n = Arc::new(AtomicUsize::new(0));
    let hs: Vec<_> = (0..2)
        .map(|i| {
            let n = n.clone();
            spawn(&format!("inc{i}"), move || {
                point("load");
                let v = n.load(SeqCst);
                point("store");
                n.store(v + 1, SeqCst);
            })
        })
        .collect();
    for h in hs {
        h.join().unwrap();
    }
    format!("{}", n.load(SeqCst))
}

fn lost_wakeup() -> String {
    // waiter checks flag, then sleeps on "signal"; setter sets flag then signals only if a sleeper
    // is registered: the classic check-then-sleep race => deadlock on one schedule.
    let flag = Arc::new(AtomicBool::new(false));
    let sleeping = Arc::new(AtomicBool::new(false));
    let signal = Arc::new(AtomicBool::new(false));
    let (f2, s2, g2) = (flag.clone(), sleeping.clone(), signal.clone());
    let w = spawn("waiter", move || {
        point("check");
        if !f2.load(SeqCst) {
            point("register");
            s2.store(true, SeqCst);
            block_until("sleep", &mut || g2.load(SeqCst));
        }
    });
    point("set");
    flag.store(true, SeqCst);
    point("notify");
    if sleeping.load(SeqCst) {
        signal.store(true, SeqCst);
    }
    w.join().unwrap();
    "done".into()
}

fn main() {
    let cfg = Config { preemption_bound: 2, ..Config::default() };
    vsched::check_determinism(&cfg, &[], &lost_update).expect("determinism");
    let mut outcomes: BTreeMap<String, u64> = BTreeMap::new();
    let st = explore(&cfg, vec![vec![]], &lost_update, |r| {
        *outcomes.entry(format!("{}:{:?}", r.outcome, r.observation)).or_default() += 1;
    });
    println!("lost_update: {st:?} {outcomes:?}");
    assert!(outcomes.keys().any(|k| k.contains("\"1\"")), "lost update not found");
    assert!(outcomes.keys().any(|k| k.contains("\"2\"")));
    let mut outcomes: BTreeMap<String, u64> = BTreeMap::new();
    let st = explore(&cfg, vec![vec![]], &lost_wakeup, |r| {
        *outcomes.entry(format!("{}:{}", r.outcome, r.detail)).or_default() += 1;
    });
    println!("lost_wakeup: {st:?} {outcomes:?}");
    assert!(outcomes.keys().any(|k| k.starts_with("deadlock")), "deadlock not found");
    assert!(outcomes.keys().any(|k| k.starts_with("ok")));
    println!("vsched selftest ok");
}

//! SCHED — a controlled scheduler over real OS threads (DESIGN.md §2.3).
//!
//! * Every participating thread is a real OS thread; exactly one holds the baton. A thread gives
//!   the baton back only at a *point*: [`point`], [`block_until`], [`spawn`], `JoinHandle::join`,
//!   thread start/exit. Points inside the repository are `cfg(folo_verif)` hook calls placed
//!   immediately before lock acquisitions / atomic operations, never inside a critical section.
//! * Blocking is modelled: a waiting thread *yields* and becomes enabled again only after some
//!   other thread made progress. "No enabled thread while some thread is unfinished" is a
//!   deadlock / lost-wake-up verdict reached deterministically.
//! * Every execution runs in a **forked child process**: process-global state of the crates under
//!   test (registries, statics, thread-locals) is fresh for every schedule, a deadlocked or stuck
//!   execution is simply discarded with its process, and thread exit runs real TLS destructors.
//! * Exploration is a stateless DFS over choice sequences with a preemption bound: run a prefix,
//!   take choice 0 afterwards (keep running the current thread if it is enabled, else the lowest
//!   enabled id), branch on every later point whose alternative stays within the bound.
//!
//! Sequential consistency only (one thread runs at a time): no weak-memory outcomes.

use std::collections::HashMap;
use std::io::{Read, Write};
use std::os::fd::FromRawFd;
use std::sync::{Condvar, Mutex};
use std::time::{Duration, Instant};

use vcommon::serde_json::{self, Value, json};

// ------------------------------------------------------------------------------------------
// In-execution scheduler state (lives in the forked child)
// ------------------------------------------------------------------------------------------

#[derive(Clone, Copy, PartialEq, Eq, Debug)]
enum Status {
    /// Registered by `before_spawn`, OS thread has not reached `thread_start` yet.
    Starting,
    Runnable,
    /// Waiting for a condition; enabled again once `progress` exceeds the recorded epoch.
    Yielded(u64),
    /// Body finished, OS thread (TLS destructors) still running; keeps the baton.
    Exiting,
    Finished,
}

struct Th {
    status: Status,
    name: String,
    wait_label: &'static str,
    /// woken when this thread is given the baton (avoids waking every waiting thread)
    cv: std::sync::Arc<Condvar>,
}

#[derive(Clone, Debug)]
pub struct Choice {
    /// number of enabled threads at this point (canonical order: current first if enabled, then ascending ids)
    pub enabled: u8,
    pub chosen: u8,
    /// was the running thread itself enabled (so picking another one is a preemption)?
    pub current_enabled: bool,
}

struct Sched {
    threads: Vec<Th>,
    tid_of: HashMap<i64, usize>,
    current: usize,
    progress: u64,
    prefix: Vec<u8>,
    choices: Vec<Choice>,
    trace: Vec<(u8, &'static str)>,
    steps: u64,
    max_steps: u64,
    expected_starting: usize,
    record_trace: bool,
    result_fd: i32,
}

static SCHED: Mutex<Option<Sched>> = Mutex::new(None);
static SPIN_UNREGISTERED: std::sync::atomic::AtomicU64 = std::sync::atomic::AtomicU64::new(0);
static SPIN_EXITING: std::sync::atomic::AtomicU64 = std::sync::atomic::AtomicU64::new(0);
static CV: Condvar = Condvar::new();

thread_local! {
    static TID_CACHE: std::cell::Cell<i64> = const { std::cell::Cell::new(0) };
}

fn gettid() -> i64 {
    // Cached per thread; falls back to the syscall while thread-locals are being destroyed.
    TID_CACHE
        .try_with(|c| {
            if c.get() == 0 {
                // SAFETY: plain syscall without arguments.
                c.set(unsafe { libc::syscall(libc::SYS_gettid) as i64 });
            }
            c.get()
        })
        // SAFETY: plain syscall without arguments.
        .unwrap_or_else(|_| unsafe { libc::syscall(libc::SYS_gettid) as i64 })
}

fn lock() -> std::sync::MutexGuard<'static, Option<Sched>> {
    SCHED.lock().unwrap_or_else(|p| p.into_inner())
}

/// Is a controlled execution active in this process and is the caller one of its threads?
fn my_id(s: &Sched) -> Option<usize> {
    s.tid_of.get(&gettid()).copied()
}

fn finish_execution(s: &Sched, outcome: &str, detail: Value) -> ! {
    let v = json!({
        "outcome": outcome,
        "detail": detail,
        "choices": s.choices.iter().map(|c| json!([c.enabled, c.chosen, c.current_enabled])).collect::<Vec<_>>(),
        "steps": s.steps,
        "spins": [SPIN_UNREGISTERED.load(std::sync::atomic::Ordering::Relaxed), SPIN_EXITING.load(std::sync::atomic::Ordering::Relaxed)],
        "trace": if s.record_trace { s.trace.iter().map(|(t, l)| format!("{t}:{l}")).collect::<Vec<_>>() } else { vec![] },
    });
    let text = serde_json::to_string(&v).unwrap();
    // SAFETY: result_fd is the write end of the pipe created by the runner for this child.
    let mut f = unsafe { std::fs::File::from_raw_fd(s.result_fd) };
    let _ = f.write_all(text.as_bytes());
    let _ = f.flush();
    drop(f);
    // SAFETY: terminate the child immediately, without running atexit handlers or destructors.
    unsafe { libc::_exit(0) }
}

impl Sched {
    fn enabled_list(&self) -> (Vec<usize>, bool) {
        let mut v = Vec::new();
        let cur_enabled = self.is_enabled(self.current);
        if cur_enabled {
            v.push(self.current);
        }
        for i in 0..self.threads.len() {
            if i != self.current && self.is_enabled(i) {
                v.push(i);
            }
        }
        (v, cur_enabled)
    }

    fn is_enabled(&self, i: usize) -> bool {
        match self.threads[i].status {
            Status::Runnable => true,
            Status::Yielded(e) => self.progress > e,
            _ => false,
        }
    }

    /// Decide who runs next and hand over the baton. Called with the lock held by the thread that
    /// currently has the baton (or by the reaper on behalf of an exited thread).
    fn decide(&mut self) {
        assert_eq!(self.expected_starting, 0, "decide() while a spawned thread has not arrived");
        self.steps += 1;
        if self.steps > self.max_steps {
            finish_execution(self, "step-cap", json!({"steps": self.steps}));
        }
        let (en, cur_enabled) = self.enabled_list();
        if en.is_empty() {
            let unfinished: Vec<String> = self
                .threads
                .iter()
                .filter(|t| !matches!(t.status, Status::Finished))
                .map(|t| format!("{}@{}", t.name, t.wait_label))
                .collect();
            if unfinished.is_empty() {
                finish_execution(self, "engine-error", json!("decide() with all threads finished"));
            }
            finish_execution(self, "deadlock", json!({"blocked": unfinished}));
        }
        let pick = if en.len() == 1 {
            0
        } else {
            let idx = self.choices.len();
            let chosen = if idx < self.prefix.len() { self.prefix[idx] } else { 0 };
            if chosen as usize >= en.len() {
                finish_execution(
                    self,
                    "engine-error",
                    json!(format!("replay divergence: choice {idx} = {chosen} but only {} threads enabled", en.len())),
                );
            }
            self.choices.push(Choice { enabled: en.len() as u8, chosen, current_enabled: cur_enabled });
            chosen as usize
        };
        self.current = en[pick];
        if let Status::Yielded(_) = self.threads[self.current].status {
            self.threads[self.current].status = Status::Runnable;
        }
        self.threads[self.current].cv.notify_all();
    }
}

/// Block until every thread announced by `before_spawn` has arrived at `thread_start`, so that
/// the enabled set at the coming decision is a function of the schedule prefix only.
fn wait_starting(mut g: std::sync::MutexGuard<'static, Option<Sched>>) -> std::sync::MutexGuard<'static, Option<Sched>> {
    while g.as_ref().is_some_and(|s| s.expected_starting > 0) {
        g = CV.wait(g).unwrap_or_else(|p| p.into_inner());
    }
    g
}

/// Block the calling thread until it holds the baton.
fn wait_for_baton(mut g: std::sync::MutexGuard<'static, Option<Sched>>, me: usize) {
    let cv = g.as_ref().unwrap().threads[me].cv.clone();
    loop {
        {
            let s = g.as_ref().unwrap();
            if s.current == me && matches!(s.threads[me].status, Status::Runnable) {
                return;
            }
        }
        g = cv.wait(g).unwrap_or_else(|p| p.into_inner());
    }
}

/// A scheduling point. No-op when called outside a controlled execution (e.g. from the runner).
pub fn point(label: &'static str) {
    let mut g = wait_starting(lock());
    let Some(s) = g.as_mut() else { return };
    let Some(me) = my_id(s) else { return };
    if matches!(s.threads[me].status, Status::Exiting) {
        // Points reached from TLS destructors of an exiting thread: it keeps the baton.
        return;
    }
    debug_assert_eq!(s.current, me, "point() called by a thread that does not hold the baton");
    s.progress += 1;
    if s.record_trace {
        s.trace.push((me as u8, label));
    }
    s.decide();
    if s.current != me {
        CV.notify_all();
        wait_for_baton(g, me);
    }
}

/// Wait (as a modelled blocking operation) until `cond` holds. `cond` is evaluated by the calling
/// thread while it holds the baton; it must not block.
pub fn block_until(label: &'static str, cond: &mut dyn FnMut() -> bool) {
    // The code the caller ran before its first (failed) check counts as progress for the other
    // threads' conditions; a mere re-check after a wake-up does not (otherwise two blocked
    // threads would keep re-enabling each other and a deadlock would never be detected).
    let mut first = true;
    loop {
        if cond() {
            return;
        }
        let mut g = wait_starting(lock());
        let Some(s) = g.as_mut() else {
            drop(g);
            std::thread::yield_now();
            continue;
        };
        let Some(me) = my_id(s) else {
            drop(g);
            SPIN_UNREGISTERED.fetch_add(1, std::sync::atomic::Ordering::Relaxed);
            std::thread::yield_now();
            continue;
        };
        if matches!(s.threads[me].status, Status::Exiting) {
            drop(g);
            SPIN_EXITING.fetch_add(1, std::sync::atomic::Ordering::Relaxed);
            std::thread::yield_now();
            continue;
        }
        if first {
            s.progress += 1;
            first = false;
        }
        s.threads[me].status = Status::Yielded(s.progress);
        s.threads[me].wait_label = label;
        if s.record_trace {
            s.trace.push((me as u8, label));
        }
        s.decide();
        CV.notify_all();
        wait_for_baton(g, me);
    }
}

/// Called by a thread that is about to create an OS thread which will call [`thread_start`].
/// Returns the id reserved for the new thread.
pub fn before_spawn(name: &str) -> usize {
    let mut g = lock();
    let Some(s) = g.as_mut() else { return usize::MAX };
    if my_id(s).is_none() {
        return usize::MAX;
    }
    s.threads.push(Th { status: Status::Starting, name: name.to_string(), wait_label: "", cv: std::sync::Arc::new(Condvar::new()) });
    s.expected_starting += 1;
    s.threads.len() - 1
}

/// First call on a new controlled thread; blocks until it is scheduled.
pub fn thread_start(id: usize) {
    if id == usize::MAX {
        return;
    }
    let mut g = lock();
    let s = g.as_mut().expect("thread_start outside an execution");
    s.tid_of.insert(gettid(), id);
    s.threads[id].status = Status::Runnable;
    s.expected_starting -= 1;
    CV.notify_all();
    wait_for_baton(g, id);
}

/// Last call of a library-spawned controlled thread (its TLS destructors run uncontrolled).
pub fn thread_exit() {
    let mut g = wait_starting(lock());
    let Some(s) = g.as_mut() else { return };
    let Some(me) = my_id(s) else { return };
    s.threads[me].status = Status::Finished;
    s.progress += 1;
    s.tid_of.remove(&gettid());
    all_done_or_decide(s);
    CV.notify_all();
}

fn all_done_or_decide(s: &mut Sched) {
    if s.threads.iter().all(|t| matches!(t.status, Status::Finished)) {
        // The root thread reports the result itself; nothing to decide.
        return;
    }
    s.decide();
}

pub struct JoinHandle<T> {
    id: usize,
    os: Option<std::thread::JoinHandle<Result<T, String>>>,
}

impl<T> JoinHandle<T> {
    /// Modelled join: yields until the thread has fully exited (including TLS destructors).
    pub fn join(mut self) -> Result<T, String> {
        let id = self.id;
        block_until("join", &mut || {
            let g = lock();
            matches!(g.as_ref().unwrap().threads[id].status, Status::Finished)
        });
        self.os.take().unwrap().join().unwrap_or_else(|_| Err("thread wrapper panicked".into()))
    }
    pub fn is_finished(&self) -> bool {
        let g = lock();
        matches!(g.as_ref().unwrap().threads[self.id].status, Status::Finished)
    }
    pub fn id(&self) -> usize {
        self.id
    }
}

/// Spawn a controlled thread. A scheduling point for the caller.
pub fn spawn<T: Send + 'static>(name: &str, f: impl FnOnce() -> T + Send + 'static) -> JoinHandle<T> {
    let id = before_spawn(name);
    assert!(id != usize::MAX, "vsched::spawn outside a controlled execution");
    let os = std::thread::Builder::new()
        .name(name.to_string())
        .spawn(move || {
            // Register the exit guard FIRST: std runs TLS destructors in reverse order of
            // registration, so this one runs after every thread-local the body initialises.
            EXIT_GUARD.with(|c| c.set(Some(id)));
            thread_start(id);
            let r = std::panic::catch_unwind(std::panic::AssertUnwindSafe(f)).map_err(|p| vcommon::panic_message(&*p));
            // Body done: the thread keeps the baton while its TLS destructors run; the exit
            // guard's destructor marks it finished and makes the next scheduling decision.
            let mut g = lock();
            let s = g.as_mut().unwrap();
            s.threads[id].status = Status::Exiting;
            s.progress += 1;
            drop(g);
            r
        })
        .expect("spawn OS thread");
    point("spawn");
    JoinHandle { id, os: Some(os) }
}

// A thread-local whose destructor marks the thread as Finished (see `spawn`).
struct ExitGuard(std::cell::Cell<Option<usize>>);
impl ExitGuard {
    fn set(&self, v: Option<usize>) {
        self.0.set(v);
    }
}
impl Drop for ExitGuard {
    fn drop(&mut self) {
        if let Some(id) = self.0.get() {
            let mut g = wait_starting(lock());
            if let Some(s) = g.as_mut() {
                s.threads[id].status = Status::Finished;
                s.tid_of.remove(&gettid());
                all_done_or_decide(s);
                CV.notify_all();
            }
        }
    }
}
thread_local! {
    static EXIT_GUARD: ExitGuard = const { ExitGuard(std::cell::Cell::new(None)) };
}

// ------------------------------------------------------------------------------------------
// Runner side: fork one child per execution, DFS over choice prefixes
// ------------------------------------------------------------------------------------------

#[derive(Clone, Debug)]
pub struct ExecResult {
    pub prefix: Vec<u8>,
    /// "ok" | "deadlock" | "step-cap" | "engine-error" | "stuck" | "crashed"
    pub outcome: String,
    pub detail: Value,
    /// what the body returned (ok) or its panic message
    pub observation: Result<String, String>,
    pub choices: Vec<Choice>,
    pub steps: u64,
    pub trace: Vec<String>,
}

impl ExecResult {
    pub fn schedule(&self) -> Vec<u8> {
        self.choices.iter().map(|c| c.chosen).collect()
    }
    pub fn preemptions(&self) -> usize {
        self.choices.iter().filter(|c| c.current_enabled && c.chosen != 0).count()
    }
}

#[derive(Clone, Debug)]
pub struct Config {
    pub preemption_bound: usize,
    pub max_steps: u64,
    pub exec_timeout: Duration,
    pub record_trace: bool,
    /// stop after this many executions (cap; reported by the caller as non-exhaustive)
    pub max_executions: u64,
    /// false (default): the bound counts preemptions only (switching away from a thread that could
    /// continue); choices among enabled threads when the running thread blocks or ends are free
    /// and all explored. true: EVERY departure from the default choice costs 1 ("deviation
    /// bounding") — use it for programs with many threads, where the free choices alone are
    /// exponential in the number of blocking operations.
    pub count_all_deviations: bool,
}

impl Default for Config {
    fn default() -> Self {
        Self { preemption_bound: 2, max_steps: 20_000, exec_timeout: Duration::from_secs(20), record_trace: false, max_executions: u64::MAX, count_all_deviations: false }
    }
}

/// utime + stime of the child process in clock ticks (0 when unreadable).
fn child_cpu_ticks(pid: libc::pid_t) -> u64 {
    let stat = std::fs::read_to_string(format!("/proc/{pid}/stat")).unwrap_or_default();
    let rest: Vec<&str> = stat.rsplit(')').next().unwrap_or("").split_whitespace().collect();
    // after the command name: state(0) ppid(1) ... utime is field 14 overall = index 11 here, stime 12
    let get = |i: usize| rest.get(i).and_then(|x| x.parse::<u64>().ok()).unwrap_or(0);
    get(11) + get(12)
}

/// Whether some thread of the child is in state R (running or waiting for a processor).
fn child_has_runnable_thread(pid: libc::pid_t) -> bool {
    let Ok(rd) = std::fs::read_dir(format!("/proc/{pid}/task")) else { return false };
    rd.flatten().any(|e| {
        let stat = std::fs::read_to_string(e.path().join("stat")).unwrap_or_default();
        stat.rsplit(')').next().unwrap_or("").split_whitespace().next() == Some("R")
    })
}

/// Run one execution of `body` under the schedule `prefix` (choice 0 afterwards) in a forked child.
/// Must be called from a single-threaded process.
pub fn run_one(cfg: &Config, prefix: &[u8], body: &(dyn Fn() -> String + Sync)) -> ExecResult {
    let mut fds = [0_i32; 2];
    // SAFETY: plain pipe creation.
    assert_eq!(unsafe { libc::pipe(fds.as_mut_ptr()) }, 0, "pipe");
    // Runners of one check share their parent, so `slot + parent pid` keeps them on distinct
    // processors while different checks running at the same time do not all pile onto 0..n.
    // SAFETY: plain libc call.
    let cpu_offset = unsafe { libc::getppid() } as usize;
    // SAFETY: the runner process is single-threaded at this point (documented requirement).
    let pid = unsafe { libc::fork() };
    assert!(pid >= 0, "fork failed");
    if pid == 0 {
        // ---- child ----
        // SAFETY: closing the read end we do not use.
        unsafe { libc::close(fds[0]) };
        // The forked main thread inherited the runner's cached thread id.
        TID_CACHE.with(|c| c.set(0));
        // All threads of one execution run one at a time anyway: keep them on one processor so
        // that a baton hand-off is a local context switch instead of a cross-processor wake-up
        // (which costs hundreds of microseconds on this virtual machine).
        if std::env::var_os("VSCHED_NO_PIN").is_none() {
            // SAFETY: plain libc calls on a zeroed cpu_set_t owned by this frame.
            unsafe {
                let mut allowed: libc::cpu_set_t = std::mem::zeroed();
                if libc::sched_getaffinity(0, size_of::<libc::cpu_set_t>(), &mut allowed) == 0 {
                    let cpus: Vec<usize> = (0..libc::CPU_SETSIZE as usize).filter(|&i| libc::CPU_ISSET(i, &allowed)).collect();
                    if !cpus.is_empty() {
                        let slot = std::env::var("VERIF_JOB_SLOT").ok().and_then(|v| v.parse::<usize>().ok()).unwrap_or(0);
                        let pick = cpus[(slot + cpu_offset) % cpus.len()];
                        let mut one: libc::cpu_set_t = std::mem::zeroed();
                        libc::CPU_SET(pick, &mut one);
                        libc::sched_setaffinity(0, size_of::<libc::cpu_set_t>(), &one);
                    }
                }
            }
        }
        {
            let mut g = lock();
            let mut tid_of = HashMap::new();
            tid_of.insert(gettid(), 0);
            *g = Some(Sched {
                threads: vec![Th { status: Status::Runnable, name: "root".into(), wait_label: "", cv: std::sync::Arc::new(Condvar::new()) }],
                tid_of,
                current: 0,
                progress: 0,
                prefix: prefix.to_vec(),
                choices: Vec::new(),
                trace: Vec::new(),
                steps: 0,
                max_steps: cfg.max_steps,
                expected_starting: 0,
                record_trace: cfg.record_trace,
                result_fd: fds[1],
            });
        }
        let obs = std::panic::catch_unwind(std::panic::AssertUnwindSafe(body)).map_err(|p| vcommon::panic_message(&*p));
        // Root finished: every other thread must be finished too (bodies join what they spawn;
        // library threads must have exited). Wait for stragglers as a modelled join.
        block_until("root-wait-all", &mut || {
            let g = lock();
            let s = g.as_ref().unwrap();
            s.threads.iter().enumerate().all(|(i, t)| i == 0 || matches!(t.status, Status::Finished))
        });
        let g = lock();
        let s = g.as_ref().unwrap();
        let (o, d) = match obs {
            Ok(o) => ("ok", json!({ "observation": o })),
            Err(m) => ("ok", json!({ "panic": m })),
        };
        finish_execution(s, o, d);
    }
    // ---- parent ----
    // SAFETY: closing the write end we do not use; taking ownership of the read end.
    unsafe { libc::close(fds[1]) };
    let mut rd = unsafe { std::fs::File::from_raw_fd(fds[0]) };
    // Read with a deadline: poll the fd.
    let start = Instant::now();
    let mut buf = Vec::new();
    let mut stuck = false;
    // The deadline is extended (up to 8 x exec_timeout in total) while the child is merely slow:
    // some thread of it is runnable or it consumed processor time since the last look. A child
    // that is really stuck sleeps in a futex wait and accumulates no time.
    let mut deadline = cfg.exec_timeout;
    let mut last_ticks = child_cpu_ticks(pid);
    loop {
        let remaining = deadline.checked_sub(start.elapsed());
        let Some(rem) = remaining else {
            let ticks = child_cpu_ticks(pid);
            let busy = ticks != last_ticks || child_has_runnable_thread(pid);
            last_ticks = ticks;
            if busy && deadline < cfg.exec_timeout * 8 {
                deadline += cfg.exec_timeout;
                continue;
            }
            stuck = true;
            break;
        };
        let mut pfd = libc::pollfd { fd: fds[0], events: libc::POLLIN, revents: 0 };
        // SAFETY: valid pollfd.
        let n = unsafe { libc::poll(&mut pfd, 1, rem.as_millis().min(1000) as i32) };
        if n > 0 {
            let mut chunk = [0_u8; 65536];
            match rd.read(&mut chunk) {
                Ok(0) => break,
                Ok(k) => buf.extend_from_slice(&chunk[..k]),
                Err(_) => break,
            }
        }
    }
    let mut stuck_info = String::new();
    if stuck {
        // Diagnostics for an engine-level hang: what is every thread of the child doing?
        if let Ok(rd) = std::fs::read_dir(format!("/proc/{pid}/task")) {
            for e in rd.flatten() {
                let t = e.path();
                let comm = std::fs::read_to_string(t.join("comm")).unwrap_or_default();
                let stat = std::fs::read_to_string(t.join("stat")).unwrap_or_default();
                let state = stat.rsplit(')').next().unwrap_or("").split_whitespace().next().unwrap_or("?").to_string();
                let sysc = std::fs::read_to_string(t.join("syscall")).unwrap_or_default();
                let wchan = std::fs::read_to_string(t.join("wchan")).unwrap_or_default();
                stuck_info.push_str(&format!("[{} state={} wchan={} syscall={}] ", comm.trim(), state, wchan.trim(), sysc.split_whitespace().take(2).collect::<Vec<_>>().join(",")));
            }
        }
        // SAFETY: kill our own child.
        unsafe { libc::kill(pid, libc::SIGKILL) };
    }
    let mut status = 0;
    // SAFETY: reap our own child.
    unsafe { libc::waitpid(pid, &mut status, 0) };
    let parsed: Option<Value> = serde_json::from_slice(&buf).ok();
    match parsed {
        Some(v) => {
            let choices = v["choices"]
                .as_array()
                .map(|a| {
                    a.iter()
                        .map(|c| Choice { enabled: c[0].as_u64().unwrap() as u8, chosen: c[1].as_u64().unwrap() as u8, current_enabled: c[2].as_bool().unwrap() })
                        .collect()
                })
                .unwrap_or_default();
            let outcome = v["outcome"].as_str().unwrap_or("?").to_string();
            let observation = if let Some(o) = v["detail"]["observation"].as_str() {
                Ok(o.to_string())
            } else if let Some(p) = v["detail"]["panic"].as_str() {
                Err(p.to_string())
            } else {
                Err(String::new())
            };
            if std::env::var_os("VSCHED_DEBUG").is_some() {
                eprintln!("vsched: exec outcome={} steps={} spins={} wall={:?}", outcome, v["steps"], v["spins"], start.elapsed());
            }
            ExecResult {
                prefix: prefix.to_vec(),
                outcome,
                detail: v["detail"].clone(),
                observation,
                choices,
                steps: v["steps"].as_u64().unwrap_or(0),
                trace: v["trace"].as_array().map(|a| a.iter().filter_map(|x| x.as_str().map(String::from)).collect()).unwrap_or_default(),
            }
        }
        None => ExecResult {
            prefix: prefix.to_vec(),
            outcome: if stuck { "stuck".into() } else { "crashed".into() },
            detail: json!({"wait_status": status, "bytes": buf.len(), "threads": stuck_info}),
            observation: Err(String::new()),
            choices: Vec::new(),
            steps: 0,
            trace: Vec::new(),
        },
    }
}

#[derive(Default, Debug, Clone)]
pub struct Stats {
    pub executions: u64,
    pub steps: u64,
    pub max_choice_points: usize,
    pub capped: bool,
}

/// Exhaustive DFS over all schedules within the preemption bound, starting from `roots`
/// (use `vec![vec![]]` for the whole tree). `on_result` sees every execution.
pub fn explore(cfg: &Config, roots: Vec<Vec<u8>>, body: &(dyn Fn() -> String + Sync), mut on_result: impl FnMut(&ExecResult)) -> Stats {
    let mut stats = Stats::default();
    let mut stack: Vec<Vec<u8>> = roots;
    stack.reverse();
    while let Some(prefix) = stack.pop() {
        if stats.executions >= cfg.max_executions {
            stats.capped = true;
            break;
        }
        let r = run_one(cfg, &prefix, body);
        stats.executions += 1;
        stats.steps += r.steps;
        stats.max_choice_points = stats.max_choice_points.max(r.choices.len());
        on_result(&r);
        // Branch on every choice point after the prefix.
        let mut cost = 0_usize;
        let mut alts: Vec<Vec<u8>> = Vec::new();
        for (i, c) in r.choices.iter().enumerate() {
            if i >= prefix.len() {
                for alt in 1..c.enabled {
                    let extra = usize::from(c.current_enabled || cfg.count_all_deviations);
                    if cost + extra <= cfg.preemption_bound {
                        let mut p: Vec<u8> = r.choices[..i].iter().map(|x| x.chosen).collect();
                        p.push(alt);
                        alts.push(p);
                    }
                }
            }
            if (c.current_enabled || cfg.count_all_deviations) && c.chosen != 0 {
                cost += 1;
            }
        }
        // Depth-first: deepest alternatives first.
        for p in alts {
            stack.push(p);
        }
    }
    stats
}

/// Shard `shard` of `nshards` of the same DFS: the root execution's alternatives (disjoint
/// subtrees) are dealt round-robin; shard 0 also reports the root execution itself.
pub fn explore_sharded(
    cfg: &Config,
    shard: usize,
    nshards: usize,
    body: &(dyn Fn() -> String + Sync),
    mut on_result: impl FnMut(&ExecResult),
) -> Stats {
    let mut stats = Stats::default();
    let r = run_one(cfg, &[], body);
    if shard == 0 {
        stats.executions += 1;
        stats.steps += r.steps;
        stats.max_choice_points = r.choices.len();
        on_result(&r);
    }
    let mut cost = 0_usize;
    let mut alts: Vec<Vec<u8>> = Vec::new();
    for (i, c) in r.choices.iter().enumerate() {
        for alt in 1..c.enabled {
            if cost + usize::from(c.current_enabled || cfg.count_all_deviations) <= cfg.preemption_bound {
                let mut p: Vec<u8> = r.choices[..i].iter().map(|x| x.chosen).collect();
                p.push(alt);
                alts.push(p);
            }
        }
        if (c.current_enabled || cfg.count_all_deviations) && c.chosen != 0 {
            cost += 1;
        }
    }
    let mine: Vec<Vec<u8>> = alts.into_iter().enumerate().filter(|(i, _)| i % nshards.max(1) == shard).map(|(_, p)| p).collect();
    if !mine.is_empty() {
        let st = explore(cfg, mine, body, on_result);
        stats.executions += st.executions;
        stats.steps += st.steps;
        stats.max_choice_points = stats.max_choice_points.max(st.max_choice_points);
        stats.capped |= st.capped;
    }
    stats
}

/// Has the controlled thread `id` finished (body and, for harness threads, TLS destructors)?
pub fn thread_finished(id: usize) -> bool {
    let g = lock();
    match g.as_ref() {
        Some(s) => id < s.threads.len() && matches!(s.threads[id].status, Status::Finished),
        None => true,
    }
}

/// Determinism proof obligation: the same schedule must give the same trace and observation twice.
pub fn check_determinism(cfg: &Config, prefix: &[u8], body: &(dyn Fn() -> String + Sync)) -> Result<(), String> {
    let mut c = cfg.clone();
    c.record_trace = true;
    let a = run_one(&c, prefix, body);
    let b = run_one(&c, prefix, body);
    if a.outcome == "stuck" || b.outcome == "stuck" {
        return Err(format!("an execution did not finish within {:?}: A {} {} / B {} {}", c.exec_timeout, a.outcome, a.detail, b.outcome, b.detail));
    }
    if a.trace != b.trace || a.observation != b.observation || a.outcome != b.outcome {
        return Err(format!(
            "nondeterministic harness: same schedule, different executions\n  A: {} {:?} {:?}\n  B: {} {:?} {:?}",
            a.outcome, a.observation, a.trace, b.outcome, b.observation, b.trace
        ));
    }
    Ok(())
}

/// Installed once per process by harnesses that hook repository crates: the crates' own
/// `verif_hook` modules take plain fn pointers.
pub fn hook_point(label: &'static str) {
    point(label);
}
pub fn hook_block_until(label: &'static str, cond: &mut dyn FnMut() -> bool) {
    block_until(label, cond);
}


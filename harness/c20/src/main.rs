use vcommon::{Check, serde_json::json};
fn main() {
    let mut c = Check::new("C20", "exploration");
    c.rule = "stub".into();
    for i in 0..3 { c.evaluations += 1; c.distinct_hash(i); }
    c.sample(json!({"median": cbh_stats::median(&[1.0, 2.0, 4.0])}));
    c.finish();
}

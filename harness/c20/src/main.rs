//! C20 — statistical primitives match their definitions on every input.
//!
//! Bounded exhaustive input sweep (no sampling): every weak ordering (tie pattern, in every
//! arrangement in time) of up to N points, every split of it into two samples, every
//! Benjamini-Hochberg p-vector over a fixed 9-value domain, and the exact/approximate switch-over
//! sizes of Mann-Whitney, each compared against `reference.rs` (written from the definitions with
//! exact integer / rational arithmetic).
//!
//! Replay: `VERIF_REPLAY=<file>` (or `./check C20 --replay <file>`) re-runs the single case in the
//! file (`function` + exact input vectors) and prints expected vs. actual.

mod reference;

use std::collections::{BTreeMap, HashMap, HashSet};
use std::num::NonZero;
use std::sync::Mutex;
use std::sync::atomic::{AtomicUsize, Ordering};

use cbh_stats::{
    MannWhitneyU, SelectionCalibration, benjamini_hochberg, mann_kendall, mann_whitney_superiority,
    mann_whitney_u_pvalue, median, median_in_place, pettitt, selection_adjusted_change_point,
    student_t_two_sided_p, theil_sen_line,
};
use reference as rf;
use reference::{MwRef, TailCache, TieClass};
use vcommon::serde_json::{Value, json};
use vcommon::{Check, fnv1a};

// ---------------------------------------------------------------------------------------------
// Process plumbing (no effect on what is checked): per-thread CPU clock for the cost report, and
// allocator tuning so that the megabyte-sized count tables the exact Mann-Whitney path allocates
// on every call are recycled from the heap instead of being mmap'ed / trimmed each time.
// ---------------------------------------------------------------------------------------------

#[repr(C)]
struct Timespec {
    tv_sec: i64,
    tv_nsec: i64,
}

unsafe extern "C" {
    fn clock_gettime(clock: i32, ts: *mut Timespec) -> i32;
    fn mallopt(param: i32, value: i32) -> i32;
}

fn thread_cpu_seconds() -> f64 {
    const CLOCK_THREAD_CPUTIME_ID: i32 = 3;
    let mut ts = Timespec {
        tv_sec: 0,
        tv_nsec: 0,
    };
    // SAFETY: plain libc call writing into a properly sized, owned struct.
    let rc = unsafe { clock_gettime(CLOCK_THREAD_CPUTIME_ID, &mut ts) };
    if rc != 0 {
        return 0.0;
    }
    ts.tv_sec as f64 + ts.tv_nsec as f64 * 1e-9
}

fn tune_allocator() {
    const M_TRIM_THRESHOLD: i32 = -1;
    const M_TOP_PAD: i32 = -2;
    const M_MMAP_THRESHOLD: i32 = -3;
    // SAFETY: mallopt only adjusts glibc malloc tunables; failure is harmless.
    unsafe {
        mallopt(M_MMAP_THRESHOLD, 32 << 20);
        mallopt(M_TRIM_THRESHOLD, 1 << 30);
        mallopt(M_TOP_PAD, 16 << 20);
    }
}

// ---------------------------------------------------------------------------------------------
// Tolerances (each justified where it is used)
// ---------------------------------------------------------------------------------------------

/// Exact-arithmetic reference vs. f64 result that is a handful of correctly rounded operations on
/// exactly representable integers (counts < 2^53, rank sums, small rationals): a few ulp (1e-16)
/// in the implementation plus one rounding in the reference. 1e-12 leaves four orders of margin
/// while every plausible defect (wrong tail, wrong tie term, off-by-one) moves results by >= 1e-3.
const TOL_EXACT: f64 = 1e-12;
/// Normal-approximation p-values: `two_sided_p_from_z` documents relative error < 1e-12; the
/// conditioning of the tail in z adds z^2 * (few ulp) <= 1e-13 inside the reportable range; the
/// libm reference is < 1 ulp. 1e-10 leaves a 50x margin.
const TOL_NORMAL: f64 = 1e-10;
/// `student_t_two_sided_p` documents relative error < 1e-10 up to 1000 degrees of freedom.
const TOL_STUDENT: f64 = 1e-9;

fn close_rel(actual: f64, expected: f64, rel: f64) -> bool {
    actual == expected || (actual - expected).abs() <= rel * actual.abs().max(expected.abs())
}

fn close_abs(actual: f64, expected: f64, rel: f64, scale: f64) -> bool {
    actual == expected
        || (actual - expected).abs() <= rel * scale.max(actual.abs()).max(expected.abs())
}

fn in_range(p: f64) -> bool {
    (rf::P_FLOOR..=1.0).contains(&p)
}

// ---------------------------------------------------------------------------------------------
// Outcome classes (anti-vacuity)
// ---------------------------------------------------------------------------------------------

macro_rules! outcomes {
    ($($id:ident = $name:expr,)*) => {
        #[allow(non_camel_case_types, clippy::upper_case_acronyms)]
        #[derive(Clone, Copy)]
        #[repr(usize)]
        enum O { $($id,)* COUNT }
        const OUT_NAMES: [&str; O::COUNT as usize] = [$($name,)*];
    };
}

outcomes! {
    MW_EXACT = "mw:exact_path",
    MW_NORMAL = "mw:normal_path",
    MW_EMPTY = "mw:empty_sample_none",
    MW_P_ONE = "mw:p=1",
    MW_P_FLOOR = "mw:p=floor(1e-15)",
    MW_P_INTERIOR = "mw:p_interior",
    MW_TIES = "mw:ties",
    MW_NOTIES = "mw:noties",
    MW_CONSTANT = "mw:constant",
    MW_SUP_0 = "mw:superiority=0",
    MW_SUP_1 = "mw:superiority=1",
    MW_SUP_HALF = "mw:superiority=0.5",
    MK_SHORT = "mk:n<3",
    MK_ZERO_VAR = "mk:zero_variance",
    MK_S_POS = "mk:s>0",
    MK_S_NEG = "mk:s<0",
    MK_S_ZERO = "mk:s=0",
    MK_TIED = "mk:tied",
    MK_P_FLOOR = "mk:p=floor(1e-15)",
    PT_NONE = "pettitt:none(n<2)",
    PT_FLAT = "pettitt:flat(K=0)",
    PT_TIED_ARGMAX = "pettitt:several_maximisers(first_wins)",
    PT_UNIQUE_ARGMAX = "pettitt:unique_maximiser",
    PT_P_ONE = "pettitt:p_clamped_to_1",
    PT_P_INTERIOR = "pettitt:p_interior",
    PT_P_FLOOR = "pettitt:p=floor(1e-15)",
    TS_NONE = "theil_sen:none(n<2)",
    TS_SOME = "theil_sen:some",
    TS_HALF_SLOPE = "theil_sen:slope_is_midpoint_of_two",
    MED_NONE = "median:none",
    MED_ODD = "median:odd",
    MED_EVEN = "median:even",
    SEL_ORBIT_INFORMATIVE = "selection:permutation-orbit:some-orderings-less-extreme",
    SEL_ORBIT_ALL_EXTREME = "selection:permutation-orbit:all-orderings-at-least-as-extreme",
    MED_ODD_GIANT = "median:odd:extreme-magnitude",
    MED_EVEN_GIANT = "median:even:extreme-magnitude",
    TS_GIANT = "theil_sen:extreme-magnitude",
    TS_GIANT_UNREPRESENTABLE = "theil_sen:extreme-magnitude:result-not-representable(skipped)",
    BH_NONE = "bh:nothing_rejected",
    BH_ALL = "bh:everything_rejected",
    BH_SOME = "bh:some_rejected",
    BH_RESCUED = "bh:step_up_rescues_failed_rank",
    BH_NAN = "bh:nan_present",
    BH_FAMILY_MATTERS = "bh:family_size_changes_mask",
    BH_AMBIGUOUS = "bh:rounding_ambiguous(not_judged)",
    BH_SMALL_FAMILY_PANICS = "bh:family<len_panics(documented)",
    BH_SMALL_FAMILY_RETURNS = "bh:family<len_returns",
    ST_DEGENERATE = "student_t:degenerate=1",
    ST_FLOOR = "student_t:p=floor(1e-15)",
    ST_INTERIOR = "student_t:p_interior",
    ST_CLOSED_FORM = "student_t:closed_form_compared",
    SEL_NONE = "selection:none",
    SEL_SOME = "selection:some",
    SEL_ADJUSTED_ABOVE = "selection:adjusted_p>tainted_p",
}

// ---------------------------------------------------------------------------------------------
// Accumulator (one per job; merged in job order so the first witness is deterministic)
// ---------------------------------------------------------------------------------------------

struct Viol {
    key: String,
    summary: String,
    replay: Value,
}

struct Acc {
    evaluations: u64,
    distinct: HashSet<u64>,
    outcomes: [u64; O::COUNT as usize],
    violations: Vec<Viol>,
    viol_counts: BTreeMap<String, u64>,
    per_family: BTreeMap<&'static str, u64>,
    keep_per_key: u64,
}

impl Acc {
    fn new() -> Self {
        Self {
            evaluations: 0,
            distinct: HashSet::new(),
            outcomes: [0; O::COUNT as usize],
            violations: Vec::new(),
            viol_counts: BTreeMap::new(),
            per_family: BTreeMap::new(),
            keep_per_key: 2,
        }
    }
    #[inline]
    fn out(&mut self, o: O) {
        self.outcomes[o as usize] += 1;
    }
    fn fail(&mut self, key: String, summary: String, replay: Value) {
        let n = self.viol_counts.entry(key.clone()).or_insert(0);
        *n += 1;
        if *n <= self.keep_per_key {
            self.violations.push(Viol {
                key,
                summary,
                replay,
            });
        }
    }
    fn family(&mut self, f: &'static str, n: u64) {
        *self.per_family.entry(f).or_insert(0) += n;
    }
}

// ---------------------------------------------------------------------------------------------
// JSON encoding of f64 vectors (bit patterns are authoritative; numbers are for the reader)
// ---------------------------------------------------------------------------------------------

fn fj(v: f64) -> Value {
    if v.is_finite() {
        json!(v)
    } else {
        json!(format!("{v}"))
    }
}

fn vec_json(x: &[f64]) -> Value {
    json!({
        "values": x.iter().map(|&v| fj(v)).collect::<Vec<_>>(),
        "bits": x.iter().map(|v| format!("{:#018x}", v.to_bits())).collect::<Vec<_>>(),
    })
}

fn parse_f64(v: &Value) -> Option<f64> {
    match v {
        Value::Number(n) => n.as_f64(),
        Value::String(s) => {
            if let Some(h) = s.strip_prefix("0x") {
                u64::from_str_radix(h, 16).ok().map(f64::from_bits)
            } else {
                s.parse::<f64>().ok()
            }
        }
        _ => None,
    }
}

fn parse_vec(v: &Value) -> Option<Vec<f64>> {
    if let Some(bits) = v.get("bits").and_then(Value::as_array) {
        return bits.iter().map(parse_f64).collect();
    }
    if let Some(vals) = v.get("values").and_then(Value::as_array) {
        return vals.iter().map(parse_f64).collect();
    }
    v.as_array()?.iter().map(parse_f64).collect()
}

// ---------------------------------------------------------------------------------------------
// Concrete values for tie-pattern levels: a base map and three strictly increasing transforms
// ---------------------------------------------------------------------------------------------

const EXTREME: [f64; 16] = [
    f64::MIN,
    -1e300,
    -1e100,
    -1.0,
    -1e-100,
    -1e-300,
    -5e-324,
    0.0,
    5e-324,
    1e-300,
    1e-100,
    1.0,
    1e100,
    1e300,
    1e308,
    f64::MAX,
];
const MAP_NAMES: [&str; 4] = [
    "base x=2*level-2",
    "2x+1",
    "x^3",
    "extreme-magnitude (strictly increasing table)",
];
/// Mappings 0..3 keep the data integer-valued (exact rational reference for Theil-Sen / median).
const INT_MAPS: usize = 3;

fn map_value(mapping: usize, level: usize, k: usize) -> f64 {
    let base = 2.0 * level as f64 - 2.0;
    match mapping {
        0 => base,
        1 => 2.0 * base + 1.0,
        2 => base * base * base,
        3 => EXTREME[(16 - k) / 2 + level],
        _ => unreachable!(),
    }
}

// ---------------------------------------------------------------------------------------------
// Per-function checks. Each compares the real function with the reference and records failures
// with a witness-class key and a replay object holding the function name and exact inputs.
// ---------------------------------------------------------------------------------------------

fn mw_case(left: &[f64], right: &[f64]) -> Value {
    json!({"function": "mann_whitney", "left": vec_json(left), "right": vec_json(right)})
}

fn check_mw(left: &[f64], right: &[f64], exp: &Option<MwRef>, acc: &mut Acc) {
    check_mw_opt(left, right, exp, true, acc);
}

/// `conv`: also call the two convenience functions (they repeat the whole computation).
fn check_mw_opt(
    left: &[f64],
    right: &[f64],
    exp: &Option<MwRef>,
    conv: bool,
    acc: &mut Acc,
) -> Option<(f64, f64)> {
    acc.evaluations += 1;
    let mw = MannWhitneyU::new(left, right);
    let p_conv = if conv {
        mann_whitney_u_pvalue(left, right)
    } else {
        mw.map_or(1.0, |m| m.two_sided_p_value())
    };
    let sup_conv = if conv {
        mann_whitney_superiority(left, right)
    } else {
        mw.map(|m| m.superiority())
    };
    let result = mw.map(|m| (m.two_sided_p_value(), m.superiority()));
    match (exp, mw) {
        (None, None) => {
            acc.out(O::MW_EMPTY);
            if p_conv != 1.0 {
                acc.fail(
                    "mann_whitney.p_value/empty_sample".into(),
                    format!("mann_whitney_u_pvalue with an empty sample returned {p_conv:e}, documented 1.0"),
                    mw_case(left, right),
                );
            }
            if sup_conv.is_some() {
                acc.fail(
                    "mann_whitney.superiority/empty_sample".into(),
                    format!("mann_whitney_superiority with an empty sample returned {sup_conv:?}, documented None"),
                    mw_case(left, right),
                );
            }
        }
        (Some(e), Some(a)) => {
            let p = a.two_sided_p_value();
            let sup = a.superiority();
            let path = if e.exact { "exact" } else { "normal" };
            acc.out(if e.exact { O::MW_EXACT } else { O::MW_NORMAL });
            acc.out(match e.tie {
                TieClass::Constant => O::MW_CONSTANT,
                TieClass::Ties => O::MW_TIES,
                TieClass::NoTies => O::MW_NOTIES,
            });
            if e.p == 1.0 {
                acc.out(O::MW_P_ONE);
            } else if e.p == rf::P_FLOOR {
                acc.out(O::MW_P_FLOOR);
            } else {
                acc.out(O::MW_P_INTERIOR);
            }
            if e.sup == 0.0 {
                acc.out(O::MW_SUP_0);
            } else if e.sup == 1.0 {
                acc.out(O::MW_SUP_1);
            } else if e.sup == 0.5 {
                acc.out(O::MW_SUP_HALF);
            }
            let tol = if e.exact { TOL_EXACT } else { TOL_NORMAL };
            for (which, got) in [
                ("MannWhitneyU::two_sided_p_value", p),
                ("mann_whitney_u_pvalue", p_conv),
            ] {
                if !in_range(got) {
                    acc.fail(
                        format!("mann_whitney.p_value/range/{path}"),
                        format!(
                            "{which} = {got:e} outside [1e-15, 1] (n1={}, n2={})",
                            left.len(),
                            right.len()
                        ),
                        mw_case(left, right),
                    );
                } else if !close_rel(got, e.p, tol) {
                    acc.fail(
                        format!("mann_whitney.p_value/{path}/{}", e.tie.name()),
                        format!(
                            "{which} = {got:e}, definition gives {:e} ({path} path, n1={}, n2={}, tails(le,ge,total)={:?})",
                            e.p,
                            left.len(),
                            right.len(),
                            e.tails
                        ),
                        mw_case(left, right),
                    );
                }
            }
            for (which, got) in [
                ("MannWhitneyU::superiority", Some(sup)),
                ("mann_whitney_superiority", sup_conv),
            ] {
                let ok = got.is_some_and(|g| close_abs(g, e.sup, TOL_EXACT, 1.0));
                if !ok {
                    acc.fail(
                        format!("mann_whitney.superiority/{}", e.tie.name()),
                        format!("{which} = {got:?}, pair counting gives {:e}", e.sup),
                        mw_case(left, right),
                    );
                }
            }
        }
        (e, a) => {
            acc.fail(
                "mann_whitney.presence".into(),
                format!(
                    "MannWhitneyU::new returned {} but the definition says {} (n1={}, n2={})",
                    if a.is_some() { "Some" } else { "None" },
                    if e.is_some() { "Some" } else { "None" },
                    left.len(),
                    right.len()
                ),
                mw_case(left, right),
            );
        }
    }
    result
}

/// Swap symmetry checked directly on the implementation's own outputs.
fn check_mw_swap(left: &[f64], right: &[f64], acc: &mut Acc) {
    let (Some(ab), Some(ba)) = (
        MannWhitneyU::new(left, right),
        MannWhitneyU::new(right, left),
    ) else {
        return;
    };
    acc.evaluations += 1;
    swap_verdict(
        left,
        right,
        (ab.two_sided_p_value(), ab.superiority()),
        (ba.two_sided_p_value(), ba.superiority()),
        acc,
    );
}

fn swap_verdict(left: &[f64], right: &[f64], ab: (f64, f64), ba: (f64, f64), acc: &mut Acc) {
    let (p1, p2) = (ab.0, ba.0);
    if !close_rel(p1, p2, TOL_NORMAL) {
        acc.fail(
            "mann_whitney.swap_symmetry/p_value".into(),
            format!("p(left,right) = {p1:e} but p(right,left) = {p2:e}"),
            mw_case(left, right),
        );
    }
    let (s1, s2) = (ab.1, ba.1);
    if !close_abs(s1 + s2, 1.0, TOL_EXACT, 1.0) {
        acc.fail(
            "mann_whitney.swap_symmetry/superiority".into(),
            format!("superiority(left,right) = {s1:e} and superiority(right,left) = {s2:e} do not sum to 1"),
            mw_case(left, right),
        );
    }
}

fn series_case(function: &str, x: &[f64]) -> Value {
    json!({"function": function, "values": vec_json(x)})
}

fn check_mk(x: &[f64], exp: &rf::MkRef, tie: TieClass, acc: &mut Acc) {
    acc.evaluations += 1;
    let a = mann_kendall(x);
    if exp.degenerate_short {
        acc.out(O::MK_SHORT);
    } else {
        if exp.var18 <= 0 {
            acc.out(O::MK_ZERO_VAR);
        }
        acc.out(if exp.s > 0 {
            O::MK_S_POS
        } else if exp.s < 0 {
            O::MK_S_NEG
        } else {
            O::MK_S_ZERO
        });
        if tie != TieClass::NoTies {
            acc.out(O::MK_TIED);
        }
        if exp.p == rf::P_FLOOR {
            acc.out(O::MK_P_FLOOR);
        }
    }
    // S is a sum of +-1 over pairs: an exactly representable integer, compared exactly.
    if a.s != exp.s as f64 {
        acc.fail(
            format!("mann_kendall.s/{}", tie.name()),
            format!("S = {:e}, pair counting gives {}", a.s, exp.s),
            series_case("mann_kendall", x),
        );
    }
    if !in_range(a.p_value) {
        acc.fail(
            "mann_kendall.p_value/range".into(),
            format!("p = {:e} outside [1e-15, 1]", a.p_value),
            series_case("mann_kendall", x),
        );
    } else if !close_rel(a.p_value, exp.p, TOL_NORMAL) {
        acc.fail(
            format!("mann_kendall.p_value/{}", tie.name()),
            format!(
                "p = {:e}, definition gives {:e} (S={}, 18*Var={} tie-corrected)",
                a.p_value, exp.p, exp.s, exp.var18
            ),
            series_case("mann_kendall", x),
        );
    }
}

fn check_pettitt(x: &[f64], exp: &Option<rf::PettittRef>, acc: &mut Acc) {
    acc.evaluations += 1;
    match (pettitt(x), exp) {
        (None, None) => acc.out(O::PT_NONE),
        (Some(a), Some(e)) => {
            let class = if e.argmax_count > 1 {
                "several_maximisers"
            } else {
                "unique_maximiser"
            };
            acc.out(if e.argmax_count > 1 {
                O::PT_TIED_ARGMAX
            } else {
                O::PT_UNIQUE_ARGMAX
            });
            if e.k == 0 {
                acc.out(O::PT_FLAT);
            }
            let unclamped = 2.0
                * (-6.0 * (e.k as f64).powi(2)
                    / ((x.len() as f64).powi(3) + (x.len() as f64).powi(2)))
                .exp();
            acc.out(if unclamped > 1.0 {
                O::PT_P_ONE
            } else if e.p == rf::P_FLOOR {
                O::PT_P_FLOOR
            } else {
                O::PT_P_INTERIOR
            });
            if a.index != e.index {
                acc.fail(
                    format!("pettitt.index/{class}"),
                    format!(
                        "index = {}, first maximiser of |U_t| is {} (K={})",
                        a.index, e.index, e.k
                    ),
                    series_case("pettitt", x),
                );
            }
            if !close_rel(a.k_statistic, e.k as f64, TOL_EXACT) {
                acc.fail(
                    "pettitt.k_statistic".into(),
                    format!("K = {:e}, sign-sum definition gives {}", a.k_statistic, e.k),
                    series_case("pettitt", x),
                );
            }
            if !in_range(a.p_value) {
                acc.fail(
                    "pettitt.p_value/range".into(),
                    format!("p = {:e} outside [1e-15, 1]", a.p_value),
                    series_case("pettitt", x),
                );
            } else if !close_rel(a.p_value, e.p, TOL_EXACT) {
                acc.fail(
                    "pettitt.p_value".into(),
                    format!(
                        "p = {:e}, 2exp(-6K^2/(n^3+n^2)) clamped gives {:e}",
                        a.p_value, e.p
                    ),
                    series_case("pettitt", x),
                );
            }
        }
        (a, e) => acc.fail(
            "pettitt.presence".into(),
            format!(
                "pettitt returned {:?} but the definition says {:?} (n={})",
                a.is_some(),
                e.is_some(),
                x.len()
            ),
            series_case("pettitt", x),
        ),
    }
}

fn scale_of(x: &[f64]) -> f64 {
    1.0 + x.iter().fold(0.0_f64, |m, v| m.max(v.abs()))
}

fn check_theil_sen(x: &[f64], ints: &[i64], tie: TieClass, acc: &mut Acc) {
    acc.evaluations += 1;
    let exp = rf::theil_sen(ints);
    match (theil_sen_line(x), exp) {
        (None, None) => acc.out(O::TS_NONE),
        (Some((slope, intercept)), Some((es, ei))) => {
            acc.out(O::TS_SOME);
            let pairs = x.len() * (x.len() - 1) / 2;
            if pairs % 2 == 0 {
                acc.out(O::TS_HALF_SLOPE);
            }
            let scale = scale_of(x);
            if !close_abs(slope, es.to_f64(), TOL_EXACT, scale) {
                acc.fail(
                    format!("theil_sen.slope/{}", tie.name()),
                    format!(
                        "slope = {slope:e}, median of pairwise slopes is {}/{}",
                        es.num, es.den
                    ),
                    series_case("theil_sen_line", x),
                );
            }
            // The intercept inherits the rounding of the f64 slope times the position: absolute
            // tolerance relative to the data magnitude.
            if !close_abs(intercept, ei.to_f64(), TOL_EXACT, scale * x.len() as f64) {
                acc.fail(
                    format!("theil_sen.intercept/{}", tie.name()),
                    format!(
                        "intercept = {intercept:e}, median of x_i - slope*i is {}/{}",
                        ei.num, ei.den
                    ),
                    series_case("theil_sen_line", x),
                );
            }
        }
        (a, e) => acc.fail(
            "theil_sen.presence".into(),
            format!(
                "theil_sen_line returned {:?} but the definition says {:?}",
                a.is_some(),
                e.is_some()
            ),
            series_case("theil_sen_line", x),
        ),
    }
}

fn check_median(x: &[f64], ints: &[i64], acc: &mut Acc) {
    acc.evaluations += 1;
    let mut rats: Vec<rf::Rat> = ints.iter().map(|&v| rf::Rat::int(i128::from(v))).collect();
    let exp = rf::median_rat(&mut rats);
    let mut scratch = x.to_vec();
    let in_place = median_in_place(&mut scratch);
    for (which, got) in [("median", median(x)), ("median_in_place", in_place)] {
        match (got, exp) {
            (None, None) => {}
            (Some(a), Some(e)) if close_abs(a, e.to_f64(), TOL_EXACT, scale_of(x)) => {}
            (a, e) => acc.fail(
                format!(
                    "median.value/{}",
                    if x.len() % 2 == 0 { "even" } else { "odd" }
                ),
                format!(
                    "{which} = {a:?}, definition gives {:?}",
                    e.map(|r| (r.num, r.den))
                ),
                series_case("median", x),
            ),
        }
    }
    acc.out(if x.is_empty() {
        O::MED_NONE
    } else if x.len() % 2 == 0 {
        O::MED_EVEN
    } else {
        O::MED_ODD
    });
    // Documented: the slice is left sorted.
    if scratch.windows(2).any(|w| w[0] > w[1]) {
        acc.fail(
            "median_in_place.leaves_sorted".into(),
            "median_in_place did not leave the slice sorted".into(),
            series_case("median", x),
        );
    }
}

fn selection_calibration() -> SelectionCalibration {
    SelectionCalibration {
        permutation_order_budget: NonZero::new(5040).unwrap(),
        analytic_weight: 0.5,
        accept_analytic_below: 0.01,
        reject_at_or_above: 1.0,
    }
}

/// Calibration under which `adjusted_p` is the pure permutation p-value: the analytic component
/// gets (almost) no weight, so `analytic / weight` saturates at 1 for every series of this family
/// (the analytic bound is at least the smallest attainable exact p-value, >= 2/C(7,3)), it can never
/// be "decisive", nothing is rejected early, and the budget admits the full orbit up to 8 points.
const PERM_ANALYTIC_WEIGHT: f64 = 1e-9;
fn permutation_only_calibration() -> SelectionCalibration {
    SelectionCalibration {
        permutation_order_budget: NonZero::new(50_000).unwrap(),
        analytic_weight: PERM_ANALYTIC_WEIGHT,
        accept_analytic_below: 1e-300,
        reject_at_or_above: 1.0,
    }
}

/// The score the definition gives one ordering: the exact Mann-Whitney p-value at the Pettitt
/// split, or "no evidence" when there is no split or it leaves fewer than `min_regime` values on
/// a side.
fn reference_selected_p(v: &[f64], min_regime: usize, cache: &mut TailCache) -> f64 {
    match rf::pettitt(v) {
        Some(pt) if pt.index.min(v.len() - pt.index) >= min_regime => {
            rf::mann_whitney(&v[..pt.index], &v[pt.index..], cache).map_or(1.0, |m| m.p)
        }
        _ => 1.0,
    }
}

thread_local! {
    /// (sorted tie pattern, min_regime) -> sorted scores of every distinct ordering of it
    static ORBITS: std::cell::RefCell<HashMap<(Vec<u64>, usize), Vec<f64>>> = std::cell::RefCell::new(HashMap::new());
}

fn next_permutation(v: &mut [u64]) -> bool {
    let n = v.len();
    if n < 2 {
        return false;
    }
    let mut i = n - 1;
    while i > 0 && v[i - 1] >= v[i] {
        i -= 1;
    }
    if i == 0 {
        return false;
    }
    let mut j = n - 1;
    while v[j] <= v[i - 1] {
        j -= 1;
    }
    v.swap(i - 1, j);
    v[i..].reverse();
    true
}

/// Exact check of `adjusted_p` as a permutation p-value: the fraction of ALL distinct orderings
/// of the observed values whose own selected split scores at least as extreme as the observed
/// one (each ordering scored by the definition: Pettitt split, exact doubled Mann-Whitney tail,
/// no evidence below `min_regime`).
fn check_selection_orbit(x: &[f64], min_regime: usize, cache: &mut TailCache, acc: &mut Acc) {
    let n = x.len();
    if n < 2 || 2 * min_regime == n {
        return; // a single admissible split is reported unadjusted
    }
    acc.evaluations += 1;
    let case = || json!({"function": "selection_orbit", "values": vec_json(x), "min_regime": min_regime});
    let Some(got) = selection_adjusted_change_point(x, min_regime, permutation_only_calibration()) else {
        return; // presence is judged by check_selection
    };
    let p_obs = reference_selected_p(x, min_regime, cache);
    let mut key: Vec<u64> = x.iter().map(|v| v.to_bits()).collect();
    // integer-valued, non-negative data of this family: bit order = numeric order
    key.sort_unstable();
    let scores: Vec<f64> = ORBITS.with(|o| {
        if let Some(s) = o.borrow().get(&(key.clone(), min_regime)) {
            return s.clone();
        }
        let mut perm = key.clone();
        let mut out = Vec::new();
        loop {
            let v: Vec<f64> = perm.iter().map(|b| f64::from_bits(*b)).collect();
            out.push(reference_selected_p(&v, min_regime, cache));
            if !next_permutation(&mut perm) {
                break;
            }
        }
        out.sort_unstable_by(f64::total_cmp);
        o.borrow_mut().insert((key.clone(), min_regime), out.clone());
        out
    });
    let order = scores.len() as f64;
    // Scores that are mathematically equal may differ in the last bit between the two
    // implementations: count with a relative slack on both sides.
    let e_lo = scores.partition_point(|&p| p < p_obs * (1.0 - 1e-9)) as f64;
    let e_hi = scores.partition_point(|&p| p <= p_obs * (1.0 + 1e-9)) as f64;
    let formula = |e: f64| (e / order / (1.0 - PERM_ANALYTIC_WEIGHT)).min(1.0).max(p_obs);
    let (lo, hi) = (formula(e_lo) * (1.0 - 1e-9), formula(e_hi) * (1.0 + 1e-9));
    if !(got.adjusted_p >= lo && got.adjusted_p <= hi) {
        acc.fail(
            "selection.adjusted_p/permutation-orbit".into(),
            format!(
                "adjusted_p = {:e} under the permutation-only calibration; {} to {} of the {} distinct orderings score at least as extreme as the observed one (p = {:e}), i.e. the permutation p-value is in [{:e}, {:e}]",
                got.adjusted_p, e_lo, e_hi, order, p_obs, lo, hi
            ),
            case(),
        );
    }
    acc.out(if e_hi < order { O::SEL_ORBIT_INFORMATIVE } else { O::SEL_ORBIT_ALL_EXTREME });
}

/// Light check of the selection-adjusted change point: it must report the Pettitt split, the
/// Mann-Whitney p-value and superiority at that split, and an adjusted p-value in the reportable
/// range that is no smaller than the tainted one (all documented on the struct / function).
fn check_selection(x: &[f64], min_regime: usize, cache: &mut TailCache, acc: &mut Acc) {
    acc.evaluations += 1;
    let case = || json!({"function": "selection_adjusted_change_point", "values": vec_json(x), "min_regime": min_regime});
    let got = selection_adjusted_change_point(x, min_regime, selection_calibration());
    let exp = rf::pettitt(x).and_then(|pt| {
        if pt.index.min(x.len() - pt.index) < min_regime {
            None
        } else {
            let mw = rf::mann_whitney(&x[..pt.index], &x[pt.index..], cache)?;
            Some((pt.index, mw))
        }
    });
    match (got, exp) {
        (None, None) => acc.out(O::SEL_NONE),
        (Some(a), Some((index, mw))) => {
            acc.out(O::SEL_SOME);
            if a.index != index {
                acc.fail(
                    "selection.index".into(),
                    format!("index = {}, Pettitt first maximiser is {index}", a.index),
                    case(),
                );
                return;
            }
            let tol = if mw.exact { TOL_EXACT } else { TOL_NORMAL };
            if !close_rel(a.tainted_p, mw.p, tol) {
                acc.fail(
                    "selection.tainted_p".into(),
                    format!("tainted_p = {:e}, Mann-Whitney at the selected split gives {:e}", a.tainted_p, mw.p),
                    case(),
                );
            }
            if !close_abs(a.superiority, mw.sup, TOL_EXACT, 1.0) {
                acc.fail(
                    "selection.superiority".into(),
                    format!("superiority = {:e}, pair counting gives {:e}", a.superiority, mw.sup),
                    case(),
                );
            }
            if !in_range(a.adjusted_p) {
                acc.fail(
                    "selection.adjusted_p/range".into(),
                    format!("adjusted_p = {:e} outside [1e-15, 1]", a.adjusted_p),
                    case(),
                );
            } else if a.adjusted_p < a.tainted_p {
                acc.fail(
                    "selection.adjusted_p/below_tainted".into(),
                    format!("adjusted_p = {:e} is smaller than tainted_p = {:e}", a.adjusted_p, a.tainted_p),
                    case(),
                );
            } else if a.adjusted_p > a.tainted_p {
                acc.out(O::SEL_ADJUSTED_ABOVE);
            }
        }
        (a, e) => acc.fail(
            "selection.presence".into(),
            format!(
                "selection_adjusted_change_point returned {:?}, definition (Pettitt split with min_regime={min_regime}) says {:?}",
                a.map(|r| r.index),
                e.map(|r| r.0)
            ),
            case(),
        ),
    }
}

// ---------------------------------------------------------------------------------------------
// Family A: every weak ordering of n points in every arrangement in time (Fubini(n) sequences)
// ---------------------------------------------------------------------------------------------

fn enum_seq(
    n: usize,
    levels: &mut Vec<u8>,
    used: u32,
    stop_at: usize,
    f: &mut dyn FnMut(&[u8], u32),
) {
    let pos = levels.len();
    if pos == stop_at {
        if pos == n {
            let k = used.count_ones();
            if used == (1_u32 << k) - 1 {
                f(levels, used);
            }
        } else {
            f(levels, used);
        }
        return;
    }
    let remaining = n - pos;
    for l in 0..n as u8 {
        let u2 = used | (1_u32 << l);
        let top = 32 - u2.leading_zeros();
        let holes = top - u2.count_ones();
        if holes as usize > remaining - 1 {
            continue;
        }
        levels.push(l);
        enum_seq(n, levels, u2, stop_at, f);
        levels.pop();
    }
}

#[derive(Clone, Copy)]
struct SeqCfg {
    two_sample: bool,
    swap: bool,
    rank_maps: usize,
    int_maps: usize,
    selection: bool,
}

fn run_sequence(levels: &[u8], cfg: SeqCfg, cache: &mut TailCache, acc: &mut Acc) {
    let n = levels.len();
    let k = levels.iter().map(|&l| l as usize + 1).max().unwrap_or(0);
    let mut vals: [Vec<f64>; 4] = Default::default();
    for (m, v) in vals.iter_mut().enumerate() {
        *v = levels
            .iter()
            .map(|&l| map_value(m, l as usize, k))
            .collect();
    }
    let base = &vals[0];
    let tie = TieClass::of(base);

    // distinct case: the weak ordering itself (time-ordered functions)
    let mut hbuf = [0_u8; 20];
    hbuf[0] = b'T';
    hbuf[1] = n as u8;
    hbuf[2..2 + n].copy_from_slice(levels);
    if n >= 2 {
        acc.distinct.insert(fnv1a(&hbuf[..2 + n]));
    }

    let mk_ref = rf::mann_kendall(base);
    let pt_ref = rf::pettitt(base);
    for v in vals.iter().take(cfg.rank_maps) {
        check_mk(v, &mk_ref, tie, acc);
        check_pettitt(v, &pt_ref, acc);
    }
    for v in vals.iter().take(cfg.int_maps) {
        let ints: Vec<i64> = v.iter().map(|&f| f as i64).collect();
        check_theil_sen(v, &ints, tie, acc);
        check_median(v, &ints, acc);
    }
    if cfg.selection {
        for min_regime in 1..=2 {
            for v in vals.iter().take(cfg.rank_maps.min(2)) {
                check_selection(v, min_regime, cache, acc);
            }
            check_selection_orbit(&vals[0], min_regime, cache, acc);
        }
    }
    if cfg.two_sample {
        hbuf[0] = b'S';
        for split in 0..=n {
            let exp = rf::mann_whitney(&base[..split], &base[split..], cache);
            if exp.is_some() {
                hbuf[2 + n] = split as u8;
                acc.distinct.insert(fnv1a(&hbuf[..3 + n]));
            }
            for v in vals.iter().take(cfg.rank_maps) {
                check_mw(&v[..split], &v[split..], &exp, acc);
            }
            if cfg.swap && exp.is_some() {
                check_mw_swap(&base[..split], &base[split..], acc);
            }
        }
    }
}

// ---------------------------------------------------------------------------------------------
// Family B: canonical two-sample cases (left multiset, right multiset) for larger n
// ---------------------------------------------------------------------------------------------

fn run_canonical(comp: &[u8], cache: &mut TailCache, acc: &mut Acc) {
    let k = comp.len();
    let n: usize = comp.iter().map(|&c| c as usize).sum();
    let mut a = vec![0_u8; k];
    let mut hbuf = Vec::with_capacity(2 * k + 2);
    loop {
        let n1: usize = a.iter().map(|&c| c as usize).sum();
        let mut left_levels = Vec::with_capacity(n1);
        let mut right_levels = Vec::with_capacity(n - n1);
        for l in 0..k {
            for _ in 0..a[l] {
                left_levels.push(l);
            }
            for _ in a[l]..comp[l] {
                right_levels.push(l);
            }
        }
        let build = |m: usize, lv: &[usize]| -> Vec<f64> {
            lv.iter().map(|&l| map_value(m, l, k)).collect()
        };
        let (bl, br) = (build(0, &left_levels), build(0, &right_levels));
        let exp = rf::mann_whitney(&bl, &br, cache);
        let exp_swapped = rf::mann_whitney(&br, &bl, cache);
        if exp.is_some() {
            hbuf.clear();
            hbuf.push(b'C');
            hbuf.extend_from_slice(comp);
            hbuf.push(255);
            hbuf.extend_from_slice(&a);
            acc.distinct.insert(fnv1a(&hbuf));
        }
        for m in 0..4 {
            let (l, r) = if m == 0 {
                (bl.clone(), br.clone())
            } else {
                (build(m, &left_levels), build(m, &right_levels))
            };
            check_mw(&l, &r, &exp, acc);
            if m == 0 {
                check_mw(&r, &l, &exp_swapped, acc);
                check_mw_swap(&l, &r, acc);
            }
        }
        // next left-count vector (mixed radix)
        let mut i = 0;
        loop {
            if i == k {
                return;
            }
            if a[i] < comp[i] {
                a[i] += 1;
                break;
            }
            a[i] = 0;
            i += 1;
        }
    }
}

fn compositions(n: usize) -> Vec<Vec<u8>> {
    let mut out = Vec::new();
    for bits in 0..(1_u32 << (n - 1)) {
        let mut comp = Vec::new();
        let mut run = 1_u8;
        for i in 0..n - 1 {
            if bits >> i & 1 == 1 {
                comp.push(run);
                run = 1;
            } else {
                run += 1;
            }
        }
        comp.push(run);
        out.push(comp);
    }
    out
}

// ---------------------------------------------------------------------------------------------
// Family C: the exact/approximate switch-over sizes (constant, two-valued and all-distinct data)
// ---------------------------------------------------------------------------------------------

#[derive(Clone, Copy, Debug, PartialEq)]
enum BFam {
    Constant,
    /// left holds `a` ones (rest zeros); right holds b ones for every b.
    TwoValued,
    /// all values distinct; right sample shifted through the left one.
    DistinctShift,
}

/// Exact hypergeometric cross-check of the reference on two-valued data: the left rank sum is an
/// increasing function of the number of ones on the left, h ~ Hypergeometric(N, K, n1).
fn hypergeometric_p(n1: usize, n2: usize, a: usize, b: usize) -> f64 {
    let (n, ones) = (n1 + n2, a + b);
    let total = rf::binom_sat(n, n1);
    let mut lo = 0_u128;
    let mut hi = 0_u128;
    for h in 0..=n1.min(ones) {
        if n1 - h > n - ones {
            continue;
        }
        let ways = rf::binom_sat(ones, h) * rf::binom_sat(n - ones, n1 - h);
        if h <= a {
            lo += ways;
        }
        if h >= a {
            hi += ways;
        }
    }
    let tail = lo.min(hi);
    rf::clamp_report(if 2 * tail >= total {
        1.0
    } else {
        (2 * tail) as f64 / total as f64
    })
}

fn run_boundary(
    n1: usize,
    n2: usize,
    fam: BFam,
    a: usize,
    cache: &mut TailCache,
    acc: &mut Acc,
) -> Result<(), String> {
    let mut run = |left: Vec<f64>,
                   right: Vec<f64>,
                   tag: (u8, usize, usize),
                   acc: &mut Acc|
     -> Option<MwRef> {
        let exp = rf::mann_whitney(&left, &right, cache);
        let exp_swapped = rf::mann_whitney(&right, &left, cache);
        acc.distinct
            .insert(fnv1a(format!("B{n1},{n2},{tag:?}").as_bytes()));
        // Each exact-path call costs milliseconds here, so every case gets: the struct API both
        // ways round (swap symmetry), the p-value convenience function, and one strictly
        // increasing transform (2x+1 on even case numbers, x^3 on odd ones).
        let ab = check_mw_opt(&left, &right, &exp, false, acc);
        let ba = check_mw_opt(&right, &left, &exp_swapped, false, acc);
        if let (Some(ab), Some(ba)) = (ab, ba) {
            swap_verdict(&left, &right, ab, ba, acc);
        }
        acc.evaluations += 1;
        let conv = mann_whitney_u_pvalue(&left, &right);
        if let Some(e) = &exp
            && !close_rel(conv, e.p, if e.exact { TOL_EXACT } else { TOL_NORMAL })
        {
            acc.fail(
                format!(
                    "mann_whitney.p_value/{}/{}",
                    if e.exact { "exact" } else { "normal" },
                    e.tie.name()
                ),
                format!(
                    "mann_whitney_u_pvalue = {conv:e}, definition gives {:e} (n1={n1}, n2={n2})",
                    e.p
                ),
                mw_case(&left, &right),
            );
        }
        let f: fn(f64) -> f64 = if (tag.1 + tag.2) % 2 == 0 {
            |x| 2.0 * x + 1.0
        } else {
            |x| x * x * x
        };
        let l2: Vec<f64> = left.iter().map(|&x| f(x - 2.0)).collect();
        let r2: Vec<f64> = right.iter().map(|&x| f(x - 2.0)).collect();
        check_mw_opt(&l2, &r2, &exp, false, acc);
        exp
    };
    match fam {
        BFam::Constant => {
            run(vec![7.0; n1], vec![7.0; n2], (0, 0, 0), acc);
        }
        BFam::TwoValued => {
            for b in 0..=n2 {
                let left: Vec<f64> = (0..n1).map(|i| if i < a { 1.0 } else { 0.0 }).collect();
                let right: Vec<f64> = (0..n2).map(|i| if i < b { 1.0 } else { 0.0 }).collect();
                let exp = run(left, right, (1, a, b), acc);
                if let Some(e) = exp
                    && e.exact
                {
                    let h = hypergeometric_p(n1, n2, a, b);
                    if !close_rel(h, e.p, 1e-13) {
                        return Err(format!(
                            "reference self-check: subset-sum p {:e} != hypergeometric p {h:e} at n1={n1} n2={n2} a={a} b={b}",
                            e.p
                        ));
                    }
                }
            }
        }
        BFam::DistinctShift => {
            // left = 0, 2, 4, ...; right = odd numbers starting at 2*shift+1 - 2*n2 .. (shift in 0..=n1+n2)
            let shift = a as i64;
            let left: Vec<f64> = (0..n1).map(|i| (2 * i) as f64).collect();
            let right: Vec<f64> = (0..n2)
                .map(|j| (2 * (j as i64 + shift - n2 as i64) + 1) as f64)
                .collect();
            run(left, right, (2, a, 0), acc);
        }
    }
    Ok(())
}

/// Largest n2 >= k for which the exact path is documented to be used with min side k.
fn max_exact_n2(k: usize) -> Option<usize> {
    if !rf::mw_exact_expected(k, k) {
        return None;
    }
    let mut n2 = k;
    while rf::mw_exact_expected(k, n2 + 1) {
        n2 += 1;
    }
    Some(n2)
}

// ---------------------------------------------------------------------------------------------
// Family D: Benjamini-Hochberg over the 9-value domain
// ---------------------------------------------------------------------------------------------

const BH_DOMAIN: [f64; 9] = [0.0, 1e-16, 1e-15, 0.01, 0.049, 0.05, 0.051, 1.0, f64::NAN];
const BH_QS: [f64; 2] = [0.05, 0.1];

fn bh_case(p: &[f64], q: f64, m: usize) -> Value {
    json!({"function": "benjamini_hochberg", "p_values": vec_json(p), "q": q, "family_size": m})
}

fn check_bh(p: &[f64], q: f64, m: usize, acc: &mut Acc) -> Option<Vec<bool>> {
    acc.evaluations += 1;
    let got = benjamini_hochberg(p, q, m);
    let has_nan = p.iter().any(|v| v.is_nan());
    if has_nan {
        acc.out(O::BH_NAN);
    }
    match rf::benjamini_hochberg(p, q, m) {
        rf::BhRef::RoundingAmbiguous => {
            acc.out(O::BH_AMBIGUOUS);
            None
        }
        rf::BhRef::Mask {
            mask,
            max_rank,
            rescued,
        } => {
            if rescued {
                acc.out(O::BH_RESCUED);
            }
            let rejected = mask.iter().filter(|&&b| b).count();
            acc.out(if rejected == 0 {
                O::BH_NONE
            } else if rejected == p.len() {
                O::BH_ALL
            } else {
                O::BH_SOME
            });
            if got != mask {
                acc.fail(
                    format!(
                        "benjamini_hochberg.mask/{}/{}",
                        if m == p.len() { "family_eq_len" } else { "family_gt_len" },
                        if has_nan { "nan" } else { "nonan" }
                    ),
                    format!("keep-mask = {got:?}, step-up definition gives {mask:?} (k*={max_rank}, q={q}, m={m})"),
                    bh_case(p, q, m),
                );
            }
            Some(mask)
        }
    }
}

fn run_bh(len: usize, acc: &mut Acc) {
    let total = 9_usize.pow(len as u32);
    let mut p = vec![0.0_f64; len];
    for code in 0..total {
        let mut c = code;
        for slot in p.iter_mut() {
            *slot = BH_DOMAIN[c % 9];
            c /= 9;
        }
        for (qi, &q) in BH_QS.iter().enumerate() {
            let m_small = check_bh(&p, q, len, acc);
            let m_large = check_bh(&p, q, len + 3, acc);
            if len > 0 {
                acc.distinct
                    .insert(fnv1a(format!("H{len},{code},{qi},0").as_bytes()));
                acc.distinct
                    .insert(fnv1a(format!("H{len},{code},{qi},1").as_bytes()));
            }
            if let (Some(a), Some(b)) = (m_small, m_large)
                && a != b
            {
                acc.out(O::BH_FAMILY_MATTERS);
            }
        }
        // Documented panic for family_size < len: observed, not judged (outside the statement).
        if (1..=3).contains(&len) {
            let pv = p.clone();
            let r = std::panic::catch_unwind(move || benjamini_hochberg(&pv, 0.05, len - 1));
            acc.out(if r.is_err() {
                O::BH_SMALL_FAMILY_PANICS
            } else {
                O::BH_SMALL_FAMILY_RETURNS
            });
        }
    }
}

// ---------------------------------------------------------------------------------------------
// Family E: Student t reportable range / no-evidence mapping / closed forms
// ---------------------------------------------------------------------------------------------

fn run_student_t(acc: &mut Acc) {
    let mags = [
        0.0,
        5e-324,
        1e-300,
        1e-10,
        1e-3,
        0.1,
        0.5,
        1.0,
        2.0,
        3.0,
        5.0,
        10.0,
        37.0,
        100.0,
        1e3,
        1e5,
        1e7,
        1e10,
        1e15,
        1e20,
        1e100,
        1e154,
        1e155,
        1e300,
        f64::MAX,
    ];
    let dfs = [
        f64::NAN,
        f64::NEG_INFINITY,
        -1.0,
        -0.0,
        0.0,
        0.5,
        0.999_999_999_999_999_9,
        1.0,
        1.000_000_000_000_000_2,
        1.5,
        2.0,
        2.5,
        3.0,
        4.0,
        5.0,
        10.0,
        30.0,
        100.0,
        1000.0,
        1e6,
        1e9,
        1e15,
        1e300,
        f64::MAX,
        f64::INFINITY,
    ];
    let case = |t: f64, df: f64| json!({"function": "student_t_two_sided_p", "t": vec_json(&[t]), "df": vec_json(&[df])});
    for &df in &dfs {
        let degenerate_df = !df.is_finite() || df < 1.0;
        let mut prev: Option<(f64, f64)> = None;
        let mut ts: Vec<f64> = mags.to_vec();
        ts.extend([f64::INFINITY, f64::NAN]);
        for &mag in &ts {
            for t in [mag, -mag] {
                acc.evaluations += 1;
                acc.distinct.insert(fnv1a(
                    format!("t{:x},{:x}", t.to_bits(), df.to_bits()).as_bytes(),
                ));
                let p = student_t_two_sided_p(t, df);
                if !degenerate_df && t.is_finite() && p <= rf::P_FLOOR {
                    acc.out(O::ST_FLOOR);
                }
                if !in_range(p) {
                    acc.fail(
                        "student_t.p/range".into(),
                        format!("p({t:e}, df={df:e}) = {p:e} outside [1e-15, 1]"),
                        case(t, df),
                    );
                    continue;
                }
                if degenerate_df || !t.is_finite() {
                    acc.out(O::ST_DEGENERATE);
                    if p != 1.0 {
                        acc.fail(
                            "student_t.p/degenerate_not_no_evidence".into(),
                            format!(
                                "p({t:e}, df={df:e}) = {p:e}, documented 1.0 for a degenerate test"
                            ),
                            case(t, df),
                        );
                    }
                    continue;
                }
                if p > rf::P_FLOOR {
                    acc.out(O::ST_INTERIOR);
                }
                if t == 0.0 && p != 1.0 {
                    acc.fail(
                        "student_t.p/t=0".into(),
                        format!("p(0, df={df:e}) = {p:e}, documented 1.0"),
                        case(t, df),
                    );
                }
                if (df == 1.0 || df == 2.0)
                    && let Some(e) = rf::student_t_closed_form(t, df as u32)
                {
                    acc.out(O::ST_CLOSED_FORM);
                    if !close_rel(p, e, TOL_STUDENT) {
                        acc.fail(
                            format!("student_t.p/closed_form_df={df}"),
                            format!("p({t:e}, df={df}) = {p:e}, closed form gives {e:e}"),
                            case(t, df),
                        );
                    }
                }
            }
            // documented: symmetric in the sign of t, falls as |t| grows (judged inside the
            // documented accuracy domain, df <= 1000)
            if !degenerate_df && df <= 1000.0 && mag.is_finite() {
                let (pp, pn) = (
                    student_t_two_sided_p(mag, df),
                    student_t_two_sided_p(-mag, df),
                );
                if !close_rel(pp, pn, TOL_EXACT) {
                    acc.fail(
                        "student_t.p/sign_symmetry".into(),
                        format!("p({mag:e}) = {pp:e} but p(-{mag:e}) = {pn:e} at df={df:e}"),
                        case(mag, df),
                    );
                }
                if let Some((pm, pv)) = prev
                    && pp > pv * (1.0 + TOL_STUDENT)
                {
                    acc.fail(
                        "student_t.p/monotone".into(),
                        format!(
                            "p rises from {pv:e} at |t|={pm:e} to {pp:e} at |t|={mag:e} (df={df:e})"
                        ),
                        case(mag, df),
                    );
                }
                prev = Some((mag, pp));
            }
        }
    }
}

// ---------------------------------------------------------------------------------------------
// Family F: long monotone / step / constant series that drive p to the reporting floor
// ---------------------------------------------------------------------------------------------

fn run_long_series(n: usize, acc: &mut Acc) {
    let shapes: [(&str, Vec<f64>); 5] = [
        ("increasing", (0..n).map(|i| i as f64).collect()),
        ("decreasing", (0..n).map(|i| -(i as f64)).collect()),
        (
            "step",
            (0..n).map(|i| if i < n / 2 { 0.0 } else { 1.0 }).collect(),
        ),
        ("constant", vec![3.0; n]),
        (
            "sawtooth",
            (0..n).map(|i| (i % 3) as f64 + (i / 3) as f64).collect(),
        ),
    ];
    for (name, x) in shapes {
        acc.distinct.insert(fnv1a(format!("L{n}{name}").as_bytes()));
        let tie = TieClass::of(&x);
        check_mk(&x, &rf::mann_kendall(&x), tie, acc);
        check_pettitt(&x, &rf::pettitt(&x), acc);
        let ints: Vec<i64> = x.iter().map(|&v| v as i64).collect();
        check_theil_sen(&x, &ints, tie, acc);
        check_median(&x, &ints, acc);
    }
}

// ---------------------------------------------------------------------------------------------
// Jobs
// ---------------------------------------------------------------------------------------------

// ---------------------------------------------------------------------------------------------
// Family G: infinite-free extreme-magnitude data for the estimators (median, Theil-Sen). The
// exact-rational reference of the other families needs integer-valued data; here the reference
// is the same brute-force definition evaluated on the data scaled down by 2^-8 (exact for the
// giants, so nothing in the reference overflows) and scaled back.
// ---------------------------------------------------------------------------------------------

const GIANTS: [f64; 11] = [
    f64::MIN,
    -1.2e308,
    -1e308,
    -9e307,
    -5e-324,
    0.0,
    5e-324,
    9e307,
    1e308,
    1.2e308,
    f64::MAX,
];
const GIANT_SCALE: f64 = 1.0 / 256.0;

/// Median by definition on data that cannot overflow: sort, middle element or the exact half-sum.
fn median_by_definition(v: &mut [f64]) -> Option<(f64, f64, f64)> {
    if v.is_empty() {
        return None;
    }
    v.sort_unstable_by(f64::total_cmp);
    let n = v.len();
    if n % 2 == 1 {
        Some((v[n / 2], v[n / 2], v[n / 2]))
    } else {
        let (lo, hi) = (v[n / 2 - 1], v[n / 2]);
        Some((lo / 2.0 + hi / 2.0, lo, hi))
    }
}

/// Finite, and equal up to `1e-12 * magnitude * factor` (compared on the scaled-down values so
/// that neither the difference nor the tolerance can overflow).
fn close_giant(actual: f64, expected: f64, magnitude: f64, factor: f64) -> bool {
    actual.is_finite()
        && (actual == expected
            || (actual * GIANT_SCALE - expected * GIANT_SCALE).abs() <= 1e-12 * (magnitude * GIANT_SCALE) * factor + 1e-322)
}

fn check_median_f64(x: &[f64], acc: &mut Acc) {
    acc.evaluations += 1;
    let mut sorted = x.to_vec();
    let Some((exp, lo, hi)) = median_by_definition(&mut sorted) else {
        return;
    };
    let mut scratch = x.to_vec();
    let in_place = median_in_place(&mut scratch);
    for (which, got) in [("median", median(x)), ("median_in_place", in_place)] {
        let ok = match got {
            // between the two middle order statistics, and the half-sum up to rounding
            Some(a) => a >= lo && a <= hi && close_giant(a, exp, lo.abs().max(hi.abs()), 1.0),
            None => false,
        };
        if !ok {
            acc.fail(
                format!("median.value/extreme-magnitude/{}", if x.len() % 2 == 0 { "even" } else { "odd" }),
                format!("{which} = {got:?}, the middle order statistics are {lo:e} and {hi:e} (definition: {exp:e})"),
                series_case("median_f64", x),
            );
        }
    }
    acc.out(if x.len() % 2 == 0 { O::MED_EVEN_GIANT } else { O::MED_ODD_GIANT });
}

/// Theil-Sen by definition on the scaled data; `None` when a quantity the definition names (a
/// pairwise slope, a per-point intercept `x_i - slope*i`, or a result) is not representable in f64
/// (then nothing is demanded of the implementation).
fn theil_sen_scaled_reference(x: &[f64]) -> Option<(f64, f64)> {
    let xs: Vec<f64> = x.iter().map(|v| v * GIANT_SCALE).collect();
    let n = xs.len();
    let limit = f64::MAX * GIANT_SCALE;
    let mut slopes = Vec::new();
    for i in 0..n {
        for j in i + 1..n {
            slopes.push((xs[j] - xs[i]) / (j - i) as f64);
        }
    }
    if slopes.iter().any(|s| s.abs() > limit) {
        return None;
    }
    let (slope, _, _) = median_by_definition(&mut slopes)?;
    let mut intercepts: Vec<f64> = xs.iter().enumerate().map(|(i, v)| v - slope * i as f64).collect();
    if intercepts.iter().any(|s| s.abs() > limit) {
        return None;
    }
    let (intercept, _, _) = median_by_definition(&mut intercepts)?;
    Some((slope / GIANT_SCALE, intercept / GIANT_SCALE))
}

fn check_theil_sen_f64(x: &[f64], acc: &mut Acc) {
    if x.len() < 2 {
        return;
    }
    // The tiny values vanish under the scaling; keep the reference exact by using them only in
    // series whose other members are zero or giants (they are then far below the tolerance).
    acc.evaluations += 1;
    let Some((es, ei)) = theil_sen_scaled_reference(x) else {
        acc.out(O::TS_GIANT_UNREPRESENTABLE);
        return;
    };
    acc.out(O::TS_GIANT);
    let magnitude = x.iter().fold(0.0_f64, |m, v| m.max(v.abs()));
    match theil_sen_line(x) {
        Some((slope, intercept)) => {
            if !close_giant(slope, es, magnitude, 2.0) {
                acc.fail(
                    "theil_sen.slope/extreme-magnitude".into(),
                    format!("slope = {slope:e}, the median of the pairwise slopes is {es:e}"),
                    series_case("theil_sen_f64", x),
                );
            }
            if !close_giant(intercept, ei, magnitude, 2.0 * x.len() as f64) {
                acc.fail(
                    "theil_sen.intercept/extreme-magnitude".into(),
                    format!("intercept = {intercept:e}, the median of x_i - slope*i is {ei:e}"),
                    series_case("theil_sen_f64", x),
                );
            }
        }
        None => acc.fail(
            "theil_sen.presence".into(),
            "theil_sen_line returned None for two or more points".into(),
            series_case("theil_sen_f64", x),
        ),
    }
}

fn run_giants(first: usize, max_len: usize, acc: &mut Acc) {
    let mut idx = vec![first];
    loop {
        let x: Vec<f64> = idx.iter().map(|&i| GIANTS[i]).collect();
        let mut h = vec![b'G'];
        h.extend(idx.iter().map(|&i| i as u8));
        acc.distinct.insert(fnv1a(&h));
        check_median_f64(&x, acc);
        check_theil_sen_f64(&x, acc);
        // next sequence in length-lexicographic order with the first element fixed
        if idx.len() < max_len {
            idx.push(0);
            continue;
        }
        loop {
            if idx.len() == 1 {
                return;
            }
            let last = idx.len() - 1;
            if idx[last] + 1 < GIANTS.len() {
                idx[last] += 1;
                break;
            }
            idx.pop();
        }
    }
}

#[derive(Clone, Debug)]
enum Job {
    Seq {
        n: usize,
        prefix: Vec<u8>,
    },
    Canon {
        comp: Vec<u8>,
    },
    Boundary {
        n1: usize,
        n2: usize,
        fam: BFam,
        a: usize,
    },
    Bh {
        len: usize,
    },
    StudentT,
    Long {
        n: usize,
    },
    /// family G: every sequence of length 1..=max_len over the GIANTS table starting with `first`
    Giants {
        first: usize,
        max_len: usize,
    },
}

struct Plan {
    seq_two_sample_max: usize,
    seq_full_maps_max: usize,
    seq_time_max: usize,
    canon_max: usize,
    boundary_ks: Vec<usize>,
    selection_max: usize,
    giants_max_len: usize,
}

fn plan() -> Plan {
    if vcommon::is_thorough() {
        Plan {
            seq_two_sample_max: 9,
            seq_full_maps_max: 9,
            seq_time_max: 10,
            canon_max: 14,
            boundary_ks: (10..=29).collect(),
            selection_max: 7,
            giants_max_len: 7,
        }
    } else {
        Plan {
            seq_two_sample_max: 8,
            seq_full_maps_max: 8,
            seq_time_max: 8,
            canon_max: 11,
            boundary_ks: vec![20, 27, 28, 29],
            selection_max: 6,
            giants_max_len: 5,
        }
    }
}

fn seq_cfg(plan: &Plan, n: usize) -> SeqCfg {
    let full = n <= plan.seq_full_maps_max;
    SeqCfg {
        two_sample: n <= plan.seq_two_sample_max,
        swap: n <= plan.seq_two_sample_max,
        rank_maps: if full { 4 } else { 2 },
        int_maps: if full { INT_MAPS } else { 2 },
        selection: n <= plan.selection_max,
    }
}

fn boundary_pairs(plan: &Plan) -> Vec<(usize, usize)> {
    let mut pairs = Vec::new();
    for &k in &plan.boundary_ks {
        match max_exact_n2(k) {
            Some(n2) => {
                pairs.push((k, n2));
                pairs.push((k, n2 + 1));
                if n2 != k {
                    pairs.push((n2, k));
                }
                pairs.push((n2 + 1, k));
            }
            None => pairs.push((k, k)),
        }
    }
    // far inside the approximation regime: reaches the reporting floor
    pairs.extend([(50, 50), (100, 100), (40, 90)]);
    pairs.sort_unstable();
    pairs.dedup();
    pairs
}

fn build_jobs(plan: &Plan) -> Vec<Job> {
    let mut jobs = Vec::new();
    // Expensive first for load balance.
    for (n1, n2) in boundary_pairs(plan) {
        jobs.push(Job::Boundary {
            n1,
            n2,
            fam: BFam::Constant,
            a: 0,
        });
        for a in 0..=n1 {
            jobs.push(Job::Boundary {
                n1,
                n2,
                fam: BFam::TwoValued,
                a,
            });
        }
        for a in 0..=(n1 + n2) {
            jobs.push(Job::Boundary {
                n1,
                n2,
                fam: BFam::DistinctShift,
                a,
            });
        }
    }
    for n in (0..=plan.seq_time_max).rev() {
        let depth = if n <= 2 {
            0
        } else if n <= 8 {
            2
        } else {
            3
        };
        let mut levels = Vec::new();
        enum_seq(n, &mut levels, 0, depth, &mut |prefix, _| {
            jobs.push(Job::Seq {
                n,
                prefix: prefix.to_vec(),
            });
        });
    }
    for n in (plan.seq_two_sample_max + 1..=plan.canon_max).rev() {
        for comp in compositions(n) {
            jobs.push(Job::Canon { comp });
        }
    }
    for len in (0..=5).rev() {
        jobs.push(Job::Bh { len });
    }
    jobs.push(Job::StudentT);
    for n in [400, 200, 100, 96, 64, 50, 30, 20, 12] {
        jobs.push(Job::Long { n });
    }
    for first in 0..GIANTS.len() {
        jobs.push(Job::Giants { first, max_len: plan.giants_max_len });
    }
    jobs
}

struct JobOut {
    secs: f64,
    /// Number of distinct case hashes seen by the job (the set itself is dropped with the job).
    distinct: u64,
    acc: Acc,
    sequences: u64,
    engine_error: Option<String>,
}

fn run_job(job: &Job, plan: &Plan, cache: &mut TailCache) -> JobOut {
    let started = thread_cpu_seconds();
    let mut acc = Acc::new();
    let mut sequences = 0_u64;
    let mut engine_error = None;
    match job {
        Job::Seq { n, prefix } => {
            let cfg = seq_cfg(plan, *n);
            let mut levels = prefix.clone();
            let used = prefix.iter().fold(0_u32, |u, &l| u | (1 << l));
            let before = acc.evaluations;
            enum_seq(*n, &mut levels, used, *n, &mut |seq, _| {
                sequences += 1;
                run_sequence(seq, cfg, cache, &mut acc);
            });
            let evals = acc.evaluations - before;
            acc.family("A:sequences(all arrangements in time)", evals);
        }
        Job::Canon { comp } => {
            run_canonical(comp, cache, &mut acc);
            let evals = acc.evaluations;
            acc.family(
                "B:canonical two-sample (left multiset, right multiset)",
                evals,
            );
        }
        Job::Boundary { n1, n2, fam, a } => {
            if let Err(e) = run_boundary(*n1, *n2, *fam, *a, cache, &mut acc) {
                engine_error = Some(e);
            }
            let evals = acc.evaluations;
            acc.family("C:exact/normal switch-over sizes", evals);
        }
        Job::Bh { len } => {
            run_bh(*len, &mut acc);
            let evals = acc.evaluations;
            acc.family("D:benjamini_hochberg", evals);
        }
        Job::StudentT => {
            run_student_t(&mut acc);
            let evals = acc.evaluations;
            acc.family("E:student_t grid", evals);
        }
        Job::Long { n } => {
            run_long_series(*n, &mut acc);
            let evals = acc.evaluations;
            acc.family("F:long series (reporting floor)", evals);
        }
        Job::Giants { first, max_len } => {
            run_giants(*first, *max_len, &mut acc);
            let evals = acc.evaluations;
            acc.family("G:extreme-magnitude series (median, Theil-Sen)", evals);
        }
    }
    let distinct = acc.distinct.len() as u64;
    acc.distinct = HashSet::new();
    JobOut {
        secs: thread_cpu_seconds() - started,
        distinct,
        acc,
        sequences,
        engine_error,
    }
}

fn fubini(n: usize) -> u64 {
    let mut a = vec![1_u64; n + 1];
    for m in 1..=n {
        a[m] = (1..=m).map(|k| rf::binom_sat(m, k) as u64 * a[m - k]).sum();
    }
    a[n]
}

// ---------------------------------------------------------------------------------------------
// Replay / samples: describe one case (function + exact inputs) with expected and actual values
// ---------------------------------------------------------------------------------------------

fn describe(case: &Value) -> Result<(Value, Vec<String>), String> {
    let function = case
        .get("function")
        .and_then(Value::as_str)
        .ok_or("replay has no `function`")?;
    let mut acc = Acc::new();
    acc.keep_per_key = 100;
    let mut cache = TailCache::default();
    let vecf = |k: &str| {
        case.get(k)
            .and_then(parse_vec)
            .ok_or(format!("replay has no vector `{k}`"))
    };
    let mut out = case.clone();
    let (expected, actual) = match function {
        "mann_whitney" => {
            let (l, r) = (vecf("left")?, vecf("right")?);
            let exp = rf::mann_whitney(&l, &r, &mut cache);
            check_mw(&l, &r, &exp, &mut acc);
            check_mw_swap(&l, &r, &mut acc);
            let a = MannWhitneyU::new(&l, &r);
            (
                exp.map_or(json!(null), |e| {
                    json!({"path": if e.exact {"exact"} else {"normal"}, "p": fj(e.p), "superiority": fj(e.sup),
                           "tails_le_ge_total": e.tails.map(|t| [t.0.to_string(), t.1.to_string(), t.2.to_string()])})
                }),
                json!({"MannWhitneyU": a.map(|a| json!({"p": fj(a.two_sided_p_value()), "superiority": fj(a.superiority())})),
                       "mann_whitney_u_pvalue": fj(mann_whitney_u_pvalue(&l, &r)),
                       "mann_whitney_superiority": mann_whitney_superiority(&l, &r).map(fj)}),
            )
        }
        "mann_kendall" => {
            let x = vecf("values")?;
            let e = rf::mann_kendall(&x);
            check_mk(&x, &e, TieClass::of(&x), &mut acc);
            let a = mann_kendall(&x);
            (
                json!({"s": e.s, "var_times_18": e.var18, "p": fj(e.p)}),
                json!({"s": fj(a.s), "p": fj(a.p_value)}),
            )
        }
        "pettitt" => {
            let x = vecf("values")?;
            let e = rf::pettitt(&x);
            check_pettitt(&x, &e, &mut acc);
            let a = pettitt(&x);
            (
                e.map_or(json!(null), |e| json!({"index": e.index, "k": e.k, "p": fj(e.p), "maximisers": e.argmax_count})),
                a.map_or(json!(null), |a| json!({"index": a.index, "k": fj(a.k_statistic), "p": fj(a.p_value)})),
            )
        }
        "selection_orbit" => {
            let x = vecf("values")?;
            let mr = case.get("min_regime").and_then(Value::as_u64).ok_or("no min_regime")? as usize;
            check_selection_orbit(&x, mr, &mut cache, &mut acc);
            (
                json!({"observed_p_by_definition": fj(reference_selected_p(&x, mr, &mut cache))}),
                json!(selection_adjusted_change_point(&x, mr, permutation_only_calibration()).map(|r| json!({"index": r.index, "tainted_p": fj(r.tainted_p), "adjusted_p": fj(r.adjusted_p)}))),
            )
        }
        "median_f64" => {
            let x = vecf("values")?;
            check_median_f64(&x, &mut acc);
            let mut sorted = x.clone();
            (
                json!(median_by_definition(&mut sorted).map(|(m, lo, hi)| json!({"half_sum": fj(m), "low": fj(lo), "high": fj(hi)}))),
                json!(median(&x).map(fj)),
            )
        }
        "theil_sen_f64" => {
            let x = vecf("values")?;
            check_theil_sen_f64(&x, &mut acc);
            (
                json!(theil_sen_scaled_reference(&x).map(|(s, i)| json!({"slope": fj(s), "intercept": fj(i)}))),
                json!(theil_sen_line(&x).map(|(s, i)| json!({"slope": fj(s), "intercept": fj(i)}))),
            )
        }
        "theil_sen_line" | "median" => {
            let x = vecf("values")?;
            let ints = rf::as_integers(&x).ok_or("exact reference needs integer-valued data")?;
            if function == "median" {
                check_median(&x, &ints, &mut acc);
                let mut r: Vec<rf::Rat> =
                    ints.iter().map(|&v| rf::Rat::int(i128::from(v))).collect();
                (
                    json!(rf::median_rat(&mut r).map(|m| format!("{}/{}", m.num, m.den))),
                    json!(median(&x).map(fj)),
                )
            } else {
                check_theil_sen(&x, &ints, TieClass::of(&x), &mut acc);
                (
                    json!(rf::theil_sen(&ints).map(|(s, i)| json!({"slope": format!("{}/{}", s.num, s.den), "intercept": format!("{}/{}", i.num, i.den)}))),
                    json!(theil_sen_line(&x).map(|(s, i)| json!({"slope": fj(s), "intercept": fj(i)}))),
                )
            }
        }
        "benjamini_hochberg" => {
            let p = vecf("p_values")?;
            let q = case.get("q").and_then(parse_f64).ok_or("no q")?;
            let m = case
                .get("family_size")
                .and_then(Value::as_u64)
                .ok_or("no family_size")? as usize;
            let e = check_bh(&p, q, m, &mut acc);
            (json!(e), json!(benjamini_hochberg(&p, q, m)))
        }
        "student_t_two_sided_p" => {
            let (t, df) = (vecf("t")?[0], vecf("df")?[0]);
            let p = student_t_two_sided_p(t, df);
            let e = if !t.is_finite() || !df.is_finite() || df < 1.0 {
                Some(1.0)
            } else if df == 1.0 || df == 2.0 {
                rf::student_t_closed_form(t, df as u32)
            } else {
                None
            };
            if let Some(e) = e
                && !close_rel(p, e, TOL_STUDENT)
            {
                acc.fail(
                    "student_t".into(),
                    format!("p = {p:e}, expected {e:e}"),
                    case.clone(),
                );
            }
            if !in_range(p) {
                acc.fail(
                    "student_t.range".into(),
                    format!("p = {p:e} outside [1e-15, 1]"),
                    case.clone(),
                );
            }
            (json!(e.map(fj)), fj(p))
        }
        "selection_adjusted_change_point" => {
            let x = vecf("values")?;
            let mr = case
                .get("min_regime")
                .and_then(Value::as_u64)
                .ok_or("no min_regime")? as usize;
            check_selection(&x, mr, &mut cache, &mut acc);
            let a = selection_adjusted_change_point(&x, mr, selection_calibration());
            let e = rf::pettitt(&x).map(|pt| {
                let mw = rf::mann_whitney(&x[..pt.index], &x[pt.index..], &mut cache);
                json!({"index": pt.index, "tainted_p": mw.as_ref().map(|m| fj(m.p)), "superiority": mw.as_ref().map(|m| fj(m.sup))})
            });
            (
                json!(e),
                json!(a.map(|a| json!({"index": a.index, "tainted_p": fj(a.tainted_p), "adjusted_p": fj(a.adjusted_p), "superiority": fj(a.superiority)}))),
            )
        }
        other => return Err(format!("unknown function `{other}` in replay")),
    };
    out["expected"] = expected;
    out["actual"] = actual;
    let mismatches = acc
        .violations
        .iter()
        .map(|v| format!("{}: {}", v.key, v.summary))
        .collect();
    Ok((out, mismatches))
}

fn replay_main(path: &str) -> ! {
    let text = std::fs::read_to_string(path).unwrap_or_else(|e| {
        println!("ENGINE-FAILURE property=C20 cannot read replay {path}: {e}");
        std::process::exit(2)
    });
    let v: Value = vcommon::serde_json::from_str(&text).unwrap_or_else(|e| {
        println!("ENGINE-FAILURE property=C20 replay does not parse: {e}");
        std::process::exit(2)
    });
    let case = v.get("replay").cloned().unwrap_or(v);
    match describe(&case) {
        Err(e) => {
            println!("ENGINE-FAILURE property=C20 {e}");
            std::process::exit(2)
        }
        Ok((desc, mismatches)) => {
            println!("{}", vcommon::serde_json::to_string_pretty(&desc).unwrap());
            if mismatches.is_empty() {
                println!("REPLAY property=C20 result=agrees-with-definition");
                std::process::exit(0)
            }
            for m in &mismatches {
                println!("REPLAY-MISMATCH {m}");
            }
            println!("VIOLATION property=C20 replay={path}");
            std::process::exit(1)
        }
    }
}

fn sample_cases() -> Vec<Value> {
    let lv = |levels: &[usize], m: usize| -> Vec<f64> {
        let k = levels.iter().max().map_or(0, |&l| l + 1);
        levels.iter().map(|&l| map_value(m, l, k)).collect()
    };
    let s = lv(&[1, 0, 1, 2, 0, 2, 2], 0);
    vec![
        mw_case(&s[..3], &s[3..]),
        mw_case(&lv(&[0, 0, 1], 2), &lv(&[1, 2, 2, 2], 2)[..]),
        series_case("mann_kendall", &lv(&[0, 1, 1, 2, 1, 3, 3], 1)),
        series_case("pettitt", &lv(&[1, 0, 1, 3, 2, 3], 3)),
        series_case("theil_sen_line", &lv(&[0, 2, 1, 1, 3], 2)),
        bh_case(&[0.05, 0.01, f64::NAN, 0.049], 0.1, 7),
    ]
}

// ---------------------------------------------------------------------------------------------

fn main() {
    if let Ok(path) = std::env::var("VERIF_REPLAY") {
        replay_main(&path);
    }
    vcommon::quiet_panics();
    tune_allocator();
    let mut c = Check::new("C20", "exploration");
    let plan = plan();

    // Harness self-checks: a broken oracle is an engine failure, never a verdict.
    if let Err(e) = rf::erfc_self_test() {
        c.engine_failure(&format!("reference erfc self-test failed: {e}"));
    }
    let dp_checked = match rf::dp_self_test(if vcommon::is_thorough() { 11 } else { 9 }) {
        Ok(n) => n,
        Err(e) => c.engine_failure(&format!("reference subset-sum self-test failed: {e}")),
    };

    let jobs = build_jobs(&plan);
    let next = AtomicUsize::new(0);
    let results: Mutex<Vec<Option<JobOut>>> = Mutex::new((0..jobs.len()).map(|_| None).collect());
    let threads = vcommon::default_parallelism().max(1);
    std::thread::scope(|s| {
        for _ in 0..threads {
            s.spawn(|| {
                let mut cache = TailCache::default();
                loop {
                    let i = next.fetch_add(1, Ordering::SeqCst);
                    if i >= jobs.len() {
                        break;
                    }
                    let r = std::panic::catch_unwind(std::panic::AssertUnwindSafe(|| {
                        run_job(&jobs[i], &plan, &mut cache)
                    }));
                    let out = r.unwrap_or_else(|p| {
                        cache = TailCache::default();
                        JobOut {
                            secs: 0.0,
                            distinct: 0,
                            acc: Acc::new(),
                            sequences: 0,
                            engine_error: Some(format!(
                                "job {:?} panicked: {}",
                                jobs[i],
                                vcommon::panic_message(p.as_ref())
                            )),
                        }
                    });
                    results.lock().unwrap()[i] = Some(out);
                }
            });
        }
    });
    let results: Vec<JobOut> = results
        .into_inner()
        .unwrap()
        .into_iter()
        .map(|r| r.expect("job ran"))
        .collect();

    // Merge in job order.
    let mut outcomes = [0_u64; O::COUNT as usize];
    let mut per_family: BTreeMap<&'static str, u64> = BTreeMap::new();
    let mut family_secs: BTreeMap<&'static str, f64> = BTreeMap::new();
    let mut seq_counts: BTreeMap<usize, u64> = BTreeMap::new();
    let mut viol_counts: BTreeMap<String, u64> = BTreeMap::new();
    let mut viol_first: BTreeMap<String, Vec<Viol>> = BTreeMap::new();
    // Simplest inputs first, so that the witness kept per key is the smallest one.
    let simplicity = |job: &Job| -> (u8, usize, usize) {
        match job {
            Job::Seq { n, .. } => (0, *n, 0),
            Job::Bh { len } => (1, *len, 0),
            Job::StudentT => (2, 0, 0),
            Job::Canon { comp } => (3, comp.iter().map(|&c| c as usize).sum(), comp.len()),
            Job::Long { n } => (4, *n, 0),
            Job::Giants { first, .. } => (1, 0, *first),
            Job::Boundary { n1, n2, a, .. } => (5, n1 + n2, *a),
        }
    };
    let mut order: Vec<usize> = (0..jobs.len()).collect();
    order.sort_by_key(|&i| (simplicity(&jobs[i]), i));
    let mut results: Vec<Option<JobOut>> = results.into_iter().map(Some).collect();
    for i in order {
        let job = &jobs[i];
        let out = results[i].take().expect("each job merged once");
        if let Some(e) = out.engine_error {
            c.engine_failure(&e);
        }
        c.evaluations += out.acc.evaluations;
        // Jobs enumerate disjoint regions (different prefix / composition / sizes), so distinct
        // cases add up; within a job they are measured by hash.
        c.distinct_add(out.distinct);
        for (i, n) in out.acc.outcomes.iter().enumerate() {
            outcomes[i] += n;
        }
        for (k, v) in out.acc.per_family {
            *per_family.entry(k).or_insert(0) += v;
            *family_secs.entry(k).or_insert(0.0) += out.secs;
        }
        if let Job::Seq { n, .. } = job {
            *seq_counts.entry(*n).or_insert(0) += out.sequences;
        }
        for (k, n) in out.acc.viol_counts {
            *viol_counts.entry(k).or_insert(0) += n;
        }
        for v in out.acc.violations {
            let slot = viol_first.entry(v.key.clone()).or_default();
            if slot.len() < 3 {
                slot.push(v);
            }
        }
    }
    for (i, n) in outcomes.iter().enumerate() {
        if *n > 0 {
            c.outcome_n(OUT_NAMES[i], *n);
        }
    }

    // Anti-vacuity: the enumeration must be complete and must have reached every class.
    for (&n, &count) in &seq_counts {
        if count != fubini(n) {
            c.engine_failure(&format!(
                "enumerated {count} weak orderings of {n} points, expected Fubini({n}) = {}",
                fubini(n)
            ));
        }
    }
    // (Judged only when nothing was violated: a defect may legitimately make a class disappear,
    // and then the violation is the verdict.)
    let optional = [
        O::BH_AMBIGUOUS as usize,
        O::BH_SMALL_FAMILY_RETURNS as usize,
    ];
    for (i, n) in outcomes.iter().enumerate() {
        if *n == 0 && !optional.contains(&i) && viol_counts.is_empty() {
            c.engine_failure(&format!(
                "anti-vacuity: outcome class `{}` was never observed",
                OUT_NAMES[i]
            ));
        }
    }

    for (key, vs) in viol_first {
        let total = viol_counts[&key];
        for v in vs {
            c.violation(
                &key,
                &format!("{} [{} witnesses in total for this key]", v.summary, total),
                v.replay,
            );
        }
    }

    // Probe outside the decided domain: a NaN with the sign bit set (what 0.0/0.0 yields on x86).
    let neg_nan = f64::from_bits(0xfff8_0000_0000_0000);
    let probe = [neg_nan, 0.04];
    c.extra.insert(
        "observation_negative_nan_probe(not judged)".into(),
        json!({"p_values": ["-NaN", 0.04], "q": 0.05, "family_size": 2,
               "actual_mask": benjamini_hochberg(&probe, 0.05, 2),
               "mask_if_nan_is_no_evidence": match rf::benjamini_hochberg(&probe, 0.05, 2) { rf::BhRef::Mask{mask, ..} => json!(mask), _ => json!(null) }}),
    );

    let pairs = boundary_pairs(&plan);
    c.rule = format!(
        "Exhaustive, no sampling. A: every weak ordering (tie pattern) of n points in every arrangement in time \
         (Fubini(n) level sequences, n = 0..={tmax}) for Mann-Kendall, Pettitt, Theil-Sen, median; for n <= {smax} also every \
         split point 0..=n of every such sequence into (left, right) for Mann-Whitney p / superiority (both convenience \
         functions too, empty sides included) with direct swap-symmetry; each pattern realised as x=2*level-2, 2x+1, x^3 and an \
         extreme-magnitude increasing table (all four for n <= {fmax}, first two above). B: every (left multiset, right multiset) \
         over every tie composition for n = {bmin}..={bmax}, all four value maps, swapped and unswapped. C: Mann-Whitney at the \
         documented exact/normal switch (C(n1+n2,min) < 2^53) for min side k in {ks:?}: sizes (k,n2max),(k,n2max+1) and mirrored, \
         plus (40,90),(50,50),(100,100): constant data, every two-valued (a ones left, b ones right), every shift of an \
         all-distinct right sample through the left one (each case: both sample orders, the p-value convenience function, and \
         one of 2x+1 / x^3). D: Benjamini-Hochberg on every p-vector of length 0..=5 over \
         {{0,1e-16,1e-15,0.01,0.049,0.05,0.051,1,NaN}} x q in {{0.05,0.1}} x family in {{len,len+3}}. E: Student t on a \
         27x2 x 25 grid of (t, df) incl. non-finite. F: monotone/step/constant/sawtooth series of 12..400 points (reporting \
         floor). G: every sequence of 1..={gmax} values over the 11-value table {{-MAX,-1.2e308,-1e308,-9e307,-5e-324,0,5e-324,9e307,1e308,1.2e308,MAX}} \
         (infinite-free extreme magnitudes) for median / median_in_place (result between the two middle order statistics and equal to \
         their half-sum) and Theil-Sen (against the same definition evaluated on the data scaled by 2^-8, skipped where the \
         defined result is not representable). For n <= {selmax}: selection_adjusted_change_point index/tainted_p/superiority/range, and under a permutation-only calibration adjusted_p against the fraction of ALL distinct orderings of the values whose own Pettitt split scores (exact Mann-Whitney) at least as extreme. A case is distinct by \
         (function family, level sequence or multiset pair or size+pattern, split); it is non-trivial when the function \
         returns a computed result rather than its documented degenerate default (both samples non-empty, n >= 2, len >= 1). \
         Oracle: reference.rs (pair counting, brute-force subset enumeration / u128 counting, exact rationals, libm erfc); \
         tolerances: {TOL_EXACT:e} relative where both sides are exact arithmetic, {TOL_NORMAL:e} on normal-tail p-values, \
         {TOL_STUDENT:e} on Student t.",
        tmax = plan.seq_time_max,
        gmax = plan.giants_max_len,
        smax = plan.seq_two_sample_max,
        fmax = plan.seq_full_maps_max,
        bmin = plan.seq_two_sample_max + 1,
        bmax = plan.canon_max,
        ks = plan.boundary_ks,
        selmax = plan.selection_max,
    );
    c.max_samples = 8;
    for case in sample_cases() {
        match describe(&case) {
            Ok((d, _)) => c.sample(d),
            Err(e) => c.engine_failure(&format!("sample case failed: {e}")),
        }
    }
    c.extra
        .insert("evaluations_per_family".into(), json!(per_family));
    c.extra
        .insert("thread_cpu_seconds_per_family".into(), json!(family_secs));
    c.extra.insert(
        "weak_orderings_enumerated_per_n(== Fubini(n), checked)".into(),
        json!(
            seq_counts
                .iter()
                .map(|(n, v)| (n.to_string(), *v))
                .collect::<BTreeMap<_, _>>()
        ),
    );
    c.extra.insert(
        "switch_over_size_pairs(n1,n2,exact_expected)".into(),
        json!(
            pairs
                .iter()
                .map(|&(a, b)| (a, b, rf::mw_exact_expected(a, b)))
                .collect::<Vec<_>>()
        ),
    );
    c.extra.insert("reference_self_checks".into(), json!({"subset_sum_dp_vs_brute_force_cases": dp_checked, "libm_erfc_vs_table_and_continued_fraction": "ok"}));
    c.extra
        .insert("violations_by_key".into(), json!(viol_counts));
    c.extra.insert("threads".into(), json!(threads));
    c.extra.insert("value_maps".into(), json!(MAP_NAMES));
    c.assumptions.push("Data values are finite and free of -0.0/NaN (the crate orders by total_cmp; ties are bit-equality).".into());
    c.assumptions.push("Outside the bound (random samples of thousands of points) the family does not apply; only the switch-over sizes and long monotone series are added.".into());
    c.assumptions.push("Benjamini-Hochberg: a NaN p-value is read as 'no evidence' (ordered last, never rejected); cases whose threshold comparison is within f64 rounding of equality are not judged (count in outcomes).".into());
    c.assumptions.push("Normal-tail reference is the platform libm erfc (self-tested against a table and a 2000-level continued fraction).".into());
    c.finish();
}

//! Reference implementations for C20, written straight from the mathematical definitions.
//!
//! Deliberately naive: pair counting, brute-force subset enumeration, exact integer / rational
//! arithmetic. Nothing here is shared with `cbh_stats` (no ranks-by-sorting, no f64 counting, no
//! hand-written erfc: the normal tail comes from the platform C library's `erfc`).

use std::collections::HashMap;

pub const P_FLOOR: f64 = 1e-15;

/// The documented reportable range: non-finite => 1.0 ("no evidence"), else clamp to [1e-15, 1].
pub fn clamp_report(p: f64) -> f64 {
    if !p.is_finite() {
        1.0
    } else if p < P_FLOOR {
        P_FLOOR
    } else if p > 1.0 {
        1.0
    } else {
        p
    }
}

unsafe extern "C" {
    safe fn erfc(x: f64) -> f64;
}

/// Complementary error function from the platform libm (glibc: < 1 ulp), independent of the
/// series / continued fraction in `cbh_stats::normal`.
pub fn c_erfc(x: f64) -> f64 {
    erfc(x)
}

/// Reference values `math.erfc` (CPython / glibc), used to make the harness fail itself if the FFI
/// symbol is not what we think it is.
pub fn erfc_self_test() -> Result<(), String> {
    let table: [(f64, f64); 9] = [
        (0.0, 1.0),
        (0.5, 0.479_500_122_186_953_5),
        (1.0, 0.157_299_207_050_285_13),
        (1.5, 0.033_894_853_524_689_274),
        (2.0, 0.004_677_734_981_047_265),
        (3.0, 2.209_049_699_858_543_8e-5),
        (4.0, 1.541_725_790_028_002e-8),
        (5.0, 1.537_459_794_428_035_1e-12),
        (6.0, 2.151_973_671_249_891_6e-17),
    ];
    for (x, want) in table {
        let got = c_erfc(x);
        if (got - want).abs() > 1e-14 * want {
            return Err(format!("libm erfc({x}) = {got:e}, expected {want:e}"));
        }
        // Independent cross-check for x >= 2: Laplace continued fraction evaluated by brute depth.
        if x >= 2.0 {
            let mut f = 0.0_f64;
            for level in (1..=2000_u32).rev() {
                f = (f64::from(level) * 0.5) / (x + f);
            }
            let cf = (-x * x).exp() / (std::f64::consts::PI.sqrt() * (x + f));
            if (got - cf).abs() > 1e-13 * got {
                return Err(format!(
                    "libm erfc({x}) = {got:e} but continued fraction gives {cf:e}"
                ));
            }
        }
    }
    Ok(())
}

/// Two-sided standard-normal tail, clamped to the reportable range.
pub fn normal_two_sided(z: f64) -> f64 {
    clamp_report(c_erfc(z.abs() / std::f64::consts::SQRT_2))
}

/// Doubled mid-rank of every element: `2*#{x_j < x_i} + #{x_j == x_i} + 1`
/// (mid-rank = #less + (#equal + 1)/2, from the definition; no sorting).
pub fn doubled_midranks(x: &[f64]) -> Vec<u32> {
    x.iter()
        .map(|&xi| {
            let mut less = 0_u32;
            let mut equal = 0_u32;
            for &xj in x {
                if xj < xi {
                    less += 1;
                } else if xj == xi {
                    equal += 1;
                }
            }
            2 * less + equal + 1
        })
        .collect()
}

/// Sizes of all tie groups (including singletons) by pair comparison.
pub fn group_sizes(x: &[f64]) -> Vec<u64> {
    let mut out = Vec::new();
    for (i, &xi) in x.iter().enumerate() {
        if x.iter().take(i).any(|&xj| xj == xi) {
            continue;
        }
        out.push(x.iter().filter(|&&xj| xj == xi).count() as u64);
    }
    out
}

#[derive(Clone, Copy, Debug, PartialEq, Eq)]
pub enum TieClass {
    Constant,
    Ties,
    NoTies,
}

impl TieClass {
    pub fn of(x: &[f64]) -> Self {
        let g = group_sizes(x);
        if g.len() <= 1 {
            TieClass::Constant
        } else if g.iter().any(|&t| t > 1) {
            TieClass::Ties
        } else {
            TieClass::NoTies
        }
    }
    pub fn name(self) -> &'static str {
        match self {
            TieClass::Constant => "constant",
            TieClass::Ties => "ties",
            TieClass::NoTies => "noties",
        }
    }
}

/// C(n, k) by Pascal's rule with saturation at 2^100 (independent of the multiplicative formula).
pub fn binom_sat(n: usize, k: usize) -> u128 {
    const CAP: u128 = 1 << 100;
    const ROWS: usize = 320;
    static TABLE: std::sync::OnceLock<Vec<Vec<u128>>> = std::sync::OnceLock::new();
    if k > n {
        return 0;
    }
    let table = TABLE.get_or_init(|| {
        let mut rows: Vec<Vec<u128>> = Vec::with_capacity(ROWS);
        rows.push(vec![1]);
        for i in 1..ROWS {
            let prev = &rows[i - 1];
            let mut row = vec![1_u128; i + 1];
            for j in 1..i {
                row[j] = (prev[j - 1] + prev[j]).min(CAP);
            }
            rows.push(row);
        }
        rows
    });
    if n < ROWS {
        return table[n][k];
    }
    let k = k.min(n - k);
    let mut row = vec![0_u128; k + 1];
    row[0] = 1;
    for _ in 0..n {
        for j in (1..=k).rev() {
            row[j] = (row[j] + row[j - 1]).min(CAP);
        }
    }
    row[k]
}

/// Documented switch: the exact permutation tail is used precisely when C(n1+n2, min(n1,n2))
/// is below 2^53.
pub fn mw_exact_expected(n1: usize, n2: usize) -> bool {
    binom_sat(n1 + n2, n1.min(n2)) < (1_u128 << 53)
}

/// Cumulative counts `le[s]` = number of size-`m` subsets of `ranks` (as a multiset of labelled
/// points) whose doubled rank sum is <= s.
fn subset_sum_cumulative(ranks: &[u32], m: usize) -> Vec<u128> {
    let n = ranks.len();
    let max_sum: usize = {
        let mut r = ranks.to_vec();
        r.sort_unstable();
        r.iter().rev().take(m).map(|&v| v as usize).sum()
    };
    let mut counts = vec![0_u128; max_sum + 1];
    if n <= 62 && binom_sat(n, m) <= 60_000 {
        // Brute force: every subset of positions of size m (Gosper's hack), straight from the
        // definition of the permutation distribution.
        if m == 0 {
            counts[0] = 1;
        } else if m <= n {
            let mut mask: u64 = (1_u64 << m) - 1;
            let limit: u64 = 1_u64 << n;
            while mask < limit {
                let mut s = 0_usize;
                let mut bits = mask;
                while bits != 0 {
                    let i = bits.trailing_zeros() as usize;
                    s += ranks[i] as usize;
                    bits &= bits - 1;
                }
                counts[s] += 1;
                let c = mask & mask.wrapping_neg();
                let r = mask + c;
                mask = (((r ^ mask) >> 2) / c) | r;
            }
        }
    } else {
        counts = subset_sum_counts_dp(ranks, m, max_sum);
    }
    let mut acc = 0_u128;
    for c in &mut counts {
        acc += *c;
        *c = acc;
    }
    counts
}

/// Integer (u128) subset-sum counting for sizes where brute force is infeasible. Validated
/// against the brute-force enumeration by `dp_self_test`.
pub fn subset_sum_counts_dp(ranks: &[u32], m: usize, max_sum: usize) -> Vec<u128> {
    // table[j][s] = number of j-subsets with sum s
    let mut table = vec![vec![0_u128; max_sum + 1]; m + 1];
    table[0][0] = 1;
    for &r in ranks {
        let r = r as usize;
        for j in (1..=m).rev() {
            for s in (r..=max_sum).rev() {
                let add = table[j - 1][s - r];
                if add != 0 {
                    table[j][s] += add;
                }
            }
        }
    }
    table.swap_remove(m)
}

/// DP == brute force on every tie composition of up to `max_n` points and every subset size.
pub fn dp_self_test(max_n: usize) -> Result<u64, String> {
    let mut checked = 0_u64;
    for n in 1..=max_n {
        // compositions of n encoded by the bits of c (cut after position i when bit i set)
        for c in 0..(1_u32 << (n - 1)) {
            let mut vals = Vec::with_capacity(n);
            let mut level = 0.0_f64;
            for i in 0..n {
                vals.push(level);
                if c >> i & 1 == 1 {
                    level += 1.0;
                }
            }
            let ranks = doubled_midranks(&vals);
            for m in 0..=n {
                let brute = subset_sum_cumulative(&ranks, m);
                let max_sum = brute.len() - 1;
                let mut dp = subset_sum_counts_dp(&ranks, m, max_sum);
                let mut acc = 0_u128;
                for v in &mut dp {
                    acc += *v;
                    *v = acc;
                }
                if dp != brute {
                    return Err(format!(
                        "subset-sum DP != brute force for ranks {ranks:?} m={m}"
                    ));
                }
                if *brute.last().unwrap() != binom_sat(n, m) {
                    return Err(format!("subset count != C({n},{m}) for ranks {ranks:?}"));
                }
                checked += 1;
            }
        }
    }
    Ok(checked)
}

#[derive(Default)]
pub struct TailCache {
    map: HashMap<(Vec<u32>, usize), Vec<u128>>,
    elements: usize,
}

impl TailCache {
    /// (#subsets with sum <= observed, #subsets with sum >= observed, #subsets) over all size-`m`
    /// subsets of the joint doubled mid-ranks. The distribution depends only on the rank multiset.
    pub fn tails(&mut self, ranks: &[u32], m: usize, observed: u32) -> (u128, u128, u128) {
        let mut sorted = ranks.to_vec();
        sorted.sort_unstable();
        let key = (sorted, m);
        if !self.map.contains_key(&key) {
            // The brute-force enumeration runs on the sorted multiset; subsets of labelled points
            // are in bijection whatever the labelling.
            let cum = subset_sum_cumulative(&key.0, m);
            if self.elements > 2_000_000 {
                self.map.clear();
                self.elements = 0;
            }
            self.elements += cum.len() + key.0.len();
            self.map.insert(key.clone(), cum);
        }
        let cum = &self.map[&key];
        let total = *cum.last().unwrap();
        let o = observed as usize;
        assert!(o < cum.len(), "observed sum beyond attainable maximum");
        let lo = cum[o];
        let hi = total - if o > 0 { cum[o - 1] } else { 0 };
        (lo, hi, total)
    }
}

#[derive(Clone, Debug)]
pub struct MwRef {
    pub exact: bool,
    pub p: f64,
    pub sup: f64,
    /// Exact path only: (lower tail count, upper tail count, total splits).
    pub tails: Option<(u128, u128, u128)>,
    pub tie: TieClass,
}

/// Mann-Whitney reference. `None` when either sample is empty.
pub fn mann_whitney(left: &[f64], right: &[f64], cache: &mut TailCache) -> Option<MwRef> {
    let n1 = left.len();
    let n2 = right.len();
    if n1 == 0 || n2 == 0 {
        return None;
    }
    // Probability of superiority: P(right > left) + P(right == left)/2 over all cross pairs.
    let mut gt = 0_u64;
    let mut eq = 0_u64;
    for &l in left {
        for &r in right {
            if r > l {
                gt += 1;
            } else if r == l {
                eq += 1;
            }
        }
    }
    let sup = (2 * gt + eq) as f64 / (2 * n1 as u64 * n2 as u64) as f64;

    let mut joint = Vec::with_capacity(n1 + n2);
    joint.extend_from_slice(left);
    joint.extend_from_slice(right);
    let tie = TieClass::of(&joint);
    let ranks = doubled_midranks(&joint);
    let n = n1 + n2;

    if mw_exact_expected(n1, n2) {
        // Doubled permutation tail of the left rank sum over all C(n, n1) splits, ties included.
        // (The right-hand sum is the complement, so its tails are the mirror image: same min.)
        let (m, observed): (usize, u32) = if n1 <= n2 || binom_sat(n, n1) <= 60_000 {
            (n1, ranks[..n1].iter().sum())
        } else {
            (n2, ranks[n1..].iter().sum())
        };
        let (lo, hi, total) = cache.tails(&ranks, m, observed);
        let tail = lo.min(hi);
        let p = if 2 * tail >= total {
            1.0
        } else {
            (2 * tail) as f64 / total as f64
        };
        Some(MwRef {
            exact: true,
            p: clamp_report(p),
            sup,
            tails: Some((lo, hi, total)),
            tie,
        })
    } else {
        // Normal approximation with tie and continuity correction:
        //   U1 = R1 - n1(n1+1)/2, mean = n1 n2 / 2,
        //   var = n1 n2 / (12 n (n-1)) * (n^3 - n - sum(t^3 - t)),
        //   z = max(0, |U1 - mean| - 1/2) / sqrt(var), p = erfc(z / sqrt 2).
        let r1_doubled: u64 = ranks[..n1].iter().map(|&r| u64::from(r)).sum();
        let (n1u, n2u, nu) = (n1 as i128, n2 as i128, n as i128);
        let u1_doubled = r1_doubled as i128 - n1u * (n1u + 1);
        let dev_doubled = (u1_doubled - n1u * n2u).abs(); // 2*|U1 - mean|
        let tie_sum: i128 = group_sizes(&joint)
            .iter()
            .map(|&t| (t as i128).pow(3) - t as i128)
            .sum();
        let var_num = n1u * n2u * (nu * nu * nu - nu - tie_sum);
        let var_den = 12 * nu * (nu - 1);
        let p = if var_num <= 0 {
            1.0
        } else {
            let var = var_num as f64 / var_den as f64;
            let z = ((dev_doubled - 1).max(0) as f64 / 2.0) / var.sqrt();
            normal_two_sided(z)
        };
        Some(MwRef {
            exact: false,
            p,
            sup,
            tails: None,
            tie,
        })
    }
}

#[derive(Clone, Debug)]
pub struct MkRef {
    pub s: i64,
    /// 18 * Var(S) = n(n-1)(2n+5) - sum t(t-1)(2t+5); only meaningful for n >= 3.
    pub var18: i64,
    pub p: f64,
    pub degenerate_short: bool,
}

/// Mann-Kendall: S = sum_{i<j} sgn(x_j - x_i); tie-corrected variance; continuity-corrected Z.
/// Documented: fewer than three points => S = 0, p = 1; zero variance => p = 1.
pub fn mann_kendall(x: &[f64]) -> MkRef {
    let n = x.len() as i64;
    if n < 3 {
        return MkRef {
            s: 0,
            var18: 0,
            p: 1.0,
            degenerate_short: true,
        };
    }
    let mut s = 0_i64;
    for i in 0..x.len() {
        for j in (i + 1)..x.len() {
            if x[j] > x[i] {
                s += 1;
            } else if x[j] < x[i] {
                s -= 1;
            }
        }
    }
    let tie: i64 = group_sizes(x)
        .iter()
        .map(|&t| t as i64 * (t as i64 - 1) * (2 * t as i64 + 5))
        .sum();
    let var18 = n * (n - 1) * (2 * n + 5) - tie;
    let p = if var18 <= 0 {
        1.0
    } else {
        let sd = (var18 as f64 / 18.0).sqrt();
        let z = if s > 0 {
            (s - 1) as f64 / sd
        } else if s < 0 {
            (s + 1) as f64 / sd
        } else {
            0.0
        };
        normal_two_sided(z)
    };
    MkRef {
        s,
        var18,
        p,
        degenerate_short: false,
    }
}

#[derive(Clone, Debug)]
pub struct PettittRef {
    pub index: usize,
    pub k: i64,
    pub p: f64,
    /// Number of t attaining the maximum (the documented rule: first one wins).
    pub argmax_count: usize,
}

/// Pettitt: U_t = sum_{i<=t} sum_{j>t} sgn(x_i - x_j), K = max_t |U_t| over t = 1..n-1,
/// location = first maximising t, p = 2 exp(-6 K^2 / (n^3 + n^2)) clamped.
pub fn pettitt(x: &[f64]) -> Option<PettittRef> {
    let n = x.len();
    if n < 2 {
        return None;
    }
    let mut best = -1_i64;
    let mut index = 0_usize;
    let mut argmax_count = 0_usize;
    for t in 1..n {
        let mut u = 0_i64;
        for i in 0..t {
            for j in t..n {
                if x[i] > x[j] {
                    u += 1;
                } else if x[i] < x[j] {
                    u -= 1;
                }
            }
        }
        let a = u.abs();
        if a > best {
            best = a;
            index = t;
            argmax_count = 1;
        } else if a == best {
            argmax_count += 1;
        }
    }
    let nf = n as f64;
    let k = best as f64;
    let p = clamp_report(2.0 * (-6.0 * k * k / (nf * nf * nf + nf * nf)).exp());
    Some(PettittRef {
        index,
        k: best,
        p,
        argmax_count,
    })
}

// ---------------------------------------------------------------------------------------------
// Exact rationals for Theil-Sen and medians.
// ---------------------------------------------------------------------------------------------

#[derive(Clone, Copy, Debug, PartialEq, Eq)]
pub struct Rat {
    pub num: i128,
    pub den: i128, // > 0
}

fn gcd(a: i128, b: i128) -> i128 {
    let (mut a, mut b) = (a.abs(), b.abs());
    while b != 0 {
        (a, b) = (b, a % b);
    }
    a
}

impl Rat {
    pub fn new(num: i128, den: i128) -> Self {
        assert!(den != 0);
        let g = gcd(num, den).max(1);
        let s = if den < 0 { -1 } else { 1 };
        Rat {
            num: s * num / g,
            den: s * den / g,
        }
    }
    pub fn int(v: i128) -> Self {
        Rat { num: v, den: 1 }
    }
    pub fn sub(self, o: Rat) -> Rat {
        Rat::new(self.num * o.den - o.num * self.den, self.den * o.den)
    }
    pub fn mul(self, o: Rat) -> Rat {
        Rat::new(self.num * o.num, self.den * o.den)
    }
    pub fn mid(self, o: Rat) -> Rat {
        Rat::new(self.num * o.den + o.num * self.den, 2 * self.den * o.den)
    }
    pub fn cmp(&self, o: &Rat) -> std::cmp::Ordering {
        (self.num * o.den).cmp(&(o.num * self.den))
    }
    pub fn to_f64(self) -> f64 {
        self.num as f64 / self.den as f64
    }
}

/// Median by definition: middle order statistic, or the mean of the two middle ones.
pub fn median_rat(v: &mut [Rat]) -> Option<Rat> {
    if v.is_empty() {
        return None;
    }
    v.sort_by(Rat::cmp);
    let n = v.len();
    Some(if n % 2 == 1 {
        v[n / 2]
    } else {
        v[n / 2 - 1].mid(v[n / 2])
    })
}

/// Theil-Sen: slope = median of (x_j - x_i)/(j - i), i < j; intercept = median of x_i - slope*i.
pub fn theil_sen(x: &[i64]) -> Option<(Rat, Rat)> {
    let n = x.len();
    if n < 2 {
        return None;
    }
    let mut slopes = Vec::with_capacity(n * (n - 1) / 2);
    for i in 0..n {
        for j in (i + 1)..n {
            slopes.push(Rat::new(
                i128::from(x[j]) - i128::from(x[i]),
                (j - i) as i128,
            ));
        }
    }
    let slope = median_rat(&mut slopes)?;
    let mut intercepts: Vec<Rat> = x
        .iter()
        .enumerate()
        .map(|(i, &v)| Rat::int(i128::from(v)).sub(slope.mul(Rat::int(i as i128))))
        .collect();
    let intercept = median_rat(&mut intercepts)?;
    Some((slope, intercept))
}

/// Converts integer-valued f64 data (|v| < 2^40) to exact integers; `None` otherwise.
pub fn as_integers(x: &[f64]) -> Option<Vec<i64>> {
    x.iter()
        .map(|&v| {
            if v.is_finite() && v.fract() == 0.0 && v.abs() < 1.1e12 {
                Some(v as i64)
            } else {
                None
            }
        })
        .collect()
}

// ---------------------------------------------------------------------------------------------
// Benjamini-Hochberg
// ---------------------------------------------------------------------------------------------

/// `(mantissa, exponent)` with value = mantissa * 2^exponent, for finite non-negative f64.
fn decompose(v: f64) -> (u128, i32) {
    assert!(v.is_finite() && v >= 0.0);
    let bits = v.to_bits();
    let e = ((bits >> 52) & 0x7ff) as i32;
    let frac = bits & ((1_u64 << 52) - 1);
    if e == 0 {
        (u128::from(frac), -1074)
    } else {
        (u128::from(frac | (1_u64 << 52)), e - 1075)
    }
}

/// Exact decision of `p <= (k/m) * q` for the real numbers the f64 arguments denote:
/// `p * m <= k * q` in integer arithmetic. NaN never satisfies it.
pub fn bh_le_exact(p: f64, k: u64, m: u64, q: f64) -> bool {
    if p.is_nan() {
        return false;
    }
    let (mp, ep) = decompose(p);
    let (mq, eq) = decompose(q);
    let a = mp * u128::from(m);
    let b = mq * u128::from(k);
    if a == 0 {
        return true;
    }
    if b == 0 {
        return false;
    }
    // compare a * 2^ep <= b * 2^eq
    if ep >= eq {
        let sh = (ep - eq) as u32;
        if sh > 64 { false } else { (a << sh) <= b }
    } else {
        let sh = (eq - ep) as u32;
        if sh > 64 { true } else { a <= (b << sh) }
    }
}

pub enum BhRef {
    Mask {
        mask: Vec<bool>,
        max_rank: usize,
        rescued: bool,
    },
    /// Some threshold comparison sits within f64 rounding of equality (exact and rounded decision
    /// differ): the definition does not settle the case at f64 precision, so it is not judged.
    RoundingAmbiguous,
}

/// Step-up rule from the definition: k* = max{k : p_(k) <= (k/m) q}; reject every hypothesis
/// whose p-value is <= p_(k*). NaN is "no evidence": ordered last, never rejected.
pub fn benjamini_hochberg(p: &[f64], q: f64, m: usize) -> BhRef {
    let mut sorted: Vec<f64> = p
        .iter()
        .map(|&v| if v.is_nan() { f64::INFINITY } else { v })
        .collect();
    sorted.sort_by(|a, b| a.partial_cmp(b).unwrap());
    let mut max_rank = 0_usize;
    let mut failed_below = false;
    let mut rescued = false;
    for (i, &pk) in sorted.iter().enumerate() {
        let k = i + 1;
        let exact = pk.is_finite() && bh_le_exact(pk, k as u64, m as u64, q);
        let rounded = pk <= (k as f64) / (m as f64) * q;
        if exact != rounded {
            return BhRef::RoundingAmbiguous;
        }
        if exact {
            max_rank = k;
            if failed_below {
                rescued = true;
            }
        } else {
            failed_below = true;
        }
    }
    let mask = if max_rank == 0 {
        vec![false; p.len()]
    } else {
        let cutoff = sorted[max_rank - 1];
        p.iter().map(|&v| v <= cutoff).collect()
    };
    BhRef::Mask {
        mask,
        max_rank,
        rescued,
    }
}

// ---------------------------------------------------------------------------------------------
// Student t closed forms (1 and 2 degrees of freedom)
// ---------------------------------------------------------------------------------------------

/// Two-sided tail for nu = 1 (Cauchy): (2/pi) atan(1/|t|); nu = 2: 2 / (s (s + |t|)), s = sqrt(t^2+2).
pub fn student_t_closed_form(t: f64, df: u32) -> Option<f64> {
    let a = t.abs();
    if !a.is_finite() {
        return None;
    }
    let p = match df {
        1 => {
            if a == 0.0 {
                1.0
            } else {
                std::f64::consts::FRAC_2_PI * (1.0 / a).atan()
            }
        }
        2 => {
            if a > 1e150 {
                // t^2 overflows; 1/t^2 is the leading term
                (1.0 / a) * (1.0 / a)
            } else {
                let s = (a * a + 2.0).sqrt();
                2.0 / (s * (s + a))
            }
        }
        _ => return None,
    };
    Some(clamp_report(p))
}

//! C09 — "Processor selection returns exactly what was asked for, or nothing".
//!
//! Exhaustive input sweep (evidence level `exploration`) of `ProcessorSetBuilder::take(n)` and
//! `take_all()` on fake hardware:
//!
//!   all canonical topologies (multiset of regions, region = (#performance, #efficiency)), sparse
//!   processor and region ids, processors of a region not adjacent in the hardware list
//!   x source set (all processors / a sub-`ProcessorSet`)
//!   x exclusions (`except` one processor of every subset of the (region, class) buckets; two
//!     `filter` predicate variants, one combined with `except`)
//!   x 3 class selectors x 5 region policies x 6 quota variants
//!   x take(1..=P+1) and take_all()
//!   x scripted random draws: all-zero script, then every script with <= D non-zero words taken
//!     from a grid that is verified at start-up (through the crate's own rng seam, against rand's
//!     real mapping) to hit every outcome of `random_range(0..k)` for k <= 8 and every permutation
//!     of `shuffle` for <= R_max elements.
//!
//! Oracle: an independent brute force over all subsets of the model's candidate set (see `Oracle`).
//!
//! The iteration order of the builder's internal `foldhash::HashMap<region, ..>` is seeded per map
//! instance and is NOT controlled by the harness; the oracle is a predicate on the result and holds
//! for every order, the many executions of each query merely sample it (labelled not-deciding).

use std::collections::{BTreeMap, BTreeSet};
use std::num::NonZero;
use std::panic::{AssertUnwindSafe, catch_unwind};
use std::time::Duration;

use many_cpus_impl::fake::{HardwareBuilder, ProcessorBuilder};
use many_cpus_impl::{
    EfficiencyClass, Processor, ProcessorSet, ProcessorSetBuilder, SystemHardware, verif_rng,
};
use rand::prelude::*;
use vcommon::Check;
use vcommon::serde_json::{Map, Value, json};

// ------------------------------------------------------------------------------------------
// Topologies
// ------------------------------------------------------------------------------------------

/// Sparse processor ids; list position `pos` gets `SPARSE_IDS[(pos * 4 + 3) % 11]` (injective for
/// pos < 11, not monotone in the list position, includes id 0 and multiples of 3).
const SPARSE_IDS: [u32; 11] = [0, 2, 3, 7, 11, 12, 18, 21, 29, 30, 37];
/// Sparse, non-monotone memory region ids by region index.
const REGION_IDS: [u32; 4] = [5, 0, 9, 2];

#[derive(Clone, Copy, Debug, PartialEq, Eq, PartialOrd, Ord)]
enum Class {
    Perf,
    Eff,
}

#[derive(Clone, Debug)]
struct Proc {
    id: u32,
    /// Region index (not id).
    ri: usize,
    class: Class,
}

#[derive(Clone, Debug)]
struct Topo {
    /// Canonical description: (#performance, #efficiency) per region, non-increasing.
    regions: Vec<(u8, u8)>,
    /// Processors in hardware-list order.
    procs: Vec<Proc>,
    /// Non-empty (region index, class) buckets.
    buckets: Vec<(usize, Class)>,
}

impl Topo {
    fn new(regions: &[(u8, u8)]) -> Self {
        let per_region: Vec<Vec<Class>> = regions
            .iter()
            .map(|&(p, e)| {
                let mut v = vec![Class::Perf; p as usize];
                v.extend(std::iter::repeat_n(Class::Eff, e as usize));
                v
            })
            .collect();
        // Interleave the regions round-robin so that members of one region are not adjacent.
        let mut procs = Vec::new();
        let longest = per_region.iter().map(Vec::len).max().unwrap_or(0);
        for round in 0..longest {
            for (ri, members) in per_region.iter().enumerate() {
                if let Some(&class) = members.get(round) {
                    let pos = procs.len();
                    procs.push(Proc { id: SPARSE_IDS[(pos * 4 + 3) % 11], ri, class });
                }
            }
        }
        let mut buckets = Vec::new();
        for (ri, &(p, e)) in regions.iter().enumerate() {
            if p > 0 {
                buckets.push((ri, Class::Perf));
            }
            if e > 0 {
                buckets.push((ri, Class::Eff));
            }
        }
        Self { regions: regions.to_vec(), procs, buckets }
    }

    fn total(&self) -> usize {
        self.procs.len()
    }

    fn first_of_bucket(&self, b: usize) -> u32 {
        let (ri, class) = self.buckets[b];
        self.procs.iter().find(|p| p.ri == ri && p.class == class).expect("bucket is non-empty").id
    }

    fn hardware(&self, quota: Quota) -> SystemHardware {
        let mut hb = HardwareBuilder::new();
        for p in &self.procs {
            hb = hb.processor(
                ProcessorBuilder::new()
                    .id(p.id)
                    .memory_region(REGION_IDS[p.ri])
                    .efficiency_class(match p.class {
                        Class::Perf => EfficiencyClass::Performance,
                        Class::Eff => EfficiencyClass::Efficiency,
                    }),
            );
        }
        if let Some(t) = quota.max_processor_time() {
            hb = hb.max_processor_time(t);
        }
        SystemHardware::fake(hb)
    }

    fn procs_json(&self) -> Value {
        Value::Array(
            self.procs
                .iter()
                .map(|p| json!([p.id, REGION_IDS[p.ri], if p.class == Class::Perf { "P" } else { "E" }]))
                .collect(),
        )
    }
}

/// All canonical topologies with 1..=p_max processors in 1..=r_max regions, simplest first.
fn topologies(p_max: usize, r_max: usize) -> Vec<Topo> {
    fn rec(
        cap: (u8, u8),
        left_p: usize,
        left_r: usize,
        cur: &mut Vec<(u8, u8)>,
        out: &mut Vec<Vec<(u8, u8)>>,
    ) {
        if !cur.is_empty() {
            out.push(cur.clone());
        }
        if left_r == 0 {
            return;
        }
        // Next region key (size, #perf) must be <= cap (non-increasing sequence = canonical multiset).
        for size in (1..=left_p.min(cap.0 as usize)).rev() {
            for perf in (0..=size).rev() {
                let key = (size as u8, perf as u8);
                if key > cap {
                    continue;
                }
                cur.push((perf as u8, (size - perf) as u8));
                rec(key, left_p - size, left_r - 1, cur, out);
                cur.pop();
            }
        }
    }
    let mut out = Vec::new();
    rec((u8::MAX, u8::MAX), p_max, r_max, &mut Vec::new(), &mut out);
    out.sort_by_key(|r| (r.iter().map(|&(p, e)| (p + e) as usize).sum::<usize>(), r.len(), r.clone()));
    out.dedup();
    out.iter().map(|r| Topo::new(r)).collect()
}

// ------------------------------------------------------------------------------------------
// Criteria
// ------------------------------------------------------------------------------------------

macro_rules! named_enum {
    ($name:ident { $($v:ident = $s:literal),* $(,)? }) => {
        #[derive(Clone, Copy, Debug, PartialEq, Eq, PartialOrd, Ord)]
        enum $name { $($v),* }
        impl $name {
            const ALL: &'static [$name] = &[$($name::$v),*];
            fn name(self) -> &'static str { match self { $($name::$v => $s),* } }
            fn parse(s: &str) -> Option<Self> { match s { $($s => Some($name::$v),)* _ => None } }
        }
    };
}

named_enum!(Policy {
    Any = "Any",
    RequireSame = "RequireSame",
    RequireDifferent = "RequireDifferent",
    PreferSame = "PreferSame",
    PreferDifferent = "PreferDifferent",
});
named_enum!(ClassSel { Any = "any", Perf = "performance_only", Eff = "efficiency_only" });
named_enum!(Source { Full = "all_processors", Sub = "sub_set_without_first_listed" });
named_enum!(Quota {
    Default = "hardware_default_not_enforced",
    Set1NotEnforced = "max_processor_time_1.0_not_enforced",
    EnforcedHalf = "max_processor_time_0.5_enforced",
    EnforcedOne = "max_processor_time_1.0_enforced",
    EnforcedTwoAndHalf = "max_processor_time_2.5_enforced",
    EnforcedDefault = "hardware_default_enforced",
});

impl Quota {
    fn max_processor_time(self) -> Option<f64> {
        match self {
            Quota::Default | Quota::EnforcedDefault => None,
            Quota::Set1NotEnforced | Quota::EnforcedOne => Some(1.0),
            Quota::EnforcedHalf => Some(0.5),
            Quota::EnforcedTwoAndHalf => Some(2.5),
        }
    }
    fn enforced(self) -> bool {
        !matches!(self, Quota::Default | Quota::Set1NotEnforced)
    }
    /// The model's processor count limit: floor of the quota, at least 1; the fake hardware's
    /// default quota is its processor count.
    fn limit(self, total: usize) -> Option<usize> {
        match self {
            Quota::Default | Quota::Set1NotEnforced => None,
            Quota::EnforcedHalf | Quota::EnforcedOne => Some(1),
            Quota::EnforcedTwoAndHalf => Some(2),
            Quota::EnforcedDefault => Some(total),
        }
    }
}

#[derive(Clone, Copy, Debug, PartialEq, Eq, PartialOrd, Ord)]
enum Excl {
    /// `except([first processor of bucket b for every set bit b])`; 0 = no exclusion.
    ExceptMask(u32),
    /// `filter(|p| p.memory_region_id() != <id of the last region>)`.
    FilterDropLastRegion,
    /// `filter(|p| p.id() % 3 != 0)` then `except([second listed processor])`.
    FilterMod3ThenExcept,
}

impl Excl {
    fn to_json(self) -> Value {
        match self {
            Excl::ExceptMask(m) => json!({"except_first_of_buckets_mask": m}),
            Excl::FilterDropLastRegion => json!("filter_drop_last_region"),
            Excl::FilterMod3ThenExcept => json!("filter_id_mod3_then_except_second_listed"),
        }
    }
    fn parse(v: &Value) -> Option<Self> {
        if let Some(m) = v.get("except_first_of_buckets_mask").and_then(Value::as_u64) {
            return Some(Excl::ExceptMask(m as u32));
        }
        match v.as_str()? {
            "filter_drop_last_region" => Some(Excl::FilterDropLastRegion),
            "filter_id_mod3_then_except_second_listed" => Some(Excl::FilterMod3ThenExcept),
            _ => None,
        }
    }
    fn all(topo: &Topo) -> Vec<Excl> {
        let mut v: Vec<Excl> = (0..(1_u32 << topo.buckets.len())).map(Excl::ExceptMask).collect();
        v.push(Excl::FilterDropLastRegion);
        v.push(Excl::FilterMod3ThenExcept);
        v
    }
    /// Model: is this processor removed from the candidates?
    fn excludes(self, topo: &Topo, p: &Proc) -> bool {
        match self {
            Excl::ExceptMask(m) => (0..topo.buckets.len())
                .any(|b| m & (1 << b) != 0 && topo.first_of_bucket(b) == p.id),
            Excl::FilterDropLastRegion => p.ri == topo.regions.len() - 1,
            Excl::FilterMod3ThenExcept => {
                p.id % 3 == 0 || topo.procs.get(1).is_some_and(|q| q.id == p.id)
            }
        }
    }
}

#[derive(Clone, Copy, Debug, PartialEq, Eq, PartialOrd, Ord)]
enum Op {
    Take(usize),
    TakeAll,
}

impl Op {
    fn label(self) -> &'static str {
        match self {
            Op::Take(_) => "take",
            Op::TakeAll => "take_all",
        }
    }
    fn to_json(self) -> Value {
        match self {
            Op::Take(n) => json!({"take": n}),
            Op::TakeAll => json!("take_all"),
        }
    }
    fn parse(v: &Value) -> Option<Self> {
        if let Some(n) = v.get("take").and_then(Value::as_u64) {
            return Some(Op::Take(n as usize));
        }
        (v.as_str()? == "take_all").then_some(Op::TakeAll)
    }
}

/// The order in which the builder methods are called. Class selectors and region policies
/// REPLACE an earlier call of the same kind, filters and exclusions accumulate; the criteria in
/// force at `take` are therefore the last selector, the last policy and every filter - whatever
/// the order, and whatever was selected while a filter ran.
#[derive(Clone, Copy, Debug, PartialEq, Eq, PartialOrd, Ord)]
enum CallOrder {
    /// class, policy, exclusions, quota
    Canonical,
    /// exclusions, class, policy, quota
    ExclFirst,
    /// the OTHER class selector and a different policy, exclusions, then the real class and policy
    Decoys,
}

impl CallOrder {
    const ALL: &'static [CallOrder] = &[CallOrder::Canonical, CallOrder::ExclFirst, CallOrder::Decoys];
    fn name(self) -> &'static str {
        match self {
            CallOrder::Canonical => "class,policy,excl",
            CallOrder::ExclFirst => "excl,class,policy",
            CallOrder::Decoys => "decoy-class,decoy-policy,excl,class,policy",
        }
    }
    fn parse(s: &str) -> Option<Self> {
        Self::ALL.iter().copied().find(|o| o.name() == s)
    }
}

#[derive(Clone, Copy, Debug)]
struct Query {
    source: Source,
    excl: Excl,
    class: ClassSel,
    policy: Policy,
    quota: Quota,
    op: Op,
    order: CallOrder,
}

impl Query {
    fn in_source(&self, topo: &Topo, p: &Proc) -> bool {
        match self.source {
            Source::Full => true,
            Source::Sub => p.id != topo.procs[0].id,
        }
    }

    fn class_ok(&self, p: &Proc) -> bool {
        match self.class {
            ClassSel::Any => true,
            ClassSel::Perf => p.class == Class::Perf,
            ClassSel::Eff => p.class == Class::Eff,
        }
    }

    /// Configures the real builder through the public API only.
    fn builder(&self, topo: &Topo, hw: &SystemHardware) -> ProcessorSetBuilder {
        let all = hw.all_processors();
        let source_set: ProcessorSet = match self.source {
            Source::Full => all.clone(),
            Source::Sub => {
                let drop_id = topo.procs[0].id;
                all.filter(|p| p.id() != drop_id).expect("sub source is used only when P >= 2")
            }
        };
        let by_id = |id: u32| -> &Processor {
            all.processors().iter().find(|p| p.id() == id).expect("id is in the hardware")
        };
        let class = |b: ProcessorSetBuilder, c: ClassSel| match c {
            ClassSel::Any => b,
            ClassSel::Perf => b.performance_processors_only(),
            ClassSel::Eff => b.efficiency_processors_only(),
        };
        let policy = |b: ProcessorSetBuilder, p: Policy| match p {
            Policy::Any => b,
            Policy::RequireSame => b.same_memory_region(),
            Policy::RequireDifferent => b.different_memory_regions(),
            Policy::PreferSame => b.prefer_same_memory_region(),
            Policy::PreferDifferent => b.prefer_different_memory_regions(),
        };
        let excl = |b: ProcessorSetBuilder| match self.excl {
            Excl::ExceptMask(m) => {
                let removed: Vec<&Processor> = (0..topo.buckets.len())
                    .filter(|b| m & (1 << b) != 0)
                    .map(|b| by_id(topo.first_of_bucket(b)))
                    .collect();
                if removed.is_empty() { b } else { b.except(removed) }
            }
            Excl::FilterDropLastRegion => {
                let rid = REGION_IDS[topo.regions.len() - 1];
                b.filter(|p| p.memory_region_id() != rid)
            }
            Excl::FilterMod3ThenExcept => {
                let b = b.filter(|p| p.id() % 3 != 0);
                match topo.procs.get(1) {
                    Some(q) => b.except([by_id(q.id)]),
                    None => b,
                }
            }
        };
        let mut b = source_set.to_builder();
        match self.order {
            CallOrder::Canonical => {
                b = class(b, self.class);
                b = policy(b, self.policy);
                b = excl(b);
            }
            CallOrder::ExclFirst => {
                b = excl(b);
                b = class(b, self.class);
                b = policy(b, self.policy);
            }
            CallOrder::Decoys => {
                b = class(
                    b,
                    match self.class {
                        ClassSel::Any => ClassSel::Any,
                        ClassSel::Perf => ClassSel::Eff,
                        ClassSel::Eff => ClassSel::Perf,
                    },
                );
                b = policy(
                    b,
                    match self.policy {
                        Policy::Any => Policy::Any,
                        Policy::RequireSame => Policy::RequireDifferent,
                        Policy::RequireDifferent => Policy::RequireSame,
                        Policy::PreferSame => Policy::PreferDifferent,
                        Policy::PreferDifferent => Policy::PreferSame,
                    },
                );
                b = excl(b);
                b = class(b, self.class);
                b = policy(b, self.policy);
            }
        }
        if self.quota.enforced() {
            b = b.enforce_resource_quota();
        }
        b
    }

    fn to_json(&self, topo: &Topo, script: &[u32]) -> Value {
        let orc = Oracle::new(topo, self);
        json!({
            "regions_perf_eff": topo.regions.iter().map(|&(p, e)| json!([p, e])).collect::<Vec<_>>(),
            "processors_id_region_class": topo.procs_json(),
            "source": self.source.name(),
            "excl": self.excl.to_json(),
            "class": self.class.name(),
            "policy": self.policy.name(),
            "quota": self.quota.name(),
            "op": self.op.to_json(),
            "call_order": self.order.name(),
            "script": script,
            "model_candidate_ids": orc.cand.iter().map(|&i| topo.procs[i].id).collect::<Vec<_>>(),
            "model_quota_limit": orc.limit,
        })
    }

    fn parse(v: &Value) -> Option<(Topo, Query, Vec<u32>)> {
        let regions: Vec<(u8, u8)> = v
            .get("regions_perf_eff")?
            .as_array()?
            .iter()
            .map(|r| Some((r.get(0)?.as_u64()? as u8, r.get(1)?.as_u64()? as u8)))
            .collect::<Option<_>>()?;
        let q = Query {
            source: Source::parse(v.get("source")?.as_str()?)?,
            excl: Excl::parse(v.get("excl")?)?,
            class: ClassSel::parse(v.get("class")?.as_str()?)?,
            policy: Policy::parse(v.get("policy")?.as_str()?)?,
            quota: Quota::parse(v.get("quota")?.as_str()?)?,
            op: Op::parse(v.get("op")?)?,
            order: v.get("call_order").and_then(Value::as_str).map_or(Some(CallOrder::Canonical), CallOrder::parse)?,
        };
        let script =
            v.get("script")?.as_array()?.iter().map(|w| w.as_u64().map(|w| w as u32)).collect::<Option<_>>()?;
        Some((Topo::new(&regions), q, script))
    }
}

// ------------------------------------------------------------------------------------------
// Oracle: brute force over all subsets of the model's candidate set
// ------------------------------------------------------------------------------------------

struct Oracle {
    /// Indexes into `topo.procs` of the candidates (in source, not excluded, class matches).
    cand: Vec<usize>,
    /// Candidate count per region index.
    per_region: BTreeMap<usize, usize>,
    /// `min_d[n]` / `max_d[n]`: fewest / most distinct regions over ALL n-subsets of the candidates
    /// (n in 0..=cand.len()), found by enumerating every subset.
    min_d: Vec<usize>,
    max_d: Vec<usize>,
    limit: Option<usize>,
}

impl Oracle {
    fn new(topo: &Topo, q: &Query) -> Self {
        let cand: Vec<usize> = topo
            .procs
            .iter()
            .enumerate()
            .filter(|(_, p)| q.in_source(topo, p) && !q.excl.excludes(topo, p) && q.class_ok(p))
            .map(|(i, _)| i)
            .collect();
        let m = cand.len();
        let mut min_d = vec![usize::MAX; m + 1];
        let mut max_d = vec![0; m + 1];
        for mask in 0_u32..(1 << m) {
            let n = mask.count_ones() as usize;
            let mut regions = 0_u32;
            for (k, &i) in cand.iter().enumerate() {
                if mask & (1 << k) != 0 {
                    regions |= 1 << topo.procs[i].ri;
                }
            }
            let d = regions.count_ones() as usize;
            min_d[n] = min_d[n].min(d);
            max_d[n] = max_d[n].max(d);
        }
        let mut per_region = BTreeMap::new();
        for &i in &cand {
            *per_region.entry(topo.procs[i].ri).or_insert(0) += 1;
        }
        Self { cand, per_region, min_d, max_d, limit: q.quota.limit(topo.total()) }
    }
}

#[derive(Clone, Debug, PartialEq, Eq, PartialOrd, Ord)]
enum Out {
    None,
    /// (id, region id, is_performance) in the order returned.
    Some(Vec<(u32, u32, bool)>),
    Panic(String),
}

impl Out {
    fn to_json(&self) -> Value {
        match self {
            Out::None => json!(null),
            Out::Some(v) => json!({"ids": v.iter().map(|x| x.0).collect::<Vec<_>>()}),
            Out::Panic(m) => json!({"panic": m}),
        }
    }
}

/// `Ok(outcome class)` when the result is what the property allows, `Err((key, detail))` otherwise.
fn judge(topo: &Topo, q: &Query, orc: &Oracle, out: &Out) -> Result<&'static str, (String, String)> {
    let err = |kind: &str, detail: String| -> Result<&'static str, (String, String)> {
        Err((format!("{}-{}-{}", q.op.label(), q.policy.name(), kind), detail))
    };
    let members = match out {
        Out::Panic(m) => return err("panic", m.clone()),
        Out::None => None,
        Out::Some(v) => Some(v),
    };

    // Checks common to every returned set: distinct members, all of them model candidates, and the
    // attributes the returned Processor objects report are the hardware's.
    let check_members = |v: &[(u32, u32, bool)]| -> Result<Vec<usize>, (String, String)> {
        let mut seen = BTreeSet::new();
        let mut regions = Vec::new();
        for &(id, region, perf) in v {
            if !seen.insert(id) {
                return err("duplicate", format!("processor {id} returned twice")).map(|_| vec![]);
            }
            let Some(p) = topo.procs.iter().find(|p| p.id == id) else {
                return err("unknown-processor", format!("id {id} is not in the hardware")).map(|_| vec![]);
            };
            if region != REGION_IDS[p.ri] || perf != (p.class == Class::Perf) {
                return err("attribute-mismatch", format!("processor {id} reports region {region} perf={perf}"))
                    .map(|_| vec![]);
            }
            if !q.in_source(topo, p) {
                return err("not-in-source", format!("processor {id} is not in the source set")).map(|_| vec![]);
            }
            if q.excl.excludes(topo, p) {
                return err("excluded-processor", format!("processor {id} was excluded")).map(|_| vec![]);
            }
            if !q.class_ok(p) {
                return err("wrong-class", format!("processor {id} is {:?}", p.class)).map(|_| vec![]);
            }
            regions.push(p.ri);
        }
        Ok(regions)
    };
    let distinct = |regions: &[usize]| regions.iter().collect::<BTreeSet<_>>().len();

    match q.op {
        Op::Take(n) => {
            let quota_forbids = orc.limit.is_some_and(|l| n > l);
            // Does ANY n-subset of the candidates satisfy the region constraint?
            let satisfiable = n <= orc.cand.len()
                && match q.policy {
                    Policy::Any | Policy::PreferSame | Policy::PreferDifferent => true,
                    Policy::RequireSame => orc.min_d[n] == 1,
                    Policy::RequireDifferent => orc.max_d[n] == n,
                };
            let Some(v) = members else {
                return if quota_forbids {
                    Ok("take:none-quota-forbids")
                } else if !satisfiable {
                    Ok("take:none-unsatisfiable")
                } else {
                    err("none-but-satisfiable", format!("take({n}) returned None although a valid set exists"))
                };
            };
            if v.len() > n && q.policy == Policy::PreferSame {
                return Err((
                    "prefer-same-overtake".to_string(),
                    format!("prefer_same_memory_region().take({n}) returned {} processors", v.len()),
                ));
            }
            if v.len() != n {
                return err("wrong-count", format!("take({n}) returned {} processors", v.len()));
            }
            let regions = check_members(v)?;
            if quota_forbids {
                return err("quota-exceeded", format!("take({n}) succeeded with quota limit {:?}", orc.limit));
            }
            let d = distinct(&regions);
            let want = match q.policy {
                Policy::Any => None,
                Policy::RequireSame => Some(1),
                Policy::RequireDifferent => Some(n),
                Policy::PreferSame => Some(orc.min_d[n]),
                Policy::PreferDifferent => Some(orc.max_d[n]),
            };
            if let Some(w) = want
                && d != w
            {
                return err(
                    "region-constraint",
                    format!("take({n}) spans {d} regions, the policy demands {w}"),
                );
            }
            Ok("take:some-valid")
        }
        Op::TakeAll => {
            let Some(v) = members else {
                return if orc.cand.is_empty() {
                    Ok("take_all:none-no-candidates")
                } else {
                    err("none-but-candidates", format!("take_all() returned None with {} candidates", orc.cand.len()))
                };
            };
            let regions = check_members(v)?;
            let d = distinct(&regions);
            let full = match q.policy {
                Policy::Any | Policy::PreferSame | Policy::PreferDifferent => orc.cand.len(),
                Policy::RequireSame => {
                    if d != 1 {
                        return err("region-constraint", format!("take_all() spans {d} regions, one is required"));
                    }
                    // All of ONE region that has candidates (the docs promise an arbitrary one).
                    orc.per_region[&regions[0]]
                }
                Policy::RequireDifferent => {
                    if d != v.len() {
                        return err("region-constraint", "take_all() has two processors in one region".to_string());
                    }
                    orc.per_region.len()
                }
            };
            let want = orc.limit.map_or(full, |l| full.min(l));
            if v.len() != want {
                return err(
                    "wrong-count",
                    format!("take_all() returned {} processors, expected {want} (full {full}, limit {:?})", v.len(), orc.limit),
                );
            }
            Ok(if want < full { "take_all:some-cut-to-quota" } else { "take_all:some-full" })
        }
    }
}

// ------------------------------------------------------------------------------------------
// Execution
// ------------------------------------------------------------------------------------------

fn run(builder: &ProcessorSetBuilder, op: Op, script: &[u32]) -> (Out, usize) {
    let b = builder.clone();
    verif_rng::install(script.to_vec());
    let r = catch_unwind(AssertUnwindSafe(|| match op {
        Op::Take(n) => b.take(NonZero::new(n).expect("n >= 1")),
        Op::TakeAll => b.take_all(),
    }));
    let drawn = verif_rng::uninstall().unwrap_or(0);
    let out = match r {
        Err(p) => Out::Panic(vcommon::panic_message(&*p)),
        Ok(None) => Out::None,
        Ok(Some(set)) => {
            let v: Vec<(u32, u32, bool)> = set
                .processors()
                .iter()
                .map(|p| (p.id(), p.memory_region_id(), p.efficiency_class() == EfficiencyClass::Performance))
                .collect();
            if v.len() != set.len() {
                Out::Panic(format!("ProcessorSet::len() = {} but it holds {} processors", set.len(), v.len()))
            } else {
                Out::Some(v)
            }
        }
    };
    (out, drawn)
}

/// The non-zero words tried at every draw position.
fn grid(r_max: usize) -> Vec<u32> {
    let mut g = BTreeSet::new();
    // Coarse: ceil(i * 2^32 / 8) -> random_range(0..k) yields floor(i*k/8)+: every outcome for k <= 8.
    for i in 1..8_u64 {
        g.insert(((i << 32) / 8) as u32);
    }
    // Fine: rand's shuffle of <= 12 elements draws ONE chunk c = random_range(..12!) and decodes the
    // permutation from c mod 2, (c/2) mod 3, ...; word ceil(c * 2^32 / 12!) yields chunk c.
    let fact12: u64 = (1..=12).product();
    let perms: u64 = (1..=r_max as u64).product();
    for c in 1..perms {
        g.insert(((c << 32).div_ceil(fact12)) as u32);
    }
    g.remove(&0);
    g.into_iter().collect()
}

/// Start-up calibration through the crate's own seam against rand's real mapping.
fn calibrate(grid: &[u32], r_max: usize) -> Result<Value, String> {
    let mut words = vec![0_u32];
    words.extend_from_slice(grid);
    let mut facts = Map::new();
    for k in 1..=8_usize {
        let mut seen = BTreeSet::new();
        for &w in &words {
            verif_rng::install(vec![w]);
            seen.insert(verif_rng::rng().random_range(0..k));
            verif_rng::uninstall();
        }
        if seen != (0..k).collect::<BTreeSet<_>>() {
            return Err(format!("grid does not cover random_range(0..{k}): {seen:?}"));
        }
    }
    facts.insert("random_range_0_k_all_outcomes_for_k_up_to".into(), json!(8));
    for len in 2..=r_max {
        let mut seen = BTreeSet::new();
        for &w in &words {
            let mut v: Vec<usize> = (0..len).collect();
            verif_rng::install(vec![w]);
            v.shuffle(&mut verif_rng::rng());
            let drawn = verif_rng::uninstall().unwrap_or(0);
            if drawn != 1 {
                return Err(format!("shuffle of {len} drew {drawn} words for script [{w}]"));
            }
            seen.insert(v);
        }
        let want: usize = (1..=len).product();
        if seen.len() != want {
            return Err(format!("grid reaches {} of {want} permutations of a {len}-element shuffle", seen.len()));
        }
    }
    facts.insert("shuffle_all_permutations_for_len_up_to".into(), json!(r_max));
    // Unscripted, the seam must fall through to the real generator.
    let a: Vec<u32> = (0..4).map(|_| verif_rng::rng().next_u32()).collect();
    if a.iter().all(|&w| w == 0) {
        return Err("seam yields zeros with no script installed".into());
    }
    facts.insert("grid_words".into(), json!(words.len()));
    Ok(Value::Object(facts))
}

#[derive(Default)]
struct Stats {
    evaluations: u64,
    queries: u64,
    nontrivial_queries: u64,
    distinct_pairs: u64,
    multi_result_queries: u64,
    max_results_per_query: u64,
    max_draws: u64,
    outcomes: BTreeMap<String, u64>,
    /// key -> (count, first witnesses)
    violations: BTreeMap<String, (u64, Vec<(Vec<u64>, Value)>)>,
    samples: Vec<Value>,
}

struct QueryRun<'a> {
    topo: &'a Topo,
    q: Query,
    orc: Oracle,
    builder: ProcessorSetBuilder,
    grid: &'a [u32],
    results: BTreeSet<Out>,
    best_sample: Option<Value>,
}

impl QueryRun<'_> {
    fn explore(&mut self, script: &mut Vec<u32>, from: usize, devs_left: usize, st: &mut Stats) {
        let (out, drawn) = run(&self.builder, self.q.op, script);
        st.evaluations += 1;
        st.max_draws = st.max_draws.max(drawn as u64);
        match judge(self.topo, &self.q, &self.orc, &out) {
            Ok(class) => {
                *st.outcomes.entry(format!("{}/{}", self.q.policy.name(), class)).or_insert(0) += 1;
            }
            Err((key, detail)) => {
                // Keep the simplest witness per key (the parent picks the simplest over all jobs).
                let size: Vec<u64> = vec![
                    self.topo.total() as u64,
                    self.topo.regions.len() as u64,
                    match self.q.op {
                        Op::Take(n) => n as u64,
                        Op::TakeAll => 0,
                    },
                    script.iter().filter(|&&w| w != 0).count() as u64,
                    u64::from(self.q.excl != Excl::ExceptMask(0)),
                    u64::from(self.q.source != Source::Full),
                    u64::from(self.q.class != ClassSel::Any),
                    u64::from(self.q.quota != Quota::Default),
                ];
                let e = st.violations.entry(key).or_insert((0, Vec::new()));
                e.0 += 1;
                if e.1.first().is_none_or(|(s, _)| size < *s) {
                    let mut w = self.q.to_json(self.topo, script);
                    w["observed"] = out.to_json();
                    w["detail"] = json!(detail);
                    w["witness_size"] = json!(size);
                    e.1 = vec![(size, w)];
                }
            }
        }
        let fresh = self.results.insert(match &out {
            // Result SETS: order inside the returned list is not part of the outcome.
            Out::Some(v) => {
                let mut s = v.clone();
                s.sort_unstable();
                Out::Some(s)
            }
            o => o.clone(),
        });
        if fresh && self.results.len() == 2 && self.best_sample.is_none() {
            let mut w = self.q.to_json(self.topo, script);
            w["result"] = out.to_json();
            self.best_sample = Some(w);
        }
        if devs_left == 0 {
            return;
        }
        for pos in from..drawn {
            for gi in 0..self.grid.len() {
                let saved = script.clone();
                script.resize(pos + 1, 0);
                script[pos] = self.grid[gi];
                self.explore(script, pos + 1, devs_left - 1, st);
                *script = saved;
            }
        }
    }
}

/// Everything for one (topology, policy): all sources x exclusions x classes x quotas x ops x scripts.
fn sweep(topo: &Topo, policy: Policy, devs: usize, grid: &[u32], st: &mut Stats) {
    for &quota in Quota::ALL {
        let hw = topo.hardware(quota);
        for &source in Source::ALL {
            if source == Source::Sub && topo.total() < 2 {
                continue;
            }
            for excl in Excl::all(topo) {
                for &class in ClassSel::ALL {
                    let mut ops: Vec<Op> = (1..=topo.total() + 1).map(Op::Take).collect();
                    ops.push(Op::TakeAll);
                    for (op, &order) in ops.iter().flat_map(|&op| CallOrder::ALL.iter().map(move |o| (op, o))) {
                        // without a selector or policy to replace, the decoy order is ExclFirst
                        if order == CallOrder::Decoys && class == ClassSel::Any && policy == Policy::Any {
                            continue;
                        }
                        let q = Query { source, excl, class, policy, quota, op, order };
                        let orc = Oracle::new(topo, &q);
                        let nontrivial = !orc.cand.is_empty();
                        let builder = q.builder(topo, &hw);
                        let mut qr = QueryRun {
                            topo,
                            q,
                            orc,
                            builder,
                            grid,
                            results: BTreeSet::new(),
                            best_sample: None,
                        };
                        qr.explore(&mut Vec::new(), 0, devs, st);
                        st.queries += 1;
                        let k = qr.results.len() as u64;
                        if nontrivial {
                            st.nontrivial_queries += 1;
                            st.distinct_pairs += k;
                        }
                        if k > 1 {
                            st.multi_result_queries += 1;
                            *st.outcomes.entry(format!("{}/several-result-sets", policy.name())).or_insert(0) += 1;
                        }
                        st.max_results_per_query = st.max_results_per_query.max(k);
                        if st.samples.len() < 2
                            && let Some(mut s) = qr.best_sample.take()
                        {
                            s["distinct_result_sets_of_this_query"] = json!(k);
                            st.samples.push(s);
                        }
                    }
                }
            }
        }
    }
}

// ------------------------------------------------------------------------------------------
// Tiers, jobs, aggregation
// ------------------------------------------------------------------------------------------

/// One pass = a topology family and a deviation bound. Passes cover disjoint topology sets.
struct Pass {
    p_max: usize,
    r_max: usize,
    devs: usize,
    /// Topologies with total <= skip.0 and regions <= skip.1 belong to another pass.
    skip: Option<(usize, usize)>,
}

fn passes() -> Vec<Pass> {
    if vcommon::is_thorough() {
        vec![
            Pass { p_max: 6, r_max: 3, devs: 2, skip: None },
            Pass { p_max: 8, r_max: 4, devs: 1, skip: Some((6, 3)) },
        ]
    } else {
        vec![Pass { p_max: 6, r_max: 3, devs: 1, skip: None }]
    }
}

fn pass_topologies(p: &Pass) -> Vec<Topo> {
    topologies(p.p_max, p.r_max)
        .into_iter()
        .filter(|t| p.skip.is_none_or(|(sp, sr)| t.total() > sp || t.regions.len() > sr))
        .collect()
}

fn child(job: &str) {
    vcommon::quiet_panics();
    // A job is a comma-separated list of pass:topology:policy items.
    let passes = passes();
    let topos: Vec<Vec<Topo>> = passes.iter().map(pass_topologies).collect();
    let mut st = Stats::default();
    for item in job.split(',') {
        let parts: Vec<usize> = item.split(':').map(|s| s.parse().expect("job field")).collect();
        let (pi, ti, poli) = (parts[0], parts[1], parts[2]);
        let pass = &passes[pi];
        let grid = grid(pass.r_max);
        sweep(&topos[pi][ti], Policy::ALL[poli], pass.devs, &grid, &mut st);
    }
    vcommon::child_result(&json!({
        "evaluations": st.evaluations,
        "queries": st.queries,
        "nontrivial_queries": st.nontrivial_queries,
        "distinct_pairs": st.distinct_pairs,
        "multi_result_queries": st.multi_result_queries,
        "max_results_per_query": st.max_results_per_query,
        "max_draws": st.max_draws,
        "outcomes": st.outcomes,
        "violations": st.violations.iter().map(|(k, (n, w))| json!({"key": k, "count": n, "witnesses": w.iter().map(|x| x.1.clone()).collect::<Vec<_>>()})).collect::<Vec<_>>(),
        "samples": st.samples,
    }));
}

fn replay(path: &str) -> ! {
    vcommon::quiet_panics();
    let text = std::fs::read_to_string(path).expect("replay file");
    let v: Value = vcommon::serde_json::from_str(&text).expect("replay json");
    let body = v.get("replay").unwrap_or(&v);
    let (topo, q, script) = Query::parse(body).expect("replay does not describe a C09 query");
    let hw = topo.hardware(q.quota);
    let builder = q.builder(&topo, &hw);
    let orc = Oracle::new(&topo, &q);
    let mut bad = 0;
    // The builder's internal map order is not scripted: repeat to sample it.
    for i in 0..32 {
        let (out, drawn) = run(&builder, q.op, &script);
        let verdict = judge(&topo, &q, &orc, &out);
        if i == 0 || verdict.is_err() && bad == 0 {
            println!("replay run {i}: drawn={drawn} result={} verdict={verdict:?}", out.to_json());
        }
        if verdict.is_err() {
            bad += 1;
        }
    }
    println!("replay: {bad} of 32 runs violate C09");
    std::process::exit(if bad > 0 { 1 } else { 0 });
}

fn main() {
    if let Ok(path) = std::env::var("VERIF_REPLAY") {
        replay(&path);
    }
    if let Some(job) = vcommon::child_job() {
        child(&job);
        return;
    }

    let mut c = Check::new("C09", "exploration");
    let passes = passes();
    let mut calibrations = Vec::new();
    for p in &passes {
        match calibrate(&grid(p.r_max), p.r_max) {
            Ok(f) => calibrations.push(f),
            Err(e) => c.engine_failure(&format!("draw grid calibration failed: {e}")),
        }
    }
    c.extra.insert("draw_grid_calibration_per_pass".into(), Value::Array(calibrations));

    // Work items: (pass, topology, policy), most expensive first, dealt round-robin into jobs (child
    // processes) so that every job holds a similar mix.
    let mut jobs = Vec::new();
    let mut topo_count = 0;
    let mut pass_desc = Vec::new();
    for (pi, p) in passes.iter().enumerate() {
        let topos = pass_topologies(p);
        topo_count += topos.len();
        pass_desc.push(json!({"processors_up_to": p.p_max, "regions_up_to": p.r_max, "nonzero_draws_up_to": p.devs,
            "grid_words_per_draw": grid(p.r_max).len(), "topologies": topos.len(), "excluding_family": p.skip.map(|(a, b)| json!({"processors_up_to": a, "regions_up_to": b}))}));
        for (ti, t) in topos.iter().enumerate() {
            for poli in 0..Policy::ALL.len() {
                let weight = if p.devs >= 2 { 40 } else { 1 };
                jobs.push((t.total() * t.total() * t.buckets.len() * weight, pi, ti, poli));
            }
        }
    }
    jobs.sort_by(|a, b| b.0.cmp(&a.0).then(a.1.cmp(&b.1)).then(a.2.cmp(&b.2)).then(a.3.cmp(&b.3)));
    let n_jobs = jobs.len().min(if vcommon::is_thorough() { 480 } else { 64 });
    let mut job_strings = vec![String::new(); n_jobs];
    for (i, j) in jobs.iter().enumerate() {
        let s = &mut job_strings[i % n_jobs];
        if !s.is_empty() {
            s.push(',');
        }
        s.push_str(&format!("{}:{}:{}", j.1, j.2, j.3));
    }
    let timeout = Duration::from_secs(if vcommon::is_thorough() { 3000 } else { 240 });
    let results = vcommon::run_jobs(&job_strings, vcommon::default_parallelism(), timeout);

    let mut queries = 0_u64;
    let mut nontrivial = 0_u64;
    let mut multi = 0_u64;
    let mut max_results = 0_u64;
    let mut max_draws = 0_u64;
    // key -> (total, Vec<(job order key, witness)>)
    let mut viol: BTreeMap<String, (u64, Vec<(usize, Value)>)> = BTreeMap::new();
    let mut samples: Vec<Value> = Vec::new();
    for (order, r) in results.iter().enumerate() {
        if r.timed_out {
            c.engine_failure(&format!("job {} timed out after {:?}", r.job, r.wall));
        }
        let Some(v) = r.result_json().filter(|_| r.exit_code == Some(0)) else {
            c.engine_failure(&format!(
                "job {} failed (exit {:?}): {}",
                r.job,
                r.exit_code,
                r.stderr.lines().last().unwrap_or("")
            ));
        };
        let n = |k: &str| v[k].as_u64().unwrap_or(0);
        c.evaluations += n("evaluations");
        c.distinct_add(n("distinct_pairs"));
        queries += n("queries");
        nontrivial += n("nontrivial_queries");
        multi += n("multi_result_queries");
        max_results = max_results.max(n("max_results_per_query"));
        max_draws = max_draws.max(n("max_draws"));
        for (k, cnt) in v["outcomes"].as_object().into_iter().flatten() {
            c.outcome_n(k, cnt.as_u64().unwrap_or(0));
        }
        for e in v["violations"].as_array().into_iter().flatten() {
            let slot = viol.entry(e["key"].as_str().unwrap_or("?").to_string()).or_insert((0, Vec::new()));
            slot.0 += e["count"].as_u64().unwrap_or(0);
            for w in e["witnesses"].as_array().into_iter().flatten() {
                slot.1.push((order, w.clone()));
            }
        }
        for s in v["samples"].as_array().into_iter().flatten() {
            samples.push(s.clone());
        }
    }

    // A few actual cases, spread over the policies, from mid-sized topologies.
    let mut per_policy = BTreeSet::new();
    for s in &samples {
        if per_policy.insert(s["policy"].as_str().unwrap_or("").to_string()) {
            c.sample(s.clone());
        }
    }

    let mut counts = Map::new();
    for (key, (total, mut ws)) in viol {
        // Smallest topology first (the enumeration is simplest-first inside a job).
        ws.sort_by_key(|w| {
            let size: Vec<u64> =
                w.1["witness_size"].as_array().into_iter().flatten().filter_map(Value::as_u64).collect();
            (size, w.0)
        });
        counts.insert(key.clone(), json!(total));
        for (_, w) in ws.into_iter().take(3) {
            let summary = format!(
                "{} | regions(perf,eff)={} source={} excl={} class={} policy={} quota={} calls={} op={} script={} -> {} ({total} failing executions in total)",
                w["detail"].as_str().unwrap_or(""),
                w["regions_perf_eff"], w["source"], w["excl"], w["class"], w["policy"], w["quota"], w["call_order"], w["op"], w["script"],
                w["observed"],
            );
            c.violation(&key, &summary, w);
        }
    }
    if !counts.is_empty() {
        c.extra.insert("failing_executions_by_key".into(), Value::Object(counts));
    }

    c.rule = format!(
        "Exhaustive within the bound: every canonical fake topology (multiset of regions, each a (performance, efficiency) \
         count pair; sparse processor/region ids; regions interleaved in the hardware list) of each pass {} x 2 source sets \
         (all processors, sub-ProcessorSet) x exclusions (except() of the first processor of every subset of the (region,class) \
         buckets, filter() dropping a whole region, filter(id%3)+except()) x 3 class selectors x 5 region policies x 6 quota \
         variants (unset/1.0 not enforced, 0.5/1.0/2.5/default enforced) x 3 builder call orders (class,policy,excl | excl,class,policy | \
         the other class selector and a different policy first, then excl, then the real class and policy - selectors and policies replace, filters accumulate) x take(n) for every n in 1..=P+1 and take_all() x random \
         draws scripted through the cfg(folo_verif) rng seam: the all-zero script, then every script with at most D non-zero \
         32-bit words (D = nonzero_draws_up_to of the pass) at any draw position, each from the pass's word grid, verified at \
         start-up against rand's real mapping to reach every outcome of random_range(0..k), k<=8, and every permutation of \
         shuffle() of <= regions_up_to elements. Each execution is judged by a brute-force oracle over all subsets of the model's candidate set. \
         evaluations = executions of the real take/take_all; distinct_nontrivial = number of distinct (query, returned set) \
         pairs over queries whose candidate set is non-empty (a query = topology+source+exclusion+class+policy+quota+call order+op).",
        Value::Array(pass_desc.clone()),
    );
    c.extra.insert("passes".into(), Value::Array(pass_desc));
    c.extra.insert("topologies".into(), json!(topo_count));
    c.extra.insert("queries".into(), json!(queries));
    c.extra.insert("queries_with_candidates".into(), json!(nontrivial));
    c.extra.insert("queries_with_several_distinct_result_sets".into(), json!(multi));
    c.extra.insert("max_distinct_result_sets_of_one_query".into(), json!(max_results));
    c.extra.insert("max_words_drawn_by_one_execution".into(), json!(max_draws));
    c.extra.insert("jobs".into(), json!(job_strings.len()));
    c.assumptions.push(
        "The iteration order of the builder's internal foldhash HashMap (seeded per map instance) is not scripted; it \
         decides e.g. which regions PreferDifferent/RequireDifferent visit first and what take_all drops at the quota. The \
         oracle accepts exactly the sets the property allows for any order; the repeated executions of each query only \
         sample that order (not deciding)."
            .into(),
    );
    c.assumptions.push(
        "Scripts are deviation-bounded: results reachable only with more non-zero draws than the bound of the pass are \
         not visited. take_all with same_memory_region is judged against the documented contract (all processors of an \
         arbitrary region that has candidates), not against 'the largest region'."
            .into(),
    );
    c.assumptions.push("Fake platform only (SystemHardware::fake); where_available_for_current_thread and take_exact are outside C09.".into());

    // Anti-vacuity: every policy must have produced valid sets, refusals and several result sets per query.
    let mut missing = Vec::new();
    for p in Policy::ALL {
        for class in ["take:some-valid", "take:none-unsatisfiable", "take:none-quota-forbids", "take_all:some-full",
            "take_all:some-cut-to-quota", "take_all:none-no-candidates", "several-result-sets"]
        {
            let k = format!("{}/{}", p.name(), class);
            let failing = c.violation_count() > 0;
            if !c.outcomes().contains_key(&k) && !(failing && class != "several-result-sets") {
                missing.push(k);
            }
        }
    }
    if !missing.is_empty() {
        c.engine_failure(&format!("vacuous run: outcome classes never observed: {missing:?}"));
    }
    if max_results < 3 {
        c.engine_failure("vacuous run: no query produced three distinct result sets; the scripted draws do not steer the selection");
    }
    c.finish();
}

//! C14 — vicinal: every spawned task runs once on its processor, every join handle resolves,
//! pool drop terminates. SCHED engine: the real `vicinal` code on real OS threads (its own worker
//! threads included) under the baton scheduler, every schedule up to a preemption bound; blocking
//! waits are modelled, so a lost wake-up or a never-resolving handle is a deterministic deadlock
//! verdict.

use std::collections::BTreeMap;
use std::future::Future;
use std::num::NonZero;
use std::sync::Arc;
use std::sync::atomic::{AtomicBool, AtomicI64, AtomicUsize, Ordering::SeqCst};
use std::task::{Context, Poll, Wake, Waker};
use std::time::Duration;

use many_cpus::SystemHardware;
use many_cpus::fake::{HardwareBuilder, ProcessorBuilder};
use vcommon::serde_json::{Value, json};
use vcommon::{Check, child_job, child_result};
use vicinal::{Pool, Scheduler};

#[derive(Clone, Copy, Debug, PartialEq, Eq)]
enum SpawnKind {
    Regular,
    Urgent,
    Forget,
    /// an urgent task that itself spawns an urgent fire-and-forget task through a captured
    /// `Scheduler` (tasks that use the pool they run on)
    UrgentNested,
    /// 'g': a regular task that stays on its worker until the LAST task of its spawner has run
    /// (a long-running task that depends on later work; only in programs with >= 2 workers)
    Gated,
    /// 'A': not a spawn - the spawner awaits every handle it holds so far, except gated tasks
    AwaitSoFar,
}

#[derive(Clone, Debug)]
struct Program {
    processors: usize,
    workers_per_processor: u32,
    /// one entry per spawner thread: the processor it is pinned to and its spawn operations
    spawners: Vec<(usize, Vec<SpawnKind>)>,
    /// true: the root drops the pool while the spawners (holding scheduler clones) are running;
    /// false: the root joins the spawners first (every task is handed to a live pool).
    concurrent_drop: bool,
    /// spawners keep their `Scheduler` clone alive until they have awaited all handles
    keep_scheduler: bool,
    /// processor ids are sparse (processor i has id 3*i + 2) instead of 0, 1, ..: an id is then
    /// not an index below the processor count (program names start with `P` instead of `p`)
    sparse_ids: bool,
}

impl Program {
    fn processor_id(&self, index: usize) -> usize {
        if self.sparse_ids { 3 * index + 2 } else { index }
    }
    fn name(&self) -> String {
        let sp: Vec<String> = self
            .spawners
            .iter()
            .map(|(p, ops)| {
                format!(
                    "{}@{}",
                    ops.iter().map(|k| match k { SpawnKind::Regular => 's', SpawnKind::Urgent => 'u', SpawnKind::Forget => 'f', SpawnKind::UrgentNested => 'n', SpawnKind::Gated => 'g', SpawnKind::AwaitSoFar => 'A' }).collect::<String>(),
                    p
                )
            })
            .collect();
        format!(
            "{}{}w{}:{}:{}{}",
            if self.sparse_ids { 'P' } else { 'p' },
            self.processors,
            self.workers_per_processor,
            sp.join(","),
            if self.concurrent_drop { "drop" } else { "live" },
            if self.keep_scheduler { "+keep" } else { "" }
        )
    }
    fn parse(s: &str) -> Program {
        let parts: Vec<&str> = s.split(':').collect();
        let pw = parts[0];
        let (p, w) = pw[1..].split_once('w').unwrap();
        let spawners = parts[1]
            .split(',')
            .map(|sp| {
                let (ops, proc_) = sp.split_once('@').unwrap();
                (
                    proc_.parse().unwrap(),
                    ops.chars().map(|c| match c { 's' => SpawnKind::Regular, 'u' => SpawnKind::Urgent, 'n' => SpawnKind::UrgentNested, 'g' => SpawnKind::Gated, 'A' => SpawnKind::AwaitSoFar, _ => SpawnKind::Forget }).collect(),
                )
            })
            .collect();
        Program {
            processors: p.parse().unwrap(),
            workers_per_processor: w.parse().unwrap(),
            spawners,
            concurrent_drop: parts[2].starts_with("drop"),
            keep_scheduler: parts[2].ends_with("+keep"),
            sparse_ids: pw.starts_with('P'),
        }
    }
    fn class(&self) -> &'static str {
        // A task that spawns on its own pool owns a Scheduler clone: while it sits in a queue it
        // keeps the pool's shared state alive just like a spawner that keeps its Scheduler.
        let task_holds_scheduler = self.spawners.iter().any(|(_, ops)| ops.contains(&SpawnKind::UrgentNested));
        match (self.concurrent_drop, self.keep_scheduler) {
            (false, _) => "live-pool",
            (true, false) if task_holds_scheduler => "concurrent-drop+scheduler-held-by-queued-task",
            (true, false) => "concurrent-drop",
            (true, true) => "concurrent-drop+scheduler-kept",
        }
    }
}

// ---- per-execution observation state (fresh in every forked child) ----
const MAX_TASKS: usize = 16;
static RUNS: [AtomicUsize; MAX_TASKS] = [const { AtomicUsize::new(0) }; MAX_TASKS];
static RAN_ON: [AtomicI64; MAX_TASKS] = [const { AtomicI64::new(-1) }; MAX_TASKS];

struct Flag(AtomicBool);
impl Wake for Flag {
    fn wake(self: Arc<Self>) {
        self.0.store(true, SeqCst);
    }
    fn wake_by_ref(self: &Arc<Self>) {
        self.0.store(true, SeqCst);
    }
}

/// Poll-and-yield executor: the wait is a modelled blocking operation.
fn block_on<F: Future>(fut: F) -> Result<F::Output, String> {
    let mut fut = Box::pin(fut);
    let flag = Arc::new(Flag(AtomicBool::new(false)));
    let waker = Waker::from(flag.clone());
    let mut cx = Context::from_waker(&waker);
    loop {
        vsched::point("await:poll");
        let r = std::panic::catch_unwind(std::panic::AssertUnwindSafe(|| fut.as_mut().poll(&mut cx)));
        match r {
            Ok(Poll::Ready(v)) => return Ok(v),
            Ok(Poll::Pending) => vsched::block_until("await", &mut || flag.0.swap(false, SeqCst)),
            Err(p) => return Err(vcommon::panic_message(&*p)),
        }
    }
}

fn pin_to(hw: &SystemHardware, processor: usize) {
    let set = hw
        .processors()
        .to_builder()
        .filter(|p| p.id() as usize == processor)
        .take_all()
        .expect("fake processor exists");
    set.pin_current_thread_to();
}

fn spawner_body(hw: SystemHardware, sched: Scheduler, processor: usize, ops: Vec<SpawnKind>, first_task: usize, keep: bool) -> String {
    pin_to(&hw, processor);
    let mut handles = Vec::new();
    let mut gated_handles = Vec::new();
    let mut out = Vec::new();
    let last_task = first_task + ops.iter().rposition(|k| *k != SpawnKind::AwaitSoFar).unwrap_or(0);
    let await_one = |id: usize, h: vicinal::JoinHandle<usize>, out: &mut Vec<String>| match block_on(h) {
        Ok(v) => {
            if v != id * 10 + 7 {
                panic!("ORACLE[wrong-value] task {id} returned {v}");
            }
            if RUNS[id].load(SeqCst) != 1 {
                panic!("ORACLE[value-without-run] task {id} yielded a value but ran {} times", RUNS[id].load(SeqCst));
            }
            out.push(format!("{id}:value"));
        }
        Err(m) => out.push(format!("{id}:panic({})", m.chars().take(40).collect::<String>())),
    };
    for (i, kind) in ops.iter().enumerate() {
        let id = first_task + i;
        let hw2 = hw.clone();
        let task = move || {
            vsched::point("task:run");
            RUNS[id].fetch_add(1, SeqCst);
            RAN_ON[id].store(i64::from(hw2.current_processor_id()), SeqCst);
            id * 10 + 7
        };
        match kind {
            SpawnKind::Regular => handles.push((id, sched.spawn(task))),
            SpawnKind::Urgent => handles.push((id, sched.spawn_urgent(task))),
            SpawnKind::Forget => sched.spawn_and_forget(move || {
                let _ = task();
            }),
            SpawnKind::Gated => {
                let hw4 = hw.clone();
                gated_handles.push((
                    id,
                    sched.spawn(move || {
                        vsched::point("task:run");
                        RUNS[id].fetch_add(1, SeqCst);
                        RAN_ON[id].store(i64::from(hw4.current_processor_id()), SeqCst);
                        // stays on its worker until the spawner's last task has run
                        vsched::block_until("task:gate", &mut || RUNS[last_task].load(SeqCst) == 1);
                        id * 10 + 7
                    }),
                ));
            }
            SpawnKind::AwaitSoFar => {
                for (hid, h) in std::mem::take(&mut handles) {
                    await_one(hid, h, &mut out);
                }
            }
            SpawnKind::UrgentNested => {
                let inner_sched = sched.clone();
                let inner_id = first_task + ops.len() + i;
                let hw3 = hw.clone();
                handles.push((
                    id,
                    sched.spawn_urgent(move || {
                        let r = task();
                        inner_sched.spawn_urgent_and_forget(move || {
                            vsched::point("task:run-nested");
                            RUNS[inner_id].fetch_add(1, SeqCst);
                            RAN_ON[inner_id].store(i64::from(hw3.current_processor_id()), SeqCst);
                        });
                        drop(inner_sched);
                        r
                    }),
                ));
            }
        }
    }
    let kept = if keep {
        Some(sched)
    } else {
        // Release the scheduler before awaiting: once the pool is gone too, abandoned tasks are
        // dropped with the pool's shared state and their handles resolve with a panic.
        drop(sched);
        None
    };
    for (id, h) in handles.into_iter().chain(gated_handles) {
        await_one(id, h, &mut out);
    }
    drop(kept);
    out.join(",")
}

fn execution(prog: &Program) -> String {
    for i in 0..MAX_TASKS {
        RUNS[i].store(0, SeqCst);
        RAN_ON[i].store(-1, SeqCst);
    }
    let hw = if prog.sparse_ids {
        let mut b = HardwareBuilder::new();
        for i in 0..prog.processors {
            b = b.processor(ProcessorBuilder::new().id(prog.processor_id(i) as u32).memory_region(0));
        }
        SystemHardware::fake(b)
    } else {
        SystemHardware::fake(HardwareBuilder::from_counts(NonZero::new(prog.processors).unwrap(), NonZero::new(1).unwrap()))
    };
    let pool = Pool::builder().hardware(hw.clone()).workers_per_processor(NonZero::new(prog.workers_per_processor).unwrap()).name("v").build();
    let mut joins = Vec::new();
    let mut first = 0;
    let mut expect_proc: Vec<(usize, usize, SpawnKind)> = Vec::new();
    for (si, (processor, ops)) in prog.spawners.iter().enumerate() {
        let (hw2, sched, processor, ops2, f, keep) = (hw.clone(), pool.scheduler(), prog.processor_id(*processor), ops.clone(), first, prog.keep_scheduler);
        for (i, k) in ops.iter().enumerate() {
            if *k == SpawnKind::AwaitSoFar {
                continue;
            }
            expect_proc.push((first + i, processor, *k));
            if *k == SpawnKind::UrgentNested {
                expect_proc.push((first + ops.len() + i, processor, SpawnKind::Forget));
            }
        }
        first += 2 * ops.len();
        joins.push(vsched::spawn(&format!("spawner{si}"), move || spawner_body(hw2, sched, processor, ops2, f, keep)));
    }
    let mut results = Vec::new();
    if prog.concurrent_drop {
        vsched::point("root:drop-pool");
        drop(pool);
        for j in joins {
            results.push(j.join());
        }
    } else {
        for j in joins {
            results.push(j.join());
        }
        vsched::point("root:drop-pool");
        drop(pool);
    }
    // ---- oracle at quiescence ----
    let mut obs = Vec::new();
    for r in &results {
        match r {
            Ok(s) => obs.push(s.clone()),
            Err(m) => panic!("{m}"), // ORACLE[..] panics of spawner bodies propagate
        }
    }
    for (id, processor, kind) in &expect_proc {
        let runs = RUNS[*id].load(SeqCst);
        if runs > 1 {
            panic!("ORACLE[ran-twice] task {id} ran {runs} times");
        }
        if runs == 1 && RAN_ON[*id].load(SeqCst) != *processor as i64 {
            panic!("ORACLE[wrong-processor] task {id} spawned on processor {processor} ran on a worker pinned to {}", RAN_ON[*id].load(SeqCst));
        }
        if !prog.concurrent_drop && runs != 1 && *kind != SpawnKind::Forget {
            // Handed to a live pool and awaited before the pool was dropped.
            panic!("ORACLE[not-run] task {id} was handed to a live pool, awaited, and ran {runs} times");
        }
        obs.push(format!("{id}:ran{runs}"));
    }
    obs.join(" ")
}

fn hooks() {
    vicinal::verif_hook::install(vicinal::verif_hook::Hooks {
        point: vsched::point,
        block_until: vsched::block_until,
        before_spawn: vsched::before_spawn,
        thread_start: vsched::thread_start,
        thread_exit: vsched::thread_exit,
        thread_finished: vsched::thread_finished,
    });
}

fn classify(prog: &Program, r: &vsched::ExecResult) -> Option<(String, String)> {
    match r.outcome.as_str() {
        "ok" => match &r.observation {
            Ok(_) => None,
            Err(m) => {
                let kind = m.strip_prefix("ORACLE[").and_then(|x| x.split(']').next()).unwrap_or("panic");
                Some((format!("{kind}:{}", prog.class()), m.clone()))
            }
        },
        "deadlock" => {
            let mut labels: Vec<String> = r.detail["blocked"]
                .as_array()
                .map(|a| a.iter().filter_map(|x| x.as_str()).map(|s| s.split('@').nth(1).unwrap_or(s).to_string()).collect())
                .unwrap_or_default();
            labels.sort();
            labels.dedup();
            Some((format!("hang[{}]:{}", labels.join("+"), prog.class()), format!("no enabled thread: {}", r.detail)))
        }
        other => Some((format!("engine:{other}"), format!("{}", r.detail))),
    }
}

fn child(job: &str) {
    hooks();
    vcommon::quiet_panics();
    let parts: Vec<&str> = job.split('|').collect();
    let prog = Program::parse(parts[0]);
    let shard: usize = parts[1].parse().unwrap();
    let nshards: usize = parts[2].parse().unwrap();
    // "2" = at most 2 preemptions (free choices unbounded); "d1" = at most 1 deviation of any kind.
    let all_dev = parts[3].starts_with('d');
    let bound: usize = parts[3].trim_start_matches('d').parse().unwrap();
    let cfg = vsched::Config { preemption_bound: bound, max_steps: 5_000, exec_timeout: Duration::from_secs(30), record_trace: false, max_executions: u64::MAX, count_all_deviations: all_dev };
    let p2 = prog.clone();
    let body = move || execution(&p2);
    if shard == 0 {
        if let Err(e) = vsched::check_determinism(&cfg, &[], &body) {
            child_result(&json!({"engine_error": e}));
            return;
        }
    }
    let mut outcomes: BTreeMap<String, u64> = BTreeMap::new();
    let mut violations: BTreeMap<String, (String, Vec<u8>, u64)> = BTreeMap::new();
    let mut engine_errors = Vec::new();
    let stats = vsched::explore_sharded(&cfg, shard, nshards, &body, |r| {
        match classify(&prog, r) {
            None => *outcomes.entry(r.observation.clone().unwrap_or_default()).or_default() += 1,
            Some((key, msg)) if key.starts_with("engine:") => engine_errors.push(format!("{key} {msg} schedule={:?}", r.schedule())),
            Some((key, msg)) => {
                *outcomes.entry(format!("VIOLATION {key}")).or_default() += 1;
                let e = violations.entry(key).or_insert((msg, r.schedule(), 0));
                e.2 += 1;
            }
        }
    });
    child_result(&json!({
        "prog": parts[0], "executions": stats.executions, "steps": stats.steps, "max_choice_points": stats.max_choice_points,
        "outcomes": outcomes, "engine_errors": engine_errors,
        "violations": violations.iter().map(|(k, (m, s, n))| json!({"key": k, "msg": m, "schedule": s, "count": n})).collect::<Vec<_>>(),
    }));
}

/// The program family with the preemption bound each program is explored at.
fn programs(thorough: bool) -> Vec<(Program, String)> {
    use SpawnKind::*;
    let mut v: Vec<(Program, String)> = Vec::new();
    let seqs1: Vec<Vec<SpawnKind>> = vec![vec![Regular], vec![Urgent], vec![Forget], vec![UrgentNested]];
    let seqs2: Vec<Vec<SpawnKind>> = vec![vec![Regular, Regular], vec![Regular, Urgent], vec![Urgent, Regular], vec![Forget, Regular], vec![Regular, Forget]];
    // Process and thread creation is serialised system-wide on this VM (~300 executions/s in
    // total, whatever the number of cores), so the tiers are budgeted in executions: quick
    // ~10k, thorough ~400k.
    let deep = "2".to_string();
    let wide = "1".to_string();
    let many = "d1".to_string(); // programs with >= 5 threads: deviation bound (d2 did not fit the budget)
    if !thorough {
        // Quick tier: an explicit small family (about 6k executions in total).
        let mk = |processors, w, spawners: Vec<(usize, Vec<SpawnKind>)>, concurrent_drop, keep_scheduler| Program { processors, workers_per_processor: w, spawners, concurrent_drop, keep_scheduler, sparse_ids: false };
        v.push((mk(1, 1, vec![(0, vec![Regular])], false, false), "1".into()));
        v.push((mk(1, 1, vec![(0, vec![Regular])], true, false), "1".into()));
        v.push((mk(1, 1, vec![(0, vec![Regular])], true, true), "1".into()));
        v.push((mk(1, 1, vec![(0, vec![Forget])], true, false), "1".into()));
        v.push((mk(1, 1, vec![(0, vec![Urgent, Regular])], false, false), "1".into()));
        v.push((mk(1, 2, vec![(0, vec![Regular])], true, true), "d1".into()));
        v.push((mk(2, 1, vec![(0, vec![Regular]), (1, vec![Regular])], false, false), "d1".into()));
        v.push((mk(1, 1, vec![(0, vec![Regular]), (0, vec![Regular])], true, true), "d2".into()));
        v.push((mk(1, 1, vec![(0, vec![UrgentNested])], false, false), "1".into()));
        v.push((mk(1, 2, vec![(0, vec![UrgentNested])], false, false), "d1".into()));
        // a long task that depends on later work must not swallow the wake-up meant for the idle
        // worker: gated A, B, await B, C (A's gate), await C, await A
        v.push((mk(1, 2, vec![(0, vec![Gated, Regular, AwaitSoFar, Regular])], false, false), "d1".into()));
        // sparse processor ids: an id is not an index below the processor count
        v.push((Program { sparse_ids: true, ..mk(1, 1, vec![(0, vec![Regular])], false, false) }, "d1".into()));
        v.push((Program { sparse_ids: true, ..mk(2, 1, vec![(0, vec![Urgent]), (1, vec![Forget, Regular])], false, false) }, "d0".into()));
        // Breadth: every program of the thorough family once, on its default schedule ("d0" = no
        // deviation of any kind), so that each combination of operations is at least executed
        // and judged in the quick tier (defects that do not depend on the schedule).
        let explicit: std::collections::BTreeSet<String> = v.iter().map(|(p, _)| p.name()).collect();
        for (p, _) in programs(true) {
            if !explicit.contains(&p.name()) {
                v.push((p, "d0".into()));
            }
        }
        return v;
    }
    // sparse processor ids
    for (procs, spawners) in [(1, vec![(0, vec![Regular])]), (2, vec![(0, vec![Urgent]), (1, vec![Forget, Regular])]), (2, vec![(1, vec![UrgentNested])])] {
        v.push((Program { processors: procs, workers_per_processor: 1, spawners, concurrent_drop: false, keep_scheduler: false, sparse_ids: true }, "d1".to_string()));
    }
    // long-running tasks that depend on later work (two workers; live pool)
    for ops in [vec![Gated, Regular, AwaitSoFar, Regular], vec![Gated, Urgent, AwaitSoFar, Urgent], vec![Gated, Regular], vec![Regular, AwaitSoFar, Gated, Regular, AwaitSoFar, Urgent]] {
        v.push((Program { processors: 1, workers_per_processor: 2, spawners: vec![(0, ops)], concurrent_drop: false, keep_scheduler: false, sparse_ids: false }, "d2".to_string()));
    }
    for (concurrent_drop, keep_scheduler) in [(false, false), (true, false), (true, true)] {
        // one spawner, one processor, one worker: the core programs get the deepest bound
        v.push((Program { processors: 1, workers_per_processor: 1, spawners: vec![(0, vec![Regular])], concurrent_drop, keep_scheduler, sparse_ids: false }, deep.clone()));
        let more: Vec<Vec<SpawnKind>> = if thorough { seqs1.iter().skip(1).chain(seqs2.iter()).cloned().collect() } else { vec![vec![Forget], vec![Urgent, Regular]] };
        for ops in &more {
            v.push((Program { processors: 1, workers_per_processor: 1, spawners: vec![(0, ops.clone())], concurrent_drop, keep_scheduler, sparse_ids: false }, wide.clone()));
        }
        // two workers on the processor
        let w2: Vec<Vec<SpawnKind>> = if thorough { seqs1.iter().chain(seqs2.iter()).cloned().collect() } else { vec![vec![Regular]] };
        for ops in &w2 {
            v.push((Program { processors: 1, workers_per_processor: 2, spawners: vec![(0, ops.clone())], concurrent_drop, keep_scheduler, sparse_ids: false }, "d2".to_string()));
        }
        // two spawners, same processor / different processors
        let pairs: Vec<(Vec<SpawnKind>, Vec<SpawnKind>)> = if thorough {
            seqs1.iter().flat_map(|a| seqs1.iter().map(move |b| (a.clone(), b.clone()))).collect()
        } else {
            vec![(vec![Regular], vec![Regular])]
        };
        for (pa, pb, procs) in [(0, 0, 1), (0, 1, 2)] {
            if !thorough && concurrent_drop && !keep_scheduler && procs == 1 {
                continue;
            }
            for (a, b) in &pairs {
                v.push((Program { processors: procs, workers_per_processor: 1, spawners: vec![(pa, a.clone()), (pb, b.clone())], concurrent_drop, keep_scheduler, sparse_ids: false }, many.clone()));
            }
        }
    }
    v
}

fn main() {
    if let Some(job) = child_job() {
        child(&job);
        return;
    }
    let thorough = vcommon::is_thorough();
    let mut c = Check::new("C14", "model_checking");
    let bound_override: Option<String> = std::env::var("C14_BOUND").ok();
    let progs = programs(thorough);
    let bound = progs.iter().map(|(_, b)| b.clone()).collect::<std::collections::BTreeSet<_>>().into_iter().collect::<Vec<_>>().join("/");
    if let Ok(path) = std::env::var("VERIF_REPLAY") {
        let v: Value = vcommon::serde_json::from_str(&std::fs::read_to_string(&path).expect("replay file")).expect("json");
        hooks();
        let prog = Program::parse(v["replay"]["program"].as_str().unwrap());
        let sched: Vec<u8> = v["replay"]["schedule"].as_array().unwrap().iter().map(|x| x.as_u64().unwrap() as u8).collect();
        let cfg = vsched::Config { record_trace: true, ..vsched::Config::default() };
        let r = vsched::run_one(&cfg, &sched, &move || execution(&prog));
        println!("outcome={} detail={} observation={:?}\ntrace={:?}", r.outcome, r.detail, r.observation, r.trace);
        std::process::exit(0);
    }
    let mut jobs = Vec::new();
    for (p, b) in &progs {
        let b = bound_override.clone().unwrap_or_else(|| b.clone());
        // a single default execution needs no sharding
        let nshards = if b == "d0" { 1 } else { 8 };
        for s in 0..nshards {
            jobs.push(format!("{}|{}|{}|{}", p.name(), s, nshards, b));
        }
    }
    let timeout = Duration::from_secs(if thorough { 3000 } else { 300 });
    let results = vcommon::run_jobs(&jobs, vcommon::default_parallelism(), timeout);
    let mut per_prog: BTreeMap<String, (u64, u64, BTreeMap<String, u64>)> = BTreeMap::new();
    for (job, r) in jobs.iter().zip(&results) {
        let name = job.split('|').next().unwrap().to_string();
        let Some(v) = r.result_json() else {
            if r.timed_out {
                c.cap_hit(&format!("shard {job} did not finish in {}s", timeout.as_secs()));
                continue;
            }
            c.engine_failure(&format!("runner for {job} produced no result: {}", r.stderr.chars().rev().take(300).collect::<String>().chars().rev().collect::<String>()));
        };
        if let Some(e) = v.get("engine_error").and_then(Value::as_str) {
            c.engine_failure(e);
        }
        if let Some(errs) = v["engine_errors"].as_array() {
            if let Some(e) = errs.first() {
                c.engine_failure(&format!("{name}: {e}"));
            }
        }
        let e = per_prog.entry(name.clone()).or_default();
        e.0 += v["executions"].as_u64().unwrap_or(0);
        e.1 += v["steps"].as_u64().unwrap_or(0);
        for (k, n) in v["outcomes"].as_object().into_iter().flatten() {
            *e.2.entry(k.clone()).or_default() += n.as_u64().unwrap_or(0);
        }
        for viol in v["violations"].as_array().into_iter().flatten() {
            c.violation(
                viol["key"].as_str().unwrap(),
                &format!("{name}: {} ({} schedules)", viol["msg"].as_str().unwrap_or(""), viol["count"]),
                json!({"program": name, "schedule": viol["schedule"], "bound": bound}),
            );
        }
    }
    let mut multi = 0;
    for (name, (execs, steps, outs)) in &per_prog {
        c.evaluations += 1;
        c.states += execs;
        c.transitions += steps;
        c.traces_validated += execs;
        c.distinct_hash(vcommon::hash_str(name));
        if outs.len() > 1 {
            multi += 1;
        }
        for (k, n) in outs {
            c.outcome_n(k, *n);
        }
        if c.samples.len() < 4 {
            c.sample(json!({"program": name, "schedules": execs, "scheduling_steps": steps, "outcomes": outs}));
        }
    }
    c.rule = format!(
        "programs = fake hardware (1-2 processors) x workers_per_processor (1-2) x 1-2 spawner threads (each pinned to a processor, 1-2 of spawn/spawn_urgent/spawn_and_forget, then awaits its handles) x {{pool dropped after the spawners were joined | pool dropped concurrently while spawners hold scheduler clones}}; for each program every schedule of all threads (incl. the pool's own workers) within the program's bound (bounds used: {bound}; 'n' = at most n preemptions with all free choices explored, 'dn' = at most n deviations of any kind from the default schedule, used for programs with five or more threads) over the hook points; states = schedules executed, transitions = scheduling steps"
    );
    c.extra.insert("programs".into(), json!(progs.len()));
    c.extra.insert("preemption_bound".into(), json!(bound));
    c.extra.insert("programs_with_several_outcomes".into(), json!(multi));
    c.assumptions.push("sequentially consistent interleavings at the hook points (before each lock / atomic / notify of the anchored functions); code between two points is atomic".into());
    c.assumptions.push("third-party event-listener and the events_once result channel run unmodelled inside one scheduling step".into());
    if multi == 0 {
        c.engine_failure("no program showed more than one outcome (vacuous exploration)");
    }
    c.finish();
}

//! PART A — bounded exhaustive exploration of sequential histories on real OS threads.
//!
//! One history = a list of operations executed one at a time by a controller (the main thread of
//! a freshly forked process) that hands each operation to the worker thread it belongs to and
//! waits for the answer. Worker threads are real, the events are `thread_local!` statics exactly
//! as the `nm` documentation recommends, `Exit` really ends the OS thread (the controller joins
//! it, so the TLS destructors — where `nm` archives the thread's data — have run).
//!
//! Isolation between histories: the `nm` registries are process-global and keyed by event name.
//! A fork per history would be the obvious isolation, but a bare fork+wait costs 25-95 ms on this
//! virtual machine (measured), which would cap the whole tier at a few thousand histories. So a
//! shard process runs its histories back to back and every history gets its own two event names
//! (`h<n>.pull`, `h<n>.push`, read by the thread-local initialisers of that history's fresh worker
//! threads). The names are brand new, so the history's entries in a report are compared
//! *absolutely* (no deltas); all its worker threads have exited when the next history starts; a
//! shard process holds at most ~250 histories so the registry stays small (Report::collect gets
//! sharply slower with many names: it re-inserts one fixed-seed HashMap into another in iteration
//! order; measured 0.18 ms per report at ~640 names, 3 ms at ~1300). Whenever a history fails, it
//! is re-run alone in a freshly forked process and the verdict says whether it reproduces there.

use std::collections::BTreeMap;
use std::io::Read;
use std::sync::OnceLock;
use std::sync::atomic::{AtomicU64, Ordering::SeqCst};
use std::sync::mpsc::{Receiver, Sender, channel};
use std::time::{Duration, Instant};

use nm::{Event, MetricsPusher, Push};
use vcommon::serde_json::{self, Value, json};

use crate::model::{Agg, SeenReport, bounds_of, collect_report, compare_exact, sweep_magnitudes};

/// Number of the history being executed; part of the event names its worker threads create.
pub static HIST_ID: AtomicU64 = AtomicU64::new(0);

pub fn pull_name(id: u64) -> String {
    format!("h{id}.pull")
}
pub fn push_name(id: u64) -> String {
    format!("h{id}.push")
}

/// Bucket bounds of the two events of this process (set once, before any thread touches them).
pub static BOUNDS: OnceLock<&'static [i64]> = OnceLock::new();

fn bounds() -> &'static [i64] {
    BOUNDS.get().expect("BOUNDS set before the events are used")
}

thread_local! {
    pub static PUSHER: MetricsPusher = MetricsPusher::new();
    pub static PULL: Event = Event::builder().name(pull_name(HIST_ID.load(SeqCst))).histogram(bounds()).build();
    pub static PUSHED: Event<Push> = Event::builder().name(push_name(HIST_ID.load(SeqCst))).histogram(bounds()).pusher_local(&PUSHER).build();
}

#[derive(Clone, Copy, Debug, PartialEq, Eq)]
pub enum Op {
    /// start a worker thread in this slot
    New(u8),
    /// the worker thread of this slot ends (joined; TLS destructors have run)
    Exit(u8),
    /// `count` observations of `m` on the pull / push event, on this slot's thread
    Obs { slot: u8, push: bool, count: u8, m: i64 },
    /// `MetricsPusher::push()` on this slot's thread
    Push(u8),
    /// `Report::collect()` on the controller thread, compared with the reference
    Report,
}

pub fn op_to_string(op: &Op) -> String {
    match op {
        Op::New(s) => format!("N{s}"),
        Op::Exit(s) => format!("X{s}"),
        Op::Push(s) => format!("P{s}"),
        Op::Report => "R".into(),
        Op::Obs { slot, push, count, m } => format!("O{slot}/{}/{count}/{m}", if *push { "push" } else { "pull" }),
    }
}

pub fn history_to_string(h: &[Op]) -> String {
    h.iter().map(op_to_string).collect::<Vec<_>>().join(" ")
}

pub fn parse_history(s: &str) -> Vec<Op> {
    s.split_whitespace()
        .map(|t| {
            let slot = || t[1..2].parse::<u8>().expect("slot");
            match &t[..1] {
                "N" => Op::New(slot()),
                "X" => Op::Exit(slot()),
                "P" => Op::Push(slot()),
                "R" => Op::Report,
                "O" => {
                    let p: Vec<&str> = t.split('/').collect();
                    Op::Obs { slot: p[0][1..].parse().expect("slot"), push: p[1] == "push", count: p[2].parse().expect("count"), m: p[3].parse().expect("m") }
                }
                _ => panic!("bad op {t}"),
            }
        })
        .collect()
}

// ------------------------------------------------------------------------------------------
// Executing one history on the real code (inside the forked process)
// ------------------------------------------------------------------------------------------

enum Cmd {
    Obs { push: bool, count: u8, m: i64 },
    Push,
    Exit,
}

struct Worker {
    tx: Sender<Cmd>,
    rx: Receiver<Result<(), String>>,
    handle: std::thread::JoinHandle<()>,
}

fn observe<P: nm::PublishModel>(e: &Event<P>, count: u8, m: i64) {
    // every public spelling of an observation: observe_once / observe / batch(n).observe_once / batch(n).observe
    match (count, m) {
        (1, 1) => e.observe_once(),
        (1, _) => e.observe(m),
        (_, 1) => e.batch(usize::from(count)).observe_once(),
        _ => e.batch(usize::from(count)).observe(m),
    }
}

fn worker_main(rx: Receiver<Cmd>, tx: Sender<Result<(), String>>) {
    while let Ok(cmd) = rx.recv() {
        let r = std::panic::catch_unwind(|| match cmd {
            Cmd::Obs { push: false, count, m } => PULL.with(|e| observe(e, count, m)),
            Cmd::Obs { push: true, count, m } => PUSHED.with(|e| observe(e, count, m)),
            Cmd::Push => PUSHER.with(MetricsPusher::push),
            Cmd::Exit => {}
        })
        .map_err(|p| vcommon::panic_message(&*p));
        let exit = matches!(cmd, Cmd::Exit);
        let _ = tx.send(r);
        if exit {
            return;
        }
    }
}

/// Reference state of one history.
struct SeqModel {
    bounds: &'static [i64],
    pull: Agg,
    local: [Option<Agg>; 2],
    published: [Option<Agg>; 2],
    archived_push: Agg,
}

impl SeqModel {
    fn expected_push(&self) -> Agg {
        let mut a = self.archived_push.clone();
        for p in self.published.iter().flatten() {
            a.merge(p);
        }
        a
    }
    fn unpublished(&self) -> bool {
        (0..2).any(|s| match (&self.local[s], &self.published[s]) {
            (Some(l), Some(p)) => l != p,
            _ => false,
        })
    }
}

pub struct Violation {
    pub key: String,
    pub msg: String,
    pub step: usize,
}

#[derive(Default)]
pub struct ExecStats {
    pub ops: u64,
    pub reports: u64,
    /// anti-vacuity classes seen in this history
    pub classes: Vec<&'static str>,
}

fn is_earlier_name(name: &str, id: u64) -> bool {
    let Some(rest) = name.strip_prefix('h') else { return false };
    let Some((n, kind)) = rest.split_once('.') else { return false };
    (kind == "pull" || kind == "push") && n.parse::<u64>().is_ok_and(|n| n < id)
}

/// The tail appended to every history: report, end every live worker, report again.
pub fn with_tail(h: &[Op]) -> Vec<Op> {
    let mut alive = [false; 2];
    for op in h {
        match op {
            Op::New(s) => alive[usize::from(*s)] = true,
            Op::Exit(s) => alive[usize::from(*s)] = false,
            _ => {}
        }
    }
    let mut v = h.to_vec();
    v.push(Op::Report);
    for s in 0..2_u8 {
        if alive[usize::from(s)] {
            v.push(Op::Exit(s));
        }
    }
    v.push(Op::Report);
    v
}

/// Run `full` (history + tail) on the real code, step by step against the reference.
pub fn execute(cfg: &str, id: u64, full: &[Op], mut on_report: impl FnMut(usize, &SeenReport)) -> Result<ExecStats, Violation> {
    let b = bounds();
    HIST_ID.store(id, SeqCst);
    let (pull_name, push_name) = (pull_name(id), push_name(id));
    let mine = format!("h{id}.");
    let mut model = SeqModel { bounds: b, pull: Agg::new(b), local: [None, None], published: [None, None], archived_push: Agg::new(b) };
    let mut workers: [Option<Worker>; 2] = [None, None];
    let mut stats = ExecStats::default();
    let class = |c: &'static str, st: &mut ExecStats| {
        if !st.classes.contains(&c) {
            st.classes.push(c);
        }
    };
    for (step, op) in full.iter().enumerate() {
        stats.ops += 1;
        let call = |w: &Worker, cmd: Cmd, what: &str| -> Result<(), Violation> {
            w.tx.send(cmd).expect("worker alive");
            match w.rx.recv() {
                Ok(Ok(())) => Ok(()),
                Ok(Err(p)) => Err(Violation { key: format!("seq:panic-in-{what}:{cfg}"), msg: format!("{what} panicked: {p}"), step }),
                Err(_) => Err(Violation { key: format!("seq:worker-died-in-{what}:{cfg}"), msg: format!("worker thread died during {what}"), step }),
            }
        };
        match *op {
            Op::New(s) => {
                let (tx, rx_w) = channel::<Cmd>();
                let (tx_w, rx) = channel::<Result<(), String>>();
                let handle = std::thread::Builder::new().name(format!("w{s}")).spawn(move || worker_main(rx_w, tx_w)).expect("spawn worker");
                workers[usize::from(s)] = Some(Worker { tx, rx, handle });
                model.local[usize::from(s)] = Some(Agg::new(b));
                model.published[usize::from(s)] = Some(Agg::new(b));
            }
            Op::Exit(s) => {
                let w = workers[usize::from(s)].take().expect("slot alive");
                call(&w, Cmd::Exit, "exit")?;
                if w.handle.join().is_err() {
                    return Err(Violation { key: format!("seq:panic-in-thread-teardown:{cfg}"), msg: "worker thread panicked while its thread-locals were destroyed".into(), step });
                }
                let p = model.published[usize::from(s)].take().expect("slot alive");
                if p.count > 0 {
                    class("exited-thread-with-published-push-data", &mut stats);
                }
                model.archived_push.merge(&p);
                model.local[usize::from(s)] = None;
            }
            Op::Obs { slot, push, count, m } => {
                let w = workers[usize::from(slot)].as_ref().expect("slot alive");
                call(w, Cmd::Obs { push, count, m }, if push { "observe(push-event)" } else { "observe(pull-event)" })?;
                if push {
                    model.local[usize::from(slot)].as_mut().expect("slot alive").observe(model.bounds, m, u64::from(count));
                } else {
                    model.pull.observe(model.bounds, m, u64::from(count));
                }
            }
            Op::Push(s) => {
                let w = workers[usize::from(s)].as_ref().expect("slot alive");
                call(w, Cmd::Push, "push")?;
                let l = model.local[usize::from(s)].clone();
                if l == model.published[usize::from(s)] {
                    class("idle-push", &mut stats);
                }
                model.published[usize::from(s)] = l;
            }
            Op::Report => {
                stats.reports += 1;
                let seen = match std::panic::catch_unwind(collect_report) {
                    Ok(r) => r,
                    Err(p) => {
                        return Err(Violation { key: format!("seq:panic-in-report:{cfg}"), msg: format!("Report::collect panicked: {}", vcommon::panic_message(&*p)), step });
                    }
                };
                // only this history's names are compared; everything else must be a leftover of an
                // earlier history of this shard (h<smaller n>.pull / .push)
                let (seen, others): (SeenReport, SeenReport) = seen.into_iter().partition(|(k, _)| k.starts_with(&mine));
                if let Some(o) = others.keys().find(|k| !is_earlier_name(k, id)) {
                    return Err(Violation { key: format!("seq:phantom-event:{cfg}"), msg: format!("report lists an event nobody created: {o}"), step });
                }
                on_report(step, &seen);
                let exp_push = model.expected_push();
                for (kind, name, exp) in [("pull", &pull_name, &model.pull), ("push", &push_name, &exp_push)] {
                    if let Some((field, msg)) = compare_exact(model.bounds, exp, seen.get(name.as_str())) {
                        return Err(Violation { key: format!("seq:{kind}-event:{field}:{cfg}"), msg: format!("report at step {step}: {kind} event {msg}"), step });
                    }
                }
                if let Some(other) = seen.keys().find(|k| **k != pull_name && **k != push_name) {
                    return Err(Violation { key: format!("seq:phantom-event:{cfg}"), msg: format!("report lists an event nobody created: {other}"), step });
                }
                // anti-vacuity classes
                if model.unpublished() {
                    class("report-while-push-data-unpublished", &mut stats);
                }
                if model.archived_push.count > 0 {
                    class("report-includes-archived-push-data", &mut stats);
                }
                let exited_pull = model.pull.count > 0 && workers.iter().all(Option::is_none);
                if exited_pull {
                    class("report-after-all-observers-exited", &mut stats);
                }
                if exp_push.count > 0 {
                    class("report-includes-published-push-data", &mut stats);
                }
                for a in [&model.pull, &exp_push] {
                    if let Some(last) = a.buckets.last() {
                        if *last > 0 {
                            class("plus-infinity-bucket-nonzero", &mut stats);
                        }
                        if a.buckets.len() > 64 && a.buckets[63..a.buckets.len() - 1].iter().any(|c| *c > 0) {
                            class("bucket-index>=63-nonzero", &mut stats);
                        }
                    }
                    if !a.sum_checkable() {
                        class("extreme-magnitude-sum-not-compared", &mut stats);
                    }
                }
            }
        }
    }
    Ok(stats)
}

// ------------------------------------------------------------------------------------------
// One history alone in a brand-new process (confirmation of a failure / pinpointing a crash)
// ------------------------------------------------------------------------------------------

pub enum ForkResult {
    Ok { ops: u64, reports: u64, classes: Vec<String> },
    Violation { key: String, msg: String, step: usize },
    Crashed { status: i32 },
    Stuck,
}

/// Child side of `run_isolated`: job = "A|one|<cfg>|<history>".
pub fn child_one(parts: &[&str]) -> Value {
    let cfg = parts[2];
    let b: &'static [i64] = Box::leak(bounds_of(cfg).into_boxed_slice());
    let _ = BOUNDS.set(b);
    let full = with_tail(&parse_history(parts[3]));
    match execute(cfg, 0, &full, |_, _| {}) {
        Ok(st) => json!({"ok": true, "ops": st.ops, "reports": st.reports, "classes": st.classes}),
        Err(v) => json!({"ok": false, "key": v.key, "msg": v.msg, "step": v.step}),
    }
}

/// Re-execute the current binary for exactly one history (fresh statics, fresh registries).
pub fn run_isolated(cfg: &str, history: &[Op]) -> ForkResult {
    let exe = std::env::current_exe().expect("current_exe");
    let mut child = std::process::Command::new(exe)
        .env("VERIF_JOB", format!("A|one|{cfg}|{}", history_to_string(history)))
        .stdin(std::process::Stdio::null())
        .stdout(std::process::Stdio::piped())
        .stderr(std::process::Stdio::null())
        .spawn()
        .expect("spawn isolated history");
    let start = Instant::now();
    loop {
        match child.try_wait() {
            Ok(Some(_)) => break,
            Ok(None) if start.elapsed() > Duration::from_secs(30) => {
                let _ = child.kill();
                let _ = child.wait();
                return ForkResult::Stuck;
            }
            Ok(None) => std::thread::sleep(Duration::from_millis(2)),
            Err(_) => break,
        }
    }
    let mut out = String::new();
    if let Some(mut o) = child.stdout.take() {
        let _ = o.read_to_string(&mut out);
    }
    let status = child.wait().ok();
    let parsed = out.lines().rev().find_map(|l| l.strip_prefix("@@RESULT ")).and_then(|t| serde_json::from_str::<Value>(t).ok());
    match parsed {
        Some(v) if v["ok"] == json!(true) => ForkResult::Ok {
            ops: v["ops"].as_u64().unwrap_or(0),
            reports: v["reports"].as_u64().unwrap_or(0),
            classes: v["classes"].as_array().map(|a| a.iter().filter_map(|x| x.as_str().map(String::from)).collect()).unwrap_or_default(),
        },
        Some(v) => ForkResult::Violation {
            key: v["key"].as_str().unwrap_or("?").to_string(),
            msg: v["msg"].as_str().unwrap_or("").to_string(),
            step: v["step"].as_u64().unwrap_or(0) as usize,
        },
        None => {
            use std::os::unix::process::ExitStatusExt;
            ForkResult::Crashed { status: status.map_or(-1, |s| s.signal().unwrap_or_else(|| s.code().unwrap_or(-1))) }
        }
    }
}

// ------------------------------------------------------------------------------------------
// Enumeration
// ------------------------------------------------------------------------------------------

/// Observation variants (batch size, magnitude) used in the full history enumeration of a
/// configuration: batch sizes 1, 2 and 0, magnitudes on two different interesting buckets.
pub fn history_variants(cfg: &str) -> Vec<(u8, i64)> {
    let b = bounds_of(cfg);
    match cfg {
        // observe_once; a negative magnitude in a batch; an empty batch
        "none" => vec![(1, 1), (2, -7), (0, 1)],
        // on the only bound; just above it (overflow bucket); an empty batch
        "b1" => vec![(1, 0), (2, 1), (0, 0)],
        // on the first and on the last bound (two explicit buckets, so that a push has to carry both)
        "b3" => vec![(1, -5), (2, 10), (0, 0)],
        // 63 buckets: last explicit bucket (index 62) and the overflow bucket
        "b63" => vec![(1, b[62]), (2, b[62] + 1), (0, 0)],
        // 64 buckets: index 62 and index 63
        "b64" => vec![(1, b[62]), (2, b[63]), (0, 0)],
        // 65 buckets: index 63 and index 64 (both beyond the 63 individually tracked ones)
        "b65" => vec![(1, b[63]), (2, b[64]), (0, 0)],
        // 70 buckets: index 0 and index 69
        "b70" => vec![(1, b[0]), (2, b[69]), (0, 0)],
        _ => panic!("no history variants for {cfg}"),
    }
}

/// Every history of length <= depth: `New` fills the lowest free slot (the two slots are
/// interchangeable), operations only on live slots, never two `Report`s in a row.
pub fn enumerate(variants: &[(u8, i64)], depth: usize, f: &mut dyn FnMut(&[Op])) {
    fn rec(variants: &[(u8, i64)], depth: usize, hist: &mut Vec<Op>, alive: [bool; 2], f: &mut dyn FnMut(&[Op])) {
        f(hist);
        if hist.len() == depth {
            return;
        }
        let mut next: Vec<(Op, [bool; 2])> = Vec::new();
        if hist.last() != Some(&Op::Report) {
            next.push((Op::Report, alive));
        }
        if let Some(s) = (0..2).find(|s| !alive[*s]) {
            let mut a = alive;
            a[s] = true;
            next.push((Op::New(s as u8), a));
        }
        for s in 0..2_usize {
            if !alive[s] {
                continue;
            }
            for push in [false, true] {
                for (count, m) in variants {
                    next.push((Op::Obs { slot: s as u8, push, count: *count, m: *m }, alive));
                }
            }
            next.push((Op::Push(s as u8), alive));
            let mut a = alive;
            a[s] = false;
            next.push((Op::Exit(s as u8), a));
        }
        for (op, a) in next {
            hist.push(op);
            rec(variants, depth, hist, a, f);
            hist.pop();
        }
    }
    rec(variants, depth, &mut Vec::new(), [false, false], f);
}

/// Single-step and two-step sweeps of one configuration (each case is a short history).
pub fn sweep_cases(cfg: &str) -> Vec<Vec<Op>> {
    let b = bounds_of(cfg);
    let mags = sweep_magnitudes(&b);
    let mut v = Vec::new();
    // single step: every boundary magnitude x batch size {0,1,2} x {pull, push(+push())}
    for push in [false, true] {
        for &m in &mags {
            for count in [0_u8, 1, 2] {
                let mut h = vec![Op::New(0), Op::Obs { slot: 0, push, count, m }];
                if push {
                    h.push(Op::Push(0));
                }
                v.push(h);
            }
        }
    }
    // two steps: every ordered pair of boundary magnitudes; for the push event with a push()
    // after each (the second push must carry the first bucket along and update the second)
    if !b.is_empty() {
        for push in [false, true] {
            for &m1 in &mags {
                for &m2 in &mags {
                    let mut h = vec![Op::New(0), Op::Obs { slot: 0, push, count: 1, m: m1 }];
                    if push {
                        h.push(Op::Push(0));
                    }
                    h.push(Op::Obs { slot: 0, push, count: 2, m: m2 });
                    if push {
                        h.push(Op::Push(0));
                    }
                    v.push(h);
                }
            }
        }
    }
    v
}

// ------------------------------------------------------------------------------------------
// run_jobs child: one shard of one configuration
// ------------------------------------------------------------------------------------------

/// Keep every thread of this process on one processor: the controller / worker hand-over is then
/// a local context switch instead of a cross-processor wake-up (hundreds of microseconds here).
fn pin_to_one_cpu() {
    // SAFETY: plain libc calls on zeroed cpu_set_t values owned by this frame.
    unsafe {
        let mut allowed: libc::cpu_set_t = std::mem::zeroed();
        if libc::sched_getaffinity(0, size_of::<libc::cpu_set_t>(), &mut allowed) == 0 {
            let cpus: Vec<usize> = (0..libc::CPU_SETSIZE as usize).filter(|&i| libc::CPU_ISSET(i, &allowed)).collect();
            if !cpus.is_empty() {
                let slot = std::env::var("VERIF_JOB_SLOT").ok().and_then(|v| v.parse::<usize>().ok()).unwrap_or(libc::getpid() as usize);
                let mut one: libc::cpu_set_t = std::mem::zeroed();
                libc::CPU_SET(cpus[slot % cpus.len()], &mut one);
                libc::sched_setaffinity(0, size_of::<libc::cpu_set_t>(), &one);
            }
        }
    }
}

/// job = "A|hist|<cfg>|<depth>|<shard>|<nshards>[|fork]"  or  "A|sweep|<cfg>|0|<shard>|<nshards>[|fork]"
/// With the `fork` suffix every history runs alone in a brand-new process (used to pinpoint a
/// history that kills its process).
pub fn child(parts: &[&str]) -> Value {
    let mode = parts[1];
    let cfg = parts[2];
    let b: &'static [i64] = Box::leak(bounds_of(cfg).into_boxed_slice());
    let (depth, shard, nshards): (usize, usize, usize) = (parts[3].parse().unwrap(), parts[4].parse().unwrap(), parts[5].parse().unwrap());
    let fork_each = parts.get(6) == Some(&"fork");
    let _ = BOUNDS.set(b);
    if std::env::var_os("C16_NO_PIN").is_none() {
        pin_to_one_cpu();
    }
    let mut histories = 0_u64;
    let mut ops = 0_u64;
    let mut reports = 0_u64;
    let mut max_len = 0_usize;
    let mut total_enumerated = 0_u64;
    let mut classes: BTreeMap<String, u64> = BTreeMap::new();
    let mut violations: BTreeMap<String, (String, String, u64)> = BTreeMap::new();
    let mut engine_errors: Vec<String> = Vec::new();
    let mut sample: Option<String> = None;
    let mut idx = 0_u64;
    let mut run = |h: &[Op]| {
        let mine = idx % nshards as u64 == shard as u64;
        idx += 1;
        total_enumerated += 1;
        if !mine {
            return;
        }
        histories += 1;
        max_len = max_len.max(h.len());
        let full = with_tail(h);
        let first = if fork_each {
            run_isolated(cfg, h)
        } else {
            match execute(cfg, histories, &full, |_, _| {}) {
                Ok(st) => ForkResult::Ok { ops: st.ops, reports: st.reports, classes: st.classes.iter().map(|s| (*s).to_string()).collect() },
                Err(v) => ForkResult::Violation { key: v.key, msg: v.msg, step: v.step },
            }
        };
        match first {
            ForkResult::Ok { ops: o, reports: r, classes: cl } => {
                ops += o;
                reports += r;
                for c in cl {
                    *classes.entry(c).or_default() += 1;
                }
                *classes.entry("history-ok".into()).or_default() += 1;
                if h.len() >= 4 && sample.is_none() && matches!(h.last(), Some(Op::Report)) {
                    sample = Some(history_to_string(&full));
                }
            }
            ForkResult::Violation { key, msg, step } => {
                // confirm in isolation (first witness of each class): the same history alone in a brand-new process
                let isolated = if fork_each {
                    "alone in a fresh process"
                } else if violations.contains_key(&key) {
                    "same failure class as an earlier history of this shard (not re-run alone)"
                } else {
                    match run_isolated(cfg, h) {
                        ForkResult::Violation { key: k2, .. } if k2 == key => "reproduced alone in a fresh process",
                        ForkResult::Violation { .. } => "alone in a fresh process it fails differently",
                        ForkResult::Ok { .. } => "NOT reproduced alone in a fresh process (depends on earlier histories of the shard)",
                        ForkResult::Crashed { .. } => "alone in a fresh process the process dies",
                        ForkResult::Stuck => "alone in a fresh process it hangs",
                    }
                };
                let key = if isolated.starts_with("NOT") { format!("{key}:context-dependent") } else { key };
                *classes.entry(format!("VIOLATION {key}")).or_default() += 1;
                let e = violations
                    .entry(key)
                    .or_insert((format!("[{cfg}] {} :: {msg} [{isolated}]", history_to_string(&full[..=step.min(full.len() - 1)])), history_to_string(h), 0));
                e.2 += 1;
            }
            ForkResult::Crashed { status } => {
                // a deterministic single-actor history that kills its process is a verdict about
                // the code under test (nm_impl indexes buckets with get_unchecked)
                let key = format!("seq:process-died:{cfg}");
                *classes.entry(format!("VIOLATION {key}")).or_default() += 1;
                let e = violations.entry(key).or_insert((format!("[{cfg}] {} :: process died, wait status {status:#x}", history_to_string(&full)), history_to_string(h), 0));
                e.2 += 1;
            }
            ForkResult::Stuck => engine_errors.push(format!("history did not finish in 20 s: [{cfg}] {}", history_to_string(h))),
        }
    };
    if mode == "hist" {
        enumerate(&history_variants(cfg), depth, &mut run);
    } else {
        for h in sweep_cases(cfg) {
            run(&h);
        }
    }
    json!({
        "mode": mode, "cfg": cfg, "depth": depth,
        "enumerated": total_enumerated, "histories": histories, "ops": ops, "reports": reports, "max_len": max_len,
        "classes": classes, "engine_errors": engine_errors, "sample": sample,
        "violations": violations.iter().map(|(k, (m, h, n))| json!({"key": k, "msg": m, "history": h, "count": n, "cfg": cfg})).collect::<Vec<_>>(),
    })
}

/// Number of histories of a configuration up to a depth (pure enumeration, no execution).
pub fn count_histories(cfg: &str, depth: usize) -> u64 {
    let mut n = 0_u64;
    enumerate(&history_variants(cfg), depth, &mut |_| n += 1);
    n
}

/// Replay one history in this (fresh) process, printing every report.
pub fn replay(cfg: &str, history: &str) {
    let b: &'static [i64] = Box::leak(bounds_of(cfg).into_boxed_slice());
    let _ = BOUNDS.set(b);
    let full = with_tail(&parse_history(history));
    println!("config {cfg}: {} buckets; history (with tail): {}", b.len(), history_to_string(&full));
    let r = execute(cfg, 0, &full, |step, seen| {
        for (name, s) in seen {
            let nz: Vec<String> = s.hist.iter().flatten().enumerate().filter(|(_, (_, c))| *c > 0).map(|(i, (m, c))| format!("[{i}]<={m}:{c}")).collect();
            println!("  step {step} report: {name}: count {} sum {} mean {} nonzero buckets {nz:?}", s.count, s.sum, s.mean);
        }
    });
    match r {
        Ok(_) => println!("history held"),
        Err(v) => println!("VIOLATION key={} step={} {}", v.key, v.step, v.msg),
    }
}

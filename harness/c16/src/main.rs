//! C16 — metrics reports account for every observation exactly once (`nm` / `nm_impl`).
//!
//! PART A (`seq.rs`): bounded exhaustive exploration of sequential histories on real OS threads,
//! one forked process per history, compared with a reference aggregation after every report.
//! PART B (`sched.rs`): the concurrent clause under the baton scheduler (`vsched`): every schedule
//! of small observer / pusher / reporter programs up to a preemption bound.

mod model;
mod sched;
mod seq;

use std::collections::BTreeMap;
use std::time::Duration;

use vcommon::serde_json::{self, Value, json};
use vcommon::{Check, child_job, child_result};

/// (configuration, history depth) per tier for the full history enumeration.
fn history_plan(thorough: bool) -> Vec<(&'static str, usize)> {
    if let Ok(s) = std::env::var("C16_PLAN") {
        // e.g. C16_PLAN="b3:6,b65:5"
        return s
            .split(',')
            .map(|p| {
                let (c, d) = p.split_once(':').expect("cfg:depth");
                let c: &'static str = Box::leak(c.to_string().into_boxed_str());
                (c, d.parse().expect("depth"))
            })
            .collect();
    }
    if thorough {
        vec![("none", 6), ("b1", 6), ("b3", 6), ("b63", 6), ("b64", 6), ("b65", 6), ("b70", 6)]
    } else {
        vec![("none", 5), ("b1", 4), ("b3", 5), ("b63", 4), ("b64", 4), ("b65", 5), ("b70", 4)]
    }
}

fn main() {
    if let Some(job) = child_job() {
        vcommon::quiet_panics();
        // Children pin themselves (and, through vsched, their forked executions) to the processor
        // `VERIF_JOB_SLOT mod #cpus`. Every check on this machine does that with slots 0..n, so the
        // low-numbered processors are badly oversubscribed when several checks run at once (measured:
        // 7x slower). Shift our slots by a per-run offset chosen by the coordinator.
        if let (Ok(base), Ok(slot)) = (std::env::var("C16_CPU_BASE"), std::env::var("VERIF_JOB_SLOT")) {
            let shifted = base.parse::<usize>().unwrap_or(0) + slot.parse::<usize>().unwrap_or(0);
            // SAFETY: this process is still single-threaded here.
            unsafe { std::env::set_var("VERIF_JOB_SLOT", shifted.to_string()) };
        }
        let parts: Vec<&str> = job.split('|').collect();
        let v = match parts[0] {
            "A" if parts[1] == "one" => seq::child_one(&parts),
            "A" => seq::child(&parts),
            "B" => sched::child(&parts),
            _ => json!({"engine_errors": [format!("unknown job {job}")]}),
        };
        child_result(&v);
        return;
    }
    if let Ok(path) = std::env::var("VERIF_REPLAY") {
        let v: Value = serde_json::from_str(&std::fs::read_to_string(&path).expect("replay file")).expect("json");
        let r = &v["replay"];
        if r["part"] == json!("A") {
            seq::replay(r["cfg"].as_str().unwrap(), r["history"].as_str().unwrap());
        } else {
            sched::replay(r);
        }
        return;
    }
    let thorough = vcommon::is_thorough();
    let mut c = Check::new("C16", "model_checking");
    let par = vcommon::default_parallelism();
    let only = std::env::var("C16_ONLY").unwrap_or_default(); // "A" or "B" while developing

    // ---------------- job list ----------------
    let plan = history_plan(thorough);
    let mut jobs: Vec<String> = Vec::new();
    // the concurrent programs first: their shards are the longest jobs
    let sched_programs = sched::programs(thorough);
    if only != "A" {
        for (p, bound) in &sched_programs {
            let nshards = sched::nshards(*bound);
            for s in 0..nshards {
                jobs.push(format!("B|{p}|{s}|{nshards}|{bound}"));
            }
        }
    }
    if only != "B" {
        // deep enumerations first so that the long shards start early
        let mut p = plan.clone();
        p.sort_by_key(|(_, d)| std::cmp::Reverse(*d));
        for (cfg, depth) in &p {
            // at most ~250 histories per shard process: the process-global registry stays small
            let nshards = (seq::count_histories(cfg, *depth) as usize).div_ceil(250).max(1);
            for s in 0..nshards {
                jobs.push(format!("A|hist|{cfg}|{depth}|{s}|{nshards}"));
            }
        }
        for cfg in model::SWEEP_CONFIGS {
            let nshards = seq::sweep_cases(cfg).len().div_ceil(250).max(1);
            for s in 0..nshards {
                jobs.push(format!("A|sweep|{cfg}|0|{s}|{nshards}"));
            }
        }
    }
    let timeout = Duration::from_secs(if thorough { 3000 } else { 300 });
    let ncpu = std::thread::available_parallelism().map_or(1, std::num::NonZero::get);
    let base = if par >= ncpu { 0 } else { (std::process::id() as usize * 7) % ncpu };
    let results = vcommon::run_jobs_env(&jobs, par, timeout, &[("C16_CPU_BASE".to_string(), base.to_string())]);

    // ---------------- aggregation ----------------
    let mut seq_hist: BTreeMap<String, (u64, u64, u64, usize)> = BTreeMap::new(); // cfg -> histories, ops, reports, depth
    let mut seq_sweep: BTreeMap<String, (u64, u64)> = BTreeMap::new();
    let mut seq_classes: BTreeMap<String, u64> = BTreeMap::new();
    let mut sched_prog: BTreeMap<String, (u64, u64, usize, BTreeMap<String, u64>)> = BTreeMap::new();
    let mut samples_a: Vec<Value> = Vec::new();
    // (witness size, key, summary, replay): reported smallest witness first
    let mut found: Vec<(usize, String, String, Value)> = Vec::new();
    for (job, r) in jobs.iter().zip(&results) {
        let Some(v) = r.result_json() else {
            if r.timed_out {
                c.cap_hit(&format!("job {job} did not finish in {}s", timeout.as_secs()));
                continue;
            }
            c.engine_failure(&format!("job {job} produced no result (exit {:?}): {}", r.exit_code, tail(&r.stderr, 400)));
        };
        if let Some(e) = v["engine_errors"].as_array().and_then(|a| a.first()) {
            c.engine_failure(&format!("{job}: {e}"));
        }
        let parts: Vec<&str> = job.split('|').collect();
        if parts[0] == "A" {
            let cfg = parts[2].to_string();
            let (h, o, rp) = (v["histories"].as_u64().unwrap_or(0), v["ops"].as_u64().unwrap_or(0), v["reports"].as_u64().unwrap_or(0));
            if parts[1] == "hist" {
                let e = seq_hist.entry(cfg.clone()).or_default();
                e.0 += h;
                e.1 += o;
                e.2 += rp;
                e.3 = parts[3].parse().unwrap();
                if samples_a.len() < 3 {
                    if let Some(s) = v["sample"].as_str() {
                        samples_a.push(json!({"part": "A", "config": cfg, "history_with_tail": s}));
                    }
                }
            } else {
                let e = seq_sweep.entry(cfg.clone()).or_default();
                e.0 += h;
                e.1 += o;
            }
            c.evaluations += h;
            c.states += h;
            c.transitions += o;
            c.traces_validated += h;
            c.distinct_add(h); // every enumerated history / sweep case is distinct by construction
            for (k, n) in v["classes"].as_object().into_iter().flatten() {
                *seq_classes.entry(k.clone()).or_default() += n.as_u64().unwrap_or(0);
            }
            for viol in v["violations"].as_array().into_iter().flatten() {
                found.push((
                    viol["history"].as_str().unwrap_or("").split_whitespace().count(),
                    viol["key"].as_str().unwrap().to_string(),
                    format!("{} ({} histories in this shard)", viol["msg"].as_str().unwrap_or(""), viol["count"]),
                    json!({"part": "A", "cfg": viol["cfg"], "history": viol["history"]}),
                ));
            }
        } else {
            let name = parts[1].to_string();
            let e = sched_prog.entry(name.clone()).or_default();
            e.0 += v["executions"].as_u64().unwrap_or(0);
            e.1 += v["steps"].as_u64().unwrap_or(0);
            e.2 = parts[4].parse().unwrap();
            for (k, n) in v["outcomes"].as_object().into_iter().flatten() {
                *e.3.entry(k.clone()).or_default() += n.as_u64().unwrap_or(0);
            }
            for viol in v["violations"].as_array().into_iter().flatten() {
                found.push((
                    name.len() * 100 + viol["schedule"].as_array().map_or(0, Vec::len),
                    viol["key"].as_str().unwrap().to_string(),
                    format!("program {name}: {} ({} schedules in this shard)", viol["msg"].as_str().unwrap_or(""), viol["count"]),
                    json!({"part": "B", "program": name, "schedule": viol["schedule"], "bound": parts[4]}),
                ));
            }
        }
    }
    found.sort_by(|a, b| (a.0, &a.1).cmp(&(b.0, &b.1)));
    for (_, key, summary, replay) in &found {
        c.violation(key, summary, replay.clone());
    }
    for s in samples_a {
        c.sample(s);
    }
    for (k, n) in &seq_classes {
        c.outcome_n(&format!("A:{k}"), *n);
    }
    let mut multi = 0;
    for (name, (execs, steps, bound, outs)) in &sched_prog {
        c.evaluations += execs;
        c.states += execs;
        c.transitions += steps;
        c.traces_validated += execs;
        c.distinct_add(*execs); // every schedule of the DFS is a distinct choice sequence
        if outs.len() > 1 {
            multi += 1;
        }
        for (k, n) in outs {
            c.outcome_n(&format!("B:{}", if k.starts_with("VIOLATION") { k.as_str() } else { "distinct-report-sequences" }), if k.starts_with("VIOLATION") { *n } else { 1 });
        }
        if c.samples.len() < 6 {
            let mut o: Vec<(&String, &u64)> = outs.iter().collect();
            o.truncate(3);
            c.sample(json!({"part": "B", "program": name, "preemption_bound": bound, "schedules": execs, "scheduling_steps": steps, "distinct_observations": outs.len(), "some_observations": o}));
        }
    }

    // ---------------- anti-vacuity ----------------
    if only != "B" {
        for must in [
            "report-while-push-data-unpublished",
            "report-includes-archived-push-data",
            "report-after-all-observers-exited",
            "report-includes-published-push-data",
            "plus-infinity-bucket-nonzero",
            "bucket-index>=63-nonzero",
            "idle-push",
            "extreme-magnitude-sum-not-compared",
        ] {
            if !seq_classes.contains_key(must) {
                c.engine_failure(&format!("vacuous exploration: no history reached the situation '{must}'"));
            }
        }
    }
    if only != "A" && multi == 0 {
        c.engine_failure("vacuous exploration: no concurrent program showed more than one report sequence");
    }

    let plan_txt: Vec<String> = plan.iter().map(|(cfg, d)| format!("{cfg}:{d}")).collect();
    let bmax = sched_programs.iter().map(|(_, b)| *b).max().unwrap_or(0);
    c.rule = format!(
        "PART A (sequential, one forked process per history, two thread_local events 'pull' and 'push' with the same bucket configuration): \
(1) ALL histories up to length d over {{New (start worker thread, <=2 alive, lowest free slot), Exit (thread really ends, joined), Report (Report::collect on the controller), \
per live thread: Push (MetricsPusher::push), observe on pull / on push event with (batch,magnitude) in 3 variants per configuration: batch sizes 1 (observe/observe_once), 2 and 0 (batch(n)), \
magnitudes on two different interesting buckets}}, no two Reports in a row, every history followed by the tail [Report, Exit of every live worker, Report]; configuration:depth = {}; \
configurations none / 1 / 3 / 63 / 64 / 65 / 70 buckets, history magnitudes: b63 -> bucket 62 + overflow, b64 -> buckets 62,63, b65 -> buckets 63,64, b70 -> buckets 0,69. \
(2) complete single-step sweep: configurations {{none,b1,b3,b3x=[i64::MIN,0,i64::MAX-1],b63,b64,b65,b70}} x every boundary magnitude (bound-1,bound,bound+1 of first/last/63rd/64th bound, i64::MIN,-1,0,1,i64::MAX) x batch {{0,1,2}} x {{pull, push+push()}}; \
(3) two-step sweep: every ORDERED PAIR of boundary magnitudes, observe(m1)[,push()], batch(2).observe(m2)[,push()], for pull and push. \
Every report is compared exactly (event set, count, sum, mean, bucket bounds, every bucket incl. the +inf bucket); the sum/mean are compared only while sum(|m|*batch) fits i64 (the documented mathematics policy promises nothing beyond). \
PART B (concurrent, vsched, one forked process per schedule): programs {:?}; every schedule with at most the stated number of preemptions (max {bmax}) over the points before each registry lock acquisition and each atomic RMW/store of ObservationBagSync::insert / copy_from; harness threads end with descheduling enabled inside their TLS destructors. \
states = histories + schedules executed, transitions = operations + scheduling steps, every one replayed on the real code.",
        plan_txt.join(","),
        sched_programs.iter().map(|(p, b)| format!("{p}@{b}")).collect::<Vec<_>>()
    );
    c.extra.insert("partA_histories_per_config".into(), json!(seq_hist.iter().map(|(k, v)| (k.clone(), json!({"max_len": v.3, "histories": v.0, "operations": v.1, "reports_compared": v.2}))).collect::<BTreeMap<_, _>>()));
    c.extra.insert("partA_sweep_cases_per_config".into(), json!(seq_sweep.iter().map(|(k, v)| (k.clone(), json!({"cases": v.0, "operations": v.1}))).collect::<BTreeMap<_, _>>()));
    c.extra.insert("partB_schedules_per_program".into(), json!(sched_prog.iter().map(|(k, v)| (k.clone(), json!({"schedules": v.0, "steps": v.1, "preemption_bound": v.2, "distinct_observations": v.3.len()}))).collect::<BTreeMap<_, _>>()));
    c.extra.insert("partB_programs_with_several_outcomes".into(), json!(multi));
    c.assumptions.push("PART A: worker threads act one at a time (the controller hands over and waits); events are thread_local statics created lazily on first use; the controller thread only reports".into());
    c.assumptions.push("sums are compared only while the sum of |magnitude|*batch fits an i64: the crate's documented mathematics policy allows mangled data near the i64 boundaries; counts and bucket placement are compared for every magnitude incl. i64::MIN / i64::MAX".into());
    c.assumptions.push("PART B: sequentially consistent interleavings at the hook points; Report::collect holds the registry read lock for its whole snapshot, so a report is one atomic step between points (torn reads inside one snapshot are not modelled), Relaxed-ordering effects of weak memory are not modelled".into());
    c.finish();
}

fn tail(s: &str, n: usize) -> String {
    let v: Vec<char> = s.chars().collect();
    v[v.len().saturating_sub(n)..].iter().collect()
}

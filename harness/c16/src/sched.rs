//! PART B — the concurrent clause of C16 under the baton scheduler (`vsched`).
//!
//! A program is a handful of threads (observers / pushers / a reporter) started by the root; the
//! real `nm` code runs on real OS threads, one at a time, and may be descheduled at the
//! `cfg(folo_verif)` points inside `nm_impl` (before each registry lock acquisition, before each
//! atomic RMW of a pull-model observation, before each atomic store of a push). Every schedule
//! with at most N preemptions is executed in its own forked process.
//!
//! Harness threads are started through vsched's `before_spawn` / `thread_start` / `thread_exit`
//! API (not `vsched::spawn`): `thread_exit` is called from the destructor of a thread-local that
//! is registered FIRST and therefore destroyed LAST, so the thread is still an ordinary scheduled
//! thread while `nm`'s own thread-locals are destroyed — the point before the registry write lock
//! in the archive-on-exit path is a real preemption point (with `vsched::spawn` it would not be).
//!
//! Oracle, from the harness's own log (a global sequence, exact because one thread runs at a time):
//! for every report r and each event: lower(r) <= r <= upper(r) field by field (count, sum,
//! every bucket incl. the +inf bucket; all magnitudes are >= 0 here so every field is monotone),
//!   pull event:  lower = observations completed before r started, upper = observations started before r ended;
//!   push event:  lower = per thread, what it had observed at its last push() COMPLETED before r started,
//!                upper = per thread, what it had observed at its last push() STARTED before r ended;
//! reports that do not overlap in time are monotone; the report after all threads were joined is
//! exact; no deadlock.

use std::cell::Cell;
use std::collections::BTreeMap;
use std::sync::Mutex;
use std::sync::atomic::Ordering::SeqCst;
use std::time::Duration;

use nm::MetricsPusher;
use vcommon::serde_json::{Value, json};

use crate::model::{Agg, Seen, bounds_of, collect_report, compare_exact};
use crate::seq::{BOUNDS, HIST_ID, PULL, PUSHED, PUSHER, pull_name, push_name};

/// Shards per program (disjoint subtrees of the schedule tree).
pub fn nshards(bound: usize) -> usize {
    if bound >= 3 { 32 } else if bound == 2 { 8 } else { 2 }
}
const CFG: &str = "b2"; // bounds [10, 20]: 5 -> bucket 0, 15 -> bucket 1, 25 -> +inf bucket

#[derive(Clone, Copy, Debug, PartialEq, Eq)]
enum POp {
    /// PULL.observe(m)
    Pull(i64),
    /// PUSH.observe(m)
    Pushed(i64),
    /// MetricsPusher::push()
    Push,
    /// Report::collect()
    Report,
}

/// "L5,H15,P~R,R" = thread 1: pull-observe 5, push-event-observe 15, push(); thread 2: two reports
fn parse_program(s: &str) -> Vec<Vec<POp>> {
    s.split('~')
        .map(|t| {
            t.split(',')
                .map(|o| match &o[..1] {
                    "L" => POp::Pull(o[1..].parse().expect("m")),
                    "H" => POp::Pushed(o[1..].parse().expect("m")),
                    "P" => POp::Push,
                    "R" => POp::Report,
                    _ => panic!("bad program op {o}"),
                })
                .collect()
        })
        .collect()
}

/// (program, preemption bound)
pub fn programs(thorough: bool) -> Vec<(String, usize)> {
    if let Ok(s) = std::env::var("C16_PROGRAMS") {
        return s.split(';').map(|p| p.split_once('@').map(|(a, b)| (a.to_string(), b.parse().unwrap())).expect("prog@bound")).collect();
    }
    // One execution costs a fork plus three thread start-ups: 0.1-0.5 s on this virtual machine
    // (measured), so the quick tier affords roughly a thousand executions. The one-observation /
    // one-report program gets the deep bound, the longer programs one preemption less.
    let (deep, wide) = if thorough { (3, 2) } else { (2, 1) };
    let mut v = vec![
        // one pull observation (bucket 0) and exit || one report
        ("L5~R".to_string(), deep),
        // observer on the pull event (bucket 0, then +inf), exits; reporter takes two reports
        ("L5,L25~R,R".to_string(), wide),
        // the mixed program: pull observation, push-event observation, push(), exit
        ("L5,H15,P~R,R".to_string(), wide),
        // push event: observe, push, observe (other bucket), push, exit
        ("H5,P,H15,P~R,R".to_string(), wide),
        // two observers on the same pull event (racing registration, two archive merges) and a
        // reporter: four threads, so even the non-preemptive schedules are many
        ("L5~L15~R".to_string(), if thorough { 1 } else { 0 }),
    ];
    // In-snapshot points ("S:"): the reporter may be descheduled between its loads of count,
    // sum and each bucket of one bag while observers / pushers complete whole observations.
    v.push(("S:L5~R".to_string(), deep));
    v.push(("S:H5,P~R".to_string(), if thorough { 3 } else { 1 }));
    if thorough {
        v.push(("S:L5,L25~R,R".to_string(), 2));
        v.push(("S:L5,H15,P~R,R".to_string(), 2));
        v.push(("S:L5~L15~R".to_string(), 1));
        v.push(("H5,P~R".to_string(), deep));
        v.push(("L5~L15~R,R".to_string(), 1));
        v.push(("L5,L15,L25~R,R".to_string(), 2));
        v.push(("H5,P~H15,P~R,R".to_string(), 1));
        v.push(("H5,P,H25,P~L5~R,R".to_string(), 1));
    }
    v
}

// ---- per-execution log (fresh in every forked child) ----
#[derive(Clone, Debug)]
enum Ev {
    ObsStart { push: bool, m: i64 },
    ObsEnd { t: usize, push: bool, m: i64 },
    PushStart { t: usize },
    PushEnd { t: usize },
    RepStart { id: usize },
    RepEnd { id: usize, pull: Option<Seen>, push: Option<Seen> },
    Panic { t: usize, msg: String },
}

static LOG: Mutex<Vec<Ev>> = Mutex::new(Vec::new());
static NEXT_REPORT: std::sync::atomic::AtomicUsize = std::sync::atomic::AtomicUsize::new(0);

fn log(e: Ev) {
    LOG.lock().unwrap_or_else(|p| p.into_inner()).push(e);
}

fn take_report() {
    let id = NEXT_REPORT.fetch_add(1, SeqCst);
    log(Ev::RepStart { id });
    let mut seen = collect_report();
    let (pl, ps) = (seen.remove(&pull_name(0)), seen.remove(&push_name(0)));
    assert!(seen.is_empty(), "ORACLE[phantom-event] report lists events nobody created: {:?}", seen.keys().collect::<Vec<_>>());
    log(Ev::RepEnd { id, pull: pl, push: ps });
}

fn run_ops(t: usize, ops: &[POp]) {
    for op in ops {
        match *op {
            POp::Pull(m) => {
                log(Ev::ObsStart { push: false, m });
                PULL.with(|e| e.observe(m));
                log(Ev::ObsEnd { t, push: false, m });
            }
            POp::Pushed(m) => {
                log(Ev::ObsStart { push: true, m });
                PUSHED.with(|e| e.observe(m));
                log(Ev::ObsEnd { t, push: true, m });
            }
            POp::Push => {
                log(Ev::PushStart { t });
                PUSHER.with(MetricsPusher::push);
                log(Ev::PushEnd { t });
            }
            POp::Report => take_report(),
        }
    }
}

// ---- controlled threads whose TLS destructors are scheduled like any other code ----
struct ExitLast(Cell<bool>);
impl Drop for ExitLast {
    fn drop(&mut self) {
        if self.0.get() {
            vsched::thread_exit();
        }
    }
}
thread_local! {
    static EXIT_LAST: ExitLast = const { ExitLast(Cell::new(false)) };
}

struct Controlled {
    id: usize,
    os: std::thread::JoinHandle<()>,
}

fn spawn_controlled(name: &str, t: usize, ops: Vec<POp>) -> Controlled {
    let id = vsched::before_spawn(name);
    assert!(id != usize::MAX, "spawn_controlled outside a controlled execution");
    let os = std::thread::Builder::new()
        .name(name.to_string())
        .spawn(move || {
            // registered first => destroyed last: nm's thread-locals die while we are still scheduled
            EXIT_LAST.with(|g| g.0.set(true));
            vsched::thread_start(id);
            if let Err(p) = std::panic::catch_unwind(|| run_ops(t, &ops)) {
                log(Ev::Panic { t, msg: vcommon::panic_message(&*p) });
            }
        })
        .expect("spawn OS thread");
    vsched::point("harness:spawn");
    Controlled { id, os }
}

fn join_controlled(c: Controlled) {
    let id = c.id;
    vsched::block_until("harness:join", &mut || vsched::thread_finished(id));
    c.os.join().expect("controlled thread wrapper does not panic");
}

// ---- oracle ----
fn zero() -> Agg {
    Agg::new(BOUNDS.get().expect("bounds"))
}

fn seen_agg(s: &Option<Seen>) -> Agg {
    let b = BOUNDS.get().expect("bounds");
    match s {
        Some(s) => s.as_agg(b),
        None => Agg::new(b),
    }
}

fn render(a: &Agg) -> String {
    format!("c{} s{} b{:?}", a.count, a.sum, a.buckets)
}

/// Evaluate the whole log. Returns (observation string, oracle failures as (key, message)).
fn evaluate(nthreads: usize) -> (String, Vec<(String, String)>) {
    let b: &[i64] = BOUNDS.get().expect("bounds");
    let log = LOG.lock().unwrap_or_else(|p| p.into_inner()).clone();
    let mut fails: Vec<(String, String)> = Vec::new();
    let mut pull_started = zero();
    let mut pull_completed = zero();
    let mut local: Vec<Agg> = vec![zero(); nthreads + 1];
    let mut pub_lower: Vec<Agg> = vec![zero(); nthreads + 1];
    let mut pub_upper: Vec<Agg> = vec![zero(); nthreads + 1];
    let sum_of = |v: &Vec<Agg>| {
        let mut a = zero();
        for x in v {
            a.merge(x);
        }
        a
    };
    // report id -> (lower pull, lower push, seq of start)
    let mut lowers: BTreeMap<usize, (Agg, Agg, usize)> = BTreeMap::new();
    // finished reports: (id, start seq, end seq, pull seen, push seen)
    let mut done: Vec<(usize, usize, usize, Agg, Agg)> = Vec::new();
    let mut obs = Vec::new();
    for (seq, e) in log.iter().enumerate() {
        match e {
            Ev::ObsStart { push: false, m, .. } => pull_started.observe(b, *m, 1),
            Ev::ObsEnd { push: false, m, .. } => pull_completed.observe(b, *m, 1),
            Ev::ObsStart { push: true, .. } => {}
            Ev::ObsEnd { t, push: true, m } => local[*t].observe(b, *m, 1),
            Ev::PushStart { t } => pub_upper[*t] = local[*t].clone(),
            Ev::PushEnd { t } => pub_lower[*t] = local[*t].clone(),
            Ev::RepStart { id } => {
                lowers.insert(*id, (pull_completed.clone(), sum_of(&pub_lower), seq));
            }
            Ev::RepEnd { id, pull, push } => {
                let (lo_pull, lo_push, start) = lowers.remove(id).expect("report started");
                let (up_pull, up_push) = (pull_started.clone(), sum_of(&pub_upper));
                let (s_pull, s_push) = (seen_agg(pull), seen_agg(push));
                for (kind, lo, s, up) in [("pull-event", &lo_pull, &s_pull, &up_pull), ("push-event", &lo_push, &s_push, &up_push)] {
                    if let Some(f) = lo.le(s) {
                        fails.push((format!("sched:below-lower-bound:{kind}:{f}"), format!("report #{id} shows {kind} {{{}}} but {{{}}} was complete (published) before the report started", render(s), render(lo))));
                    }
                    // No bucket (the derived +inf bucket included) may show more than the number
                    // of observations that had been started at all: the transient over-count of
                    // the known finding is bounded by the in-flight observations, so it never
                    // reaches this class.
                    if let Some(i) = s.buckets.iter().position(|&x| x > up.count) {
                        let f = if i + 1 == s.buckets.len() { "plus-infinity-bucket".to_string() } else { format!("bucket[{i}]") };
                        fails.push((format!("sched:bucket-exceeds-started-count:{kind}:{f}"), format!("report #{id} shows {kind} {{{}}}: a bucket above the {} observations started (push started) before the report ended", render(s), up.count)));
                    }
                    if let Some(f) = s.le(up) {
                        fails.push((format!("sched:above-upper-bound:{kind}:{f}"), format!("report #{id} shows {kind} {{{}}} but only {{{}}} had been started (push started) before the report ended", render(s), render(up))));
                    }
                }
                // monotone w.r.t. every report that ended before this one started
                for (pid, _, pend, p_pull, p_push) in &done {
                    if *pend < start {
                        for (kind, prev, cur) in [("pull-event", p_pull, &s_pull), ("push-event", p_push, &s_push)] {
                            if let Some(f) = prev.le(cur) {
                                fails.push((format!("sched:not-monotone:{kind}:{f}"), format!("report #{pid} showed {kind} {{{}}}, the later report #{id} shows {{{}}}", render(prev), render(cur))));
                            }
                        }
                    }
                }
                obs.push(format!("r{id}[{} | {}]", render(&s_pull), render(&s_push)));
                done.push((*id, start, seq, s_pull, s_push));
            }
            Ev::Panic { t, msg } => {
                let kind = msg.strip_prefix("ORACLE[").and_then(|x| x.split(']').next()).unwrap_or("panic-in-thread");
                fails.push((format!("sched:{kind}"), format!("thread {t}: {msg}")));
            }
        }
    }
    (obs.join(" "), fails)
}

/// One execution: root starts the program's threads, joins them, takes the final (exact) report.
fn execution(prog: &[Vec<POp>]) -> String {
    HIST_ID.store(0, SeqCst);
    LOG.lock().unwrap_or_else(|p| p.into_inner()).clear();
    NEXT_REPORT.store(0, SeqCst);
    let mut handles = Vec::new();
    for (i, ops) in prog.iter().enumerate() {
        handles.push(spawn_controlled(&format!("t{}", i + 1), i + 1, ops.clone()));
    }
    for h in handles {
        join_controlled(h);
    }
    // quiescent: everything observed on pull events and everything published must be there exactly
    let final_id = NEXT_REPORT.load(SeqCst);
    take_report();
    let (obs, mut fails) = evaluate(prog.len());
    let b: &[i64] = BOUNDS.get().expect("bounds");
    let mut exp_pull = zero();
    let mut exp_push = zero();
    let mut local: Vec<Agg> = vec![zero(); prog.len() + 1];
    let mut published: Vec<Agg> = vec![zero(); prog.len() + 1];
    let log = LOG.lock().unwrap_or_else(|p| p.into_inner()).clone();
    for e in &log {
        match e {
            Ev::ObsEnd { push: false, m, .. } => exp_pull.observe(b, *m, 1),
            Ev::ObsEnd { t, push: true, m } => local[*t].observe(b, *m, 1),
            Ev::PushEnd { t } => published[*t] = local[*t].clone(),
            _ => {}
        }
    }
    for p in &published {
        exp_push.merge(p);
    }
    if let Some(Ev::RepEnd { pull, push, .. }) = log.iter().rev().find(|e| matches!(e, Ev::RepEnd { id, .. } if *id == final_id)) {
        for (kind, exp, seen) in [("pull-event", &exp_pull, pull), ("push-event", &exp_push, push)] {
            if let Some((field, msg)) = compare_exact(b, exp, seen.as_ref()) {
                fails.push((format!("sched:final-report-not-exact:{kind}:{field}"), format!("after all threads were joined: {kind} {msg}")));
            }
        }
    }
    if fails.is_empty() {
        obs
    } else {
        fails.sort();
        fails.dedup_by(|a, b| a.0 == b.0);
        format!("!!{}", vcommon::serde_json::to_string(&fails).unwrap())
    }
}

/// Are the points inside `ObservationBagSync::snapshot` (between the loads of count, sum and each
/// bucket, under the registry read lock) scheduling points in this job? Programs prefixed "S:".
static SNAPSHOT_POINTS: std::sync::atomic::AtomicBool = std::sync::atomic::AtomicBool::new(false);

fn hook_point(label: &'static str) {
    if label.starts_with("bag.snapshot:") && !SNAPSHOT_POINTS.load(SeqCst) {
        return;
    }
    vsched::point(label);
}

fn hooks() {
    // block_until: the registry locks are modelled waits, so a reporter descheduled inside a
    // snapshot (holding the registry read lock) blocks writers in the scheduler, not for real.
    nm_impl::verif_hook::install(nm_impl::verif_hook::Hooks { point: hook_point, block_until: Some(vsched::block_until) });
}

/// "S:<program>" = the same program with the in-snapshot points enabled.
fn split_program(s: &str) -> (bool, &str) {
    match s.strip_prefix("S:") {
        Some(rest) => (true, rest),
        None => (false, s),
    }
}

fn setup() {
    hooks();
    let b: &'static [i64] = Box::leak(bounds_of(CFG).into_boxed_slice());
    let _ = BOUNDS.set(b);
}

/// Failures of one execution: (key, message). Engine problems are keys starting with "engine:".
fn classify(r: &vsched::ExecResult) -> Vec<(String, String)> {
    match r.outcome.as_str() {
        "ok" => match &r.observation {
            Ok(o) => match o.strip_prefix("!!") {
                None => Vec::new(),
                Some(j) => vcommon::serde_json::from_str::<Vec<(String, String)>>(j).unwrap_or_else(|_| vec![("engine:unparsable-oracle-output".into(), o.clone())]),
            },
            Err(m) => {
                let kind = m.strip_prefix("ORACLE[").and_then(|x| x.split(']').next()).unwrap_or("panic-in-root");
                vec![(format!("sched:{kind}"), m.clone())]
            }
        },
        "deadlock" => {
            let mut labels: Vec<String> = r.detail["blocked"]
                .as_array()
                .map(|a| a.iter().filter_map(|x| x.as_str()).map(|s| s.split('@').nth(1).unwrap_or(s).to_string()).collect())
                .unwrap_or_default();
            labels.sort();
            labels.dedup();
            vec![(format!("sched:deadlock[{}]", labels.join("+")), format!("no enabled thread: {}", r.detail))]
        }
        other => vec![(format!("engine:{other}"), format!("{}", r.detail))],
    }
}

/// job = "B|<program>|<shard>|<nshards>|<bound>"
pub fn child(parts: &[&str]) -> Value {
    setup();
    let (snap, text) = split_program(parts[1]);
    SNAPSHOT_POINTS.store(snap, SeqCst);
    let prog = parse_program(text);
    let shard: usize = parts[2].parse().unwrap();
    let nshards: usize = parts[3].parse().unwrap();
    let bound: usize = parts[4].parse().unwrap();
    let cfg = vsched::Config { preemption_bound: bound, max_steps: 5_000, exec_timeout: Duration::from_secs(30), record_trace: false, max_executions: u64::MAX, count_all_deviations: false };
    let p2 = prog.clone();
    let body = move || execution(&p2);
    if shard == 0 {
        if let Err(e) = vsched::check_determinism(&cfg, &[], &body) {
            return json!({"engine_errors": [e]});
        }
    }
    let mut outcomes: BTreeMap<String, u64> = BTreeMap::new();
    let mut violations: BTreeMap<String, (String, Vec<u8>, u64)> = BTreeMap::new();
    let mut engine_errors = Vec::new();
    let stats = vsched::explore_sharded(&cfg, shard, nshards, &body, |r| {
        let fails = classify(r);
        if fails.is_empty() {
            *outcomes.entry(r.observation.clone().unwrap_or_default()).or_default() += 1;
        }
        for (key, msg) in fails {
            if key.starts_with("engine:") {
                engine_errors.push(format!("{key} {msg} schedule={:?}", r.schedule()));
            } else {
                *outcomes.entry(format!("VIOLATION {key}")).or_default() += 1;
                let e = violations.entry(key).or_insert((msg, r.schedule(), 0));
                // keep the witness with the shortest schedule
                if r.schedule().len() < e.1.len() {
                    e.1 = r.schedule();
                }
                e.2 += 1;
            }
        }
    });
    json!({
        "prog": parts[1], "executions": stats.executions, "steps": stats.steps, "max_choice_points": stats.max_choice_points,
        "outcomes": outcomes, "engine_errors": engine_errors,
        "violations": violations.iter().map(|(k, (m, s, n))| json!({"key": k, "msg": m, "schedule": s, "count": n})).collect::<Vec<_>>(),
    })
}

/// Replay one schedule with a trace.
pub fn replay(r: &Value) {
    setup();
    let (snap, text) = split_program(r["program"].as_str().expect("program"));
    SNAPSHOT_POINTS.store(snap, SeqCst);
    let prog = parse_program(text);
    let sched: Vec<u8> = r["schedule"].as_array().expect("schedule").iter().map(|x| x.as_u64().unwrap() as u8).collect();
    let cfg = vsched::Config { record_trace: true, ..vsched::Config::default() };
    let res = vsched::run_one(&cfg, &sched, &move || execution(&prog));
    println!("outcome={} detail={}\nobservation={:?}\ntrace={:?}", res.outcome, res.detail, res.observation, res.trace);
    for (k, m) in classify(&res) {
        println!("VIOLATION key={k} :: {m}");
    }
}

//! Reference aggregation for C16 — deliberately boring, written from the property statement and
//! the public `nm` documentation only (no code shared with `nm_impl`).
//!
//! * every observation of magnitude `m` with batch size `c` adds `c` to the count, `m * c` to the
//!   sum and `c` to the FIRST bucket whose inclusive upper bound is `>= m`, else to the implicit
//!   overflow (`Magnitude::MAX`) bucket;
//! * pull events are visible in a report immediately; push events are visible with what their
//!   thread had observed at that thread's last `MetricsPusher::push()`;
//! * thread exit changes nothing (the totals of exited threads stay in every later report).

use std::collections::BTreeMap;

/// Totals of one event (or one thread's share of it).
#[derive(Clone, Debug, PartialEq, Eq)]
pub struct Agg {
    pub count: u64,
    /// exact (never wraps in the bounded spaces explored here)
    pub sum: i128,
    /// sum of |m| * c: the sum is only compared when this fits an i64 (see `sum_checkable`)
    pub abs: i128,
    /// one entry per configured bound plus the overflow bucket; empty when there is no histogram
    pub buckets: Vec<u64>,
}

impl Agg {
    pub fn new(bounds: &[i64]) -> Self {
        Self { count: 0, sum: 0, abs: 0, buckets: if bounds.is_empty() { Vec::new() } else { vec![0; bounds.len() + 1] } }
    }

    pub fn observe(&mut self, bounds: &[i64], m: i64, c: u64) {
        self.count += c;
        self.sum += i128::from(m) * i128::from(c);
        self.abs += i128::from(m).abs() * i128::from(c);
        if !bounds.is_empty() {
            let idx = bucket_index(bounds, m);
            self.buckets[idx] += c;
        }
    }

    pub fn merge(&mut self, o: &Agg) {
        self.count += o.count;
        self.sum += o.sum;
        self.abs += o.abs;
        for (a, b) in self.buckets.iter_mut().zip(&o.buckets) {
            *a += *b;
        }
    }

    /// The documentation ("Mathematics policy") promises nothing specific once values stray near
    /// the i64 boundaries, so the sum is only part of the oracle while no partial sum, in any
    /// order of accumulation, can leave the i64 range.
    pub fn sum_checkable(&self) -> bool {
        self.abs <= i128::from(i64::MAX)
    }

    /// Field-wise `self <= other` (used by the concurrent oracle; magnitudes there are >= 0).
    pub fn le(&self, o: &Agg) -> Option<String> {
        if self.count > o.count {
            return Some("count".into());
        }
        if self.sum > o.sum {
            return Some("sum".into());
        }
        for (i, (a, b)) in self.buckets.iter().zip(&o.buckets).enumerate() {
            if a > b {
                return Some(if i + 1 == self.buckets.len() { "plus-infinity-bucket".into() } else { format!("bucket[{i}]") });
            }
        }
        None
    }
}

/// First bucket whose inclusive upper bound is at least `m`; `bounds.len()` = overflow bucket.
pub fn bucket_index(bounds: &[i64], m: i64) -> usize {
    bounds.iter().position(|&b| b >= m).unwrap_or(bounds.len())
}

/// What a report said about one event.
#[derive(Clone, Debug, PartialEq, Eq)]
pub struct Seen {
    pub count: u64,
    pub sum: i64,
    pub mean: i64,
    /// (upper bound, count) pairs including the synthetic `i64::MAX` bucket; None = no histogram
    pub hist: Option<Vec<(i64, u64)>>,
}

pub type SeenReport = BTreeMap<String, Seen>;

pub fn collect_report() -> SeenReport {
    let r = nm::Report::collect();
    let mut out = BTreeMap::new();
    for e in r.events() {
        let prev = out.insert(
            e.name().to_string(),
            Seen { count: e.count(), sum: e.sum(), mean: e.mean(), hist: e.histogram().map(|h| h.buckets().collect()) },
        );
        assert!(prev.is_none(), "HARNESS: report lists event {} twice", e.name());
    }
    out
}

impl Seen {
    pub fn as_agg(&self, bounds: &[i64]) -> Agg {
        Agg {
            count: self.count,
            sum: i128::from(self.sum),
            abs: 0,
            buckets: match &self.hist {
                Some(h) if !bounds.is_empty() => h.iter().map(|(_, c)| *c).collect(),
                _ => Vec::new(),
            },
        }
    }
}

/// Exact comparison of one event of a report with the reference totals.
/// Returns (field class, message) of the first difference.
pub fn compare_exact(bounds: &[i64], expected: &Agg, seen: Option<&Seen>) -> Option<(String, String)> {
    let Some(s) = seen else {
        if expected.count == 0 {
            return None; // never observed (or never registered): absence says "zero"
        }
        return Some(("missing-event".into(), format!("event absent from the report, expected count {}", expected.count)));
    };
    if s.count != expected.count {
        return Some(("count".into(), format!("count {} expected {}", s.count, expected.count)));
    }
    if expected.sum_checkable() {
        if i128::from(s.sum) != expected.sum {
            return Some(("sum".into(), format!("sum {} expected {}", s.sum, expected.sum)));
        }
        if expected.count > 0 {
            let c = i128::from(expected.count);
            let (trunc, floor) = (expected.sum / c, expected.sum.div_euclid(c));
            if i128::from(s.mean) != trunc && i128::from(s.mean) != floor {
                return Some(("mean".into(), format!("mean {} expected {} (sum {} / count {})", s.mean, trunc, expected.sum, expected.count)));
            }
        } else if s.mean != 0 {
            return Some(("mean".into(), format!("mean {} with no observations", s.mean)));
        }
    }
    match (&s.hist, bounds.is_empty()) {
        (None, true) => None,
        (Some(_), true) => Some(("histogram-shape".into(), "histogram present for an event configured without buckets".into())),
        (None, false) => Some(("histogram-shape".into(), "histogram missing for an event configured with buckets".into())),
        (Some(h), false) => {
            let mags: Vec<i64> = h.iter().map(|(m, _)| *m).collect();
            let want: Vec<i64> = bounds.iter().copied().chain(std::iter::once(i64::MAX)).collect();
            if mags != want {
                return Some(("histogram-shape".into(), format!("bucket bounds {:?} expected {:?}", brief(&mags), brief(&want))));
            }
            for (i, ((_, got), exp)) in h.iter().zip(&expected.buckets).enumerate() {
                if got != exp {
                    let class = if i == bounds.len() {
                        "plus-infinity-bucket".to_string()
                    } else if i >= 63 {
                        "bucket-index>=63".to_string()
                    } else {
                        "bucket-index<63".to_string()
                    };
                    let name = if i == bounds.len() { "+inf".to_string() } else { format!("[{i}] (<= {})", bounds[i]) };
                    return Some((class, format!("bucket {name} holds {got} expected {exp}")));
                }
            }
            None
        }
    }
}

fn brief(v: &[i64]) -> String {
    if v.len() <= 6 { format!("{v:?}") } else { format!("[{}, {}, .., {}] (len {})", v[0], v[1], v[v.len() - 1], v.len()) }
}

// ------------------------------------------------------------------------------------------
// Bucket configurations
// ------------------------------------------------------------------------------------------

pub const SWEEP_CONFIGS: &[&str] = &["none", "b1", "b3", "b3x", "b63", "b64", "b65", "b70"];

/// Inclusive upper bounds of a named configuration.
pub fn bounds_of(cfg: &str) -> Vec<i64> {
    match cfg {
        "none" => vec![],
        "b1" => vec![0],
        "b3" => vec![-5, 0, 10],
        // extreme bounds: first bound i64::MIN, last bound the largest one the builder accepts
        "b3x" => vec![i64::MIN, 0, i64::MAX - 1],
        // small 2-bucket histogram of the concurrent programs
        "b2" => vec![10, 20],
        _ => {
            let n: i64 = cfg[1..].parse().expect("bucket configuration name");
            // -300, -290, .. : negative, zero and positive bounds; the 63rd bound is 320, the 64th 330
            (0..n).map(|i| i * 10 - 300).collect()
        }
    }
}

/// Boundary magnitudes of a configuration: bound-1, bound, bound+1 for the first, last, 63rd and
/// 64th bound (where they exist and the neighbour is representable), plus i64::MIN, -1, 0, 1, i64::MAX.
pub fn sweep_magnitudes(bounds: &[i64]) -> Vec<i64> {
    let mut v = vec![i64::MIN, -1, 0, 1, i64::MAX];
    let mut idxs = vec![];
    if !bounds.is_empty() {
        idxs.push(0);
        idxs.push(bounds.len() - 1);
    }
    for i in [62_usize, 63] {
        if i < bounds.len() {
            idxs.push(i);
        }
    }
    for i in idxs {
        let b = bounds[i];
        v.push(b);
        if let Some(x) = b.checked_sub(1) {
            v.push(x);
        }
        if let Some(x) = b.checked_add(1) {
            v.push(x);
        }
    }
    v.sort_unstable();
    v.dedup();
    v
}

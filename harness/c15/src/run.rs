//! One execution: replay a history on a fresh real deque, checking the oracle after every step.

use std::collections::hash_map::DefaultHasher;
use std::collections::{BTreeMap, HashMap, VecDeque};
use std::future::Future;
use std::hash::{Hash, Hasher};
use std::marker::PhantomData;
use std::panic::{AssertUnwindSafe, catch_unwind};
use std::pin::Pin;
use std::rc::Rc;
use std::sync::atomic::{AtomicU64, Ordering};
use std::sync::{Arc, Mutex};
use std::task::{Context, Poll, Wake, Waker};

use future_deque::{FutureDeque, LocalFutureDeque};
use futures_core::Stream;
use vcommon::serde_json::{Value, json};

use crate::MAXF;
use crate::ops::{Kind, Op, WakeHow};

// ------------------------------------------------------------------------------------------
// Scripted futures. Each keeps its own ledger: how often it was polled, whether it had been
// inserted-or-woken since its previous poll, a clone of the waker of its last poll, drops.
// ------------------------------------------------------------------------------------------

#[derive(Clone, Copy, PartialEq, Eq, Hash, Debug)]
enum WokenBy {
    Insert,
    SelfWake,
    External,
}

struct Fs {
    kind: Kind,
    completable: bool,
    /// Inserted or woken since the last poll (the harness's own ledger, not the deque's flag).
    woken: bool,
    woken_by: WokenBy,
    captured: Option<Waker>,
    /// Parent waker index in force when the captured waker was handed out.
    captured_parent: Option<u8>,
    polls: u64,
    spurious: u64,
    polled_after_ready: u64,
    self_wakes: u64,
    completed: bool,
    popped: bool,
    fut_drops: u32,
    out_drops: u32,
}

type Sh = Arc<Mutex<Fs>>;
type Log = Arc<Mutex<Vec<u8>>>;

pub struct Out {
    id: u8,
    sh: Sh,
}

impl Drop for Out {
    fn drop(&mut self) {
        self.sh.lock().unwrap().out_drops += 1;
    }
}

struct Scripted<M> {
    id: u8,
    sh: Sh,
    log: Log,
    _m: PhantomData<M>,
}

impl<M> Unpin for Scripted<M> {}

impl<M> Drop for Scripted<M> {
    fn drop(&mut self) {
        self.sh.lock().unwrap().fut_drops += 1;
    }
}

impl<M> Future for Scripted<M> {
    type Output = Out;

    fn poll(self: Pin<&mut Self>, cx: &mut Context<'_>) -> Poll<Out> {
        self.log.lock().unwrap().push(self.id);
        let mut g = self.sh.lock().unwrap();
        g.polls += 1;
        if g.completed {
            g.polled_after_ready += 1;
            return Poll::Pending;
        }
        if !g.woken {
            g.spurious += 1;
        }
        g.woken = false;
        let old = g.captured.replace(cx.waker().clone());
        if g.completable {
            g.completed = true;
            drop(g);
            drop(old);
            return Poll::Ready(Out { id: self.id, sh: Arc::clone(&self.sh) });
        }
        let self_wake = g.kind == Kind::SelfWaking;
        if self_wake {
            g.woken = true;
            g.woken_by = WokenBy::SelfWake;
            g.self_wakes += 1;
        }
        drop(g);
        drop(old);
        if self_wake {
            cx.waker().wake_by_ref();
        }
        Poll::Pending
    }
}

struct Pw {
    wakes: AtomicU64,
}

/// Wake `w` by value on another OS thread and wait until that has happened. One long-lived
/// helper thread per process (spawning a thread per operation costs milliseconds here).
fn wake_on_helper_thread(w: Waker) {
    use std::sync::OnceLock;
    use std::sync::mpsc::{Receiver, Sender, channel};
    static HELPER: OnceLock<Mutex<(Sender<Waker>, Receiver<()>)>> = OnceLock::new();
    let h = HELPER.get_or_init(|| {
        let (tx, rx) = channel::<Waker>();
        let (ack_tx, ack_rx) = channel::<()>();
        std::thread::spawn(move || {
            for w in rx {
                w.wake();
                if ack_tx.send(()).is_err() {
                    break;
                }
            }
        });
        Mutex::new((tx, ack_rx))
    });
    let g = h.lock().unwrap();
    g.0.send(w).expect("helper thread alive");
    g.1.recv().expect("helper thread acknowledges the wake");
}

impl Wake for Pw {
    fn wake(self: Arc<Self>) {
        self.wakes.fetch_add(1, Ordering::SeqCst);
    }

    fn wake_by_ref(self: &Arc<Self>) {
        self.wakes.fetch_add(1, Ordering::SeqCst);
    }
}

// ------------------------------------------------------------------------------------------
// The four configurations behind one trait.
// ------------------------------------------------------------------------------------------

trait Dq {
    fn new() -> Self;
    fn push_front(&mut self, id: u8, sh: Sh, log: Log);
    fn push_back(&mut self, id: u8, sh: Sh, log: Log);
    fn poll(&mut self, cx: &mut Context<'_>) -> Poll<()>;
    fn poll_front(&mut self, cx: &mut Context<'_>) -> Poll<Option<Out>>;
    fn poll_back(&mut self, cx: &mut Context<'_>) -> Poll<Option<Out>>;
    fn pop_front(&mut self) -> Option<Out>;
    fn pop_back(&mut self) -> Option<Out>;
    fn len(&self) -> usize;
    fn is_empty(&self) -> bool;
    fn slots(&self) -> Vec<Option<(usize, usize)>>;
    fn parent_will_wake(&self, w: &Waker) -> bool;
    fn meta_len() -> u64;
    fn fut_len() -> u64;
}

macro_rules! impl_dq {
    ($name:ident, $ty:ident, $marker:ty, $via_trait:expr) => {
        struct $name($ty<Out>);
        impl Dq for $name {
            fn new() -> Self {
                Self($ty::new())
            }
            fn push_front(&mut self, id: u8, sh: Sh, log: Log) {
                self.0.push_front(Scripted::<$marker> { id, sh, log, _m: PhantomData });
            }
            fn push_back(&mut self, id: u8, sh: Sh, log: Log) {
                self.0.push_back(Scripted::<$marker> { id, sh, log, _m: PhantomData });
            }
            fn poll(&mut self, cx: &mut Context<'_>) -> Poll<()> {
                if $via_trait { Future::poll(Pin::new(&mut self.0), cx) } else { self.0.poll(cx) }
            }
            fn poll_front(&mut self, cx: &mut Context<'_>) -> Poll<Option<Out>> {
                if $via_trait { Stream::poll_next(Pin::new(&mut self.0), cx) } else { self.0.poll_front(cx) }
            }
            fn poll_back(&mut self, cx: &mut Context<'_>) -> Poll<Option<Out>> {
                self.0.poll_back(cx)
            }
            fn pop_front(&mut self) -> Option<Out> {
                self.0.pop_front()
            }
            fn pop_back(&mut self) -> Option<Out> {
                self.0.pop_back()
            }
            fn len(&self) -> usize {
                self.0.len()
            }
            fn is_empty(&self) -> bool {
                self.0.is_empty()
            }
            fn slots(&self) -> Vec<Option<(usize, usize)>> {
                self.0.verif_slots()
            }
            fn parent_will_wake(&self, w: &Waker) -> bool {
                self.0.verif_parent_will_wake(w)
            }
            fn meta_len() -> u64 {
                $ty::<Out>::verif_waker_meta_pool_len()
            }
            fn fut_len() -> u64 {
                $ty::<Out>::verif_futures_pool_len()
            }
        }
    };
}

// `Rc<()>` marker makes the scripted future `!Send`, which only the local variant accepts.
impl_dq!(SendInherent, FutureDeque, (), false);
impl_dq!(SendTrait, FutureDeque, (), true);
impl_dq!(LocalInherent, LocalFutureDeque, Rc<()>, false);
impl_dq!(LocalTrait, LocalFutureDeque, Rc<()>, true);

#[derive(Clone, Copy, PartialEq, Eq, Debug)]
pub struct Cfg {
    pub local: bool,
    pub via_trait: bool,
}

impl Cfg {
    pub const ALL: [Cfg; 4] = [
        Cfg { local: false, via_trait: false },
        Cfg { local: true, via_trait: false },
        Cfg { local: false, via_trait: true },
        Cfg { local: true, via_trait: true },
    ];

    pub fn name(self) -> &'static str {
        match (self.local, self.via_trait) {
            (false, false) => "FutureDeque.inherent",
            (true, false) => "LocalFutureDeque.inherent",
            (false, true) => "FutureDeque.trait",
            (true, true) => "LocalFutureDeque.trait",
        }
    }

    pub fn parse(s: &str) -> Option<Cfg> {
        Cfg::ALL.into_iter().find(|c| c.name() == s)
    }
}

// ------------------------------------------------------------------------------------------
// Accumulator (merged across child processes).
// ------------------------------------------------------------------------------------------

#[derive(Clone)]
pub struct V {
    pub key: String,
    pub summary: String,
    pub replay: Value,
    pub count: u64,
}

#[derive(Default)]
pub struct Acc {
    pub runs: u64,
    pub steps: u64,
    pub nontrivial: u64,
    hot: HashMap<&'static str, u64>,
    pub outcomes: BTreeMap<String, u64>,
    pub violations: BTreeMap<String, V>,
    pub samples: Vec<Value>,
    pub probe_mismatch: u64,
    pub probe_first: String,
    pub order_ftb: u64,
    pub order_other: u64,
    pub trace: bool,
}

impl Acc {
    fn oc(&mut self, k: &'static str) {
        *self.hot.entry(k).or_insert(0) += 1;
    }

    fn flush(&mut self) {
        for (k, n) in self.hot.drain() {
            *self.outcomes.entry(k.to_string()).or_insert(0) += n;
        }
    }

    fn violation(&mut self, key: String, summary: String, cfg: Cfg, hist: &[Op], step: usize) {
        let history = hist.iter().map(ToString::to_string).collect::<Vec<_>>().join(",");
        let e = self.violations.entry(key.clone()).or_insert_with(|| V {
            key,
            summary: format!("[{}] after `{}` (step {} of {}): {}", cfg.name(), history, step, hist.len(), summary),
            replay: json!({"config": cfg.name(), "history": history, "failing_step": step}),
            count: 0,
        });
        e.count += 1;
    }

    pub fn to_json(&mut self) -> Value {
        self.flush();
        json!({
            "runs": self.runs, "steps": self.steps, "nontrivial": self.nontrivial,
            "outcomes": self.outcomes,
            "violations": self.violations.values().map(|v| json!({
                "key": v.key, "summary": v.summary, "replay": v.replay, "count": v.count})).collect::<Vec<_>>(),
            "samples": self.samples,
            "probe_mismatch": self.probe_mismatch, "probe_first": self.probe_first,
            "order_ftb": self.order_ftb, "order_other": self.order_other,
        })
    }

    pub fn from_json(v: &Value) -> Acc {
        let mut a = Acc::default();
        a.runs = v["runs"].as_u64().unwrap_or(0);
        a.steps = v["steps"].as_u64().unwrap_or(0);
        a.nontrivial = v["nontrivial"].as_u64().unwrap_or(0);
        if let Some(o) = v["outcomes"].as_object() {
            for (k, n) in o {
                a.outcomes.insert(k.clone(), n.as_u64().unwrap_or(0));
            }
        }
        if let Some(vs) = v["violations"].as_array() {
            for x in vs {
                let key = x["key"].as_str().unwrap_or("").to_string();
                a.violations.insert(
                    key.clone(),
                    V {
                        key,
                        summary: x["summary"].as_str().unwrap_or("").to_string(),
                        replay: x["replay"].clone(),
                        count: x["count"].as_u64().unwrap_or(1),
                    },
                );
            }
        }
        if let Some(s) = v["samples"].as_array() {
            a.samples = s.clone();
        }
        a.probe_mismatch = v["probe_mismatch"].as_u64().unwrap_or(0);
        a.probe_first = v["probe_first"].as_str().unwrap_or("").to_string();
        a.order_ftb = v["order_ftb"].as_u64().unwrap_or(0);
        a.order_other = v["order_other"].as_u64().unwrap_or(0);
        a
    }

    pub fn merge(&mut self, mut o: Acc) {
        self.flush();
        o.flush();
        self.runs += o.runs;
        self.steps += o.steps;
        self.nontrivial += o.nontrivial;
        for (k, n) in o.outcomes {
            *self.outcomes.entry(k).or_insert(0) += n;
        }
        for (k, v) in o.violations {
            // Keep the shortest witness per key.
            match self.violations.get_mut(&k) {
                Some(e) => {
                    e.count += v.count;
                    let len = |x: &V| x.replay["history"].as_str().map_or(0, |s| s.split(',').count());
                    if len(&v) < len(e) {
                        e.summary = v.summary;
                        e.replay = v.replay;
                    }
                }
                None => {
                    self.violations.insert(k, v);
                }
            }
        }
        for s in o.samples {
            if self.samples.len() < 12 {
                self.samples.push(s);
            }
        }
        if self.probe_first.is_empty() {
            self.probe_first = o.probe_first;
        }
        self.probe_mismatch += o.probe_mismatch;
        self.order_ftb += o.order_ftb;
        self.order_other += o.order_other;
    }
}

// ------------------------------------------------------------------------------------------
// The run.
// ------------------------------------------------------------------------------------------

pub struct RunOut {
    pub enabled: Vec<Op>,
    pub canon: u64,
    pub stop: bool,
}

pub fn run_history(cfg: Cfg, hist: &[Op], xthread: bool, acc: &mut Acc) -> RunOut {
    match (cfg.local, cfg.via_trait) {
        (false, false) => run::<SendInherent>(cfg, hist, xthread, acc),
        (false, true) => run::<SendTrait>(cfg, hist, xthread, acc),
        (true, false) => run::<LocalInherent>(cfg, hist, xthread, acc),
        (true, true) => run::<LocalTrait>(cfg, hist, xthread, acc),
    }
}

struct Viol {
    key: String,
    summary: String,
}

fn viol(key: String, summary: String) -> Result<(), Viol> {
    Err(Viol { key, summary })
}

#[derive(Clone, Copy, Default)]
struct Snap {
    polls: u64,
    spurious: u64,
    par: u64,
    self_wakes: u64,
    completed: bool,
    woken: bool,
    woken_by: Option<WokenBy>,
    captured: bool,
    fut_drops: u32,
    out_drops: u32,
}

enum Res {
    Unit,
    All(Poll<()>),
    End(Poll<Option<Out>>),
    Pop(Option<Out>),
}

struct Run<D: Dq> {
    dq: Option<D>,
    futs: Vec<Sh>,
    log: Log,
    parents: [Arc<Pw>; 2],
    wakers: [Waker; 2],
    /// The reference model: ids front..back, changed only by the harness's own pushes and by the
    /// pops it has checked.
    order: VecDeque<u8>,
    parent: Option<u8>,
    parent_changed: bool,
    dropped: bool,
    base_meta: u64,
    base_fut: u64,
    popped_seq: Vec<u8>,
    any_polled: bool,
    any_completed: bool,
    any_wake: bool,
}

impl<D: Dq> Run<D> {
    fn new() -> Self {
        let parents = [Arc::new(Pw { wakes: AtomicU64::new(0) }), Arc::new(Pw { wakes: AtomicU64::new(0) })];
        let wakers = [Waker::from(Arc::clone(&parents[0])), Waker::from(Arc::clone(&parents[1]))];
        let base_meta = D::meta_len();
        let base_fut = D::fut_len();
        Self {
            dq: Some(D::new()),
            futs: Vec::new(),
            log: Arc::new(Mutex::new(Vec::new())),
            parents,
            wakers,
            order: VecDeque::new(),
            parent: None,
            parent_changed: false,
            dropped: false,
            base_meta,
            base_fut,
            popped_seq: Vec::new(),
            any_polled: false,
            any_completed: false,
            any_wake: false,
        }
    }

    fn snap(&self) -> Vec<Snap> {
        self.futs
            .iter()
            .map(|s| {
                let g = s.lock().unwrap();
                Snap {
                    polls: g.polls,
                    spurious: g.spurious,
                    par: g.polled_after_ready,
                    self_wakes: g.self_wakes,
                    completed: g.completed,
                    woken: g.woken,
                    woken_by: Some(g.woken_by),
                    captured: g.captured.is_some(),
                    fut_drops: g.fut_drops,
                    out_drops: g.out_drops,
                }
            })
            .collect()
    }

    fn pcounts(&self) -> [u64; 2] {
        [self.parents[0].wakes.load(Ordering::SeqCst), self.parents[1].wakes.load(Ordering::SeqCst)]
    }

    fn meta_live(&self) -> i64 {
        D::meta_len() as i64 - self.base_meta as i64
    }

    fn push(&mut self, kind: Kind, front: bool) {
        let id = self.futs.len() as u8;
        let sh: Sh = Arc::new(Mutex::new(Fs {
            kind,
            completable: false,
            woken: true,
            woken_by: WokenBy::Insert,
            captured: None,
            captured_parent: None,
            polls: 0,
            spurious: 0,
            polled_after_ready: 0,
            self_wakes: 0,
            completed: false,
            popped: false,
            fut_drops: 0,
            out_drops: 0,
        }));
        self.futs.push(Arc::clone(&sh));
        let dq = self.dq.as_mut().unwrap();
        if front {
            dq.push_front(id, sh, Arc::clone(&self.log));
            self.order.push_front(id);
        } else {
            dq.push_back(id, sh, Arc::clone(&self.log));
            self.order.push_back(id);
        }
    }

    fn exec(&mut self, op: Op) -> Res {
        match op {
            Op::PushBack(k) => {
                self.push(k, false);
                Res::Unit
            }
            Op::PushFront(k) => {
                self.push(k, true);
                Res::Unit
            }
            Op::Poll(p) | Op::PollFront(p) | Op::PollBack(p) => {
                if self.parent.is_some() && self.parent != Some(p) {
                    self.parent_changed = true;
                }
                self.parent = Some(p);
                let w = self.wakers[p as usize].clone();
                let mut cx = Context::from_waker(&w);
                let dq = self.dq.as_mut().unwrap();
                match op {
                    Op::Poll(_) => Res::All(dq.poll(&mut cx)),
                    Op::PollFront(_) => Res::End(dq.poll_front(&mut cx)),
                    _ => Res::End(dq.poll_back(&mut cx)),
                }
            }
            Op::PopFront => Res::Pop(self.dq.as_mut().unwrap().pop_front()),
            Op::PopBack => Res::Pop(self.dq.as_mut().unwrap().pop_back()),
            Op::Complete(k) => {
                self.futs[k as usize].lock().unwrap().completable = true;
                Res::Unit
            }
            Op::Wake(how, k) => {
                let w = self.futs[k as usize].lock().unwrap().captured.take().expect("wake enabled only with a captured waker");
                match how {
                    WakeHow::Ref => {
                        w.wake_by_ref();
                        self.futs[k as usize].lock().unwrap().captured = Some(w);
                    }
                    WakeHow::Val => w.wake(),
                    WakeHow::CloneRef => {
                        let c = w.clone();
                        c.wake_by_ref();
                        drop(c);
                        self.futs[k as usize].lock().unwrap().captured = Some(w);
                    }
                    WakeHow::CloneVal => {
                        w.clone().wake();
                        self.futs[k as usize].lock().unwrap().captured = Some(w);
                    }
                    WakeHow::XThreadVal => wake_on_helper_thread(w),
                }
                Res::Unit
            }
            Op::DropWaker(k) => {
                let w = self.futs[k as usize].lock().unwrap().captured.take();
                drop(w);
                Res::Unit
            }
            Op::DropDeque => {
                let d = self.dq.take();
                drop(d);
                self.dropped = true;
                Res::Unit
            }
        }
    }

    /// Execute one operation on the real deque and check every clause of the property on it.
    fn step(&mut self, op: Op, rec: bool, acc: &mut Acc) -> Result<(), Viol> {
        let name = op.kind_name();
        let before = self.snap();
        let pc_before = self.pcounts();
        let meta_before = self.meta_live();
        let order_before = self.order.clone();
        let log_start = self.log.lock().unwrap().len();
        let was_dropped = self.dropped;
        let pending_in_deque =
            |k: u8, s: &[Snap]| !was_dropped && order_before.contains(&k) && !s[k as usize].completed;

        // What a wake must achieve is decided before it is issued.
        let mut wake_needs_parent = false;
        if let Op::Wake(_, k) = op {
            self.any_wake = true;
            if pending_in_deque(k, &before) {
                let mut g = self.futs[k as usize].lock().unwrap();
                if !g.woken {
                    g.woken = true;
                    g.woken_by = WokenBy::External;
                    wake_needs_parent = true;
                }
            }
        }

        let res = match catch_unwind(AssertUnwindSafe(|| self.exec(op))) {
            Ok(r) => r,
            Err(_) => return viol(format!("panic:{name}"), format!("{name} panicked")),
        };

        let after = self.snap();
        let pc_after = self.pcounts();
        let polled: Vec<u8> = self.log.lock().unwrap()[log_start..].to_vec();
        if !polled.is_empty() {
            self.any_polled = true;
        }

        // ---- poll ledger: no poll of a future that was neither inserted nor woken since its last
        // poll; no poll after completion; no missed poll of an inserted-or-woken future.
        for k in 0..after.len() {
            if after[k].par > before.get(k).map_or(0, |b| b.par) {
                return viol(
                    format!("polled_after_completion:{name}"),
                    format!("future {k} was polled again after it had returned Ready"),
                );
            }
            if after[k].spurious > before.get(k).map_or(0, |b| b.spurious) {
                return viol(
                    format!("spurious_poll:{name}"),
                    format!("future {k} was polled although it was neither inserted nor woken since its last poll"),
                );
            }
        }
        if let Some(p) = op.is_poll() {
            for &k in &order_before {
                let b = before[k as usize];
                let a = after[k as usize];
                if !b.completed && b.woken && a.polls == b.polls {
                    let why = match b.woken_by {
                        Some(WokenBy::Insert) => "inserted",
                        Some(WokenBy::SelfWake) => "woken_during_own_poll",
                        _ => "woken_externally",
                    };
                    return viol(
                        format!("missed_poll:{name}:{why}"),
                        format!("future {k} ({why} since its last poll) was not polled by {name}"),
                    );
                }
                if rec {
                    if !b.completed && !b.woken && a.polls == b.polls {
                        acc.oc("poll:skipped_unwoken_future");
                    }
                    if !b.completed && b.woken && b.woken_by == Some(WokenBy::SelfWake) && a.polls > b.polls {
                        acc.oc("self_wake:repolled_next_poll");
                    }
                    if !b.completed && b.woken && b.woken_by == Some(WokenBy::External) && a.polls > b.polls {
                        acc.oc("wake:repolled_next_poll");
                    }
                }
            }
            // A wake issued from inside the future's own poll must reach the task polling now.
            let self_woke = (0..after.len()).any(|k| after[k].self_wakes > before[k].self_wakes);
            if self_woke && pc_after[p as usize] == pc_before[p as usize] {
                let other = 1 - p as usize;
                let detail = if pc_after[other] > pc_before[other] { "woke_previous_parent" } else { "parent_not_woken" };
                return viol(
                    format!("lost_wake:self_wake_in_{name}:{detail}"),
                    format!("a future woke itself during {name}(P{}) but that parent waker was not invoked", p + 1),
                );
            }
            for &k in &polled {
                self.futs[k as usize].lock().unwrap().captured_parent = Some(p);
            }
            if rec {
                // Informational only (the property does not promise an order): front-to-back?
                let pos: Vec<usize> =
                    polled.iter().filter_map(|k| order_before.iter().position(|x| x == k)).collect();
                if pos.windows(2).all(|w| w[0] < w[1]) { acc.order_ftb += 1 } else { acc.order_other += 1 }
            }
        }

        // ---- wake => the most recent parent waker is invoked.
        if let Op::Wake(_, k) = op {
            let cur = self.parent.expect("a waker exists only after a poll") as usize;
            let woke_cur = pc_after[cur] > pc_before[cur];
            if wake_needs_parent && !woke_cur {
                let detail = if pc_after[1 - cur] > pc_before[1 - cur] { "woke_previous_parent" } else { "parent_not_woken" };
                return viol(
                    format!("lost_wake:{name}:{detail}"),
                    format!(
                        "future {k} was pending and un-woken; {name} did not invoke the current parent waker P{}",
                        cur + 1
                    ),
                );
            }
            if rec {
                let b = before[k as usize];
                if wake_needs_parent {
                    acc.oc("wake:parent_woken");
                    let cp = self.futs[k as usize].lock().unwrap().captured_parent;
                    if self.parent_changed && cp.is_some() && cp != self.parent {
                        acc.oc("wake:after_parent_change_new_parent_woken");
                    }
                } else if was_dropped {
                    acc.oc("wake:stale_after_deque_drop");
                } else if b.completed || !order_before.contains(&k) {
                    acc.oc("wake:stale_after_completion");
                } else if woke_cur {
                    acc.oc("wake:already_woken_parent_woken_again");
                } else {
                    acc.oc("wake:already_woken_no_new_parent_wake_needed");
                }
            }
        }

        // ---- deque order: results only from the actual end, only once completed.
        let completed_now = |k: u8| after[k as usize].completed;
        match res {
            Res::Unit => {}
            Res::All(p) => {
                let all_done = self.order.iter().all(|&k| completed_now(k));
                if p.is_ready() != all_done {
                    return viol(
                        format!("poll:readiness_mismatch:{}", if p.is_ready() { "ready_with_pending_items" } else { "pending_with_all_done" }),
                        format!("{name} returned {p:?} while the model has all_done={all_done}"),
                    );
                }
                if rec {
                    acc.oc(if all_done { "poll:ready" } else { "poll:pending" });
                }
            }
            Res::End(_) | Res::Pop(_) => {
                let front = matches!(op, Op::PollFront(_) | Op::PopFront);
                let end = if front { "front" } else { "back" };
                let end_id = if front { self.order.front().copied() } else { self.order.back().copied() };
                // 0 = empty, 1 = not ready, 2 = item
                let (got_class, got_item) = match res {
                    Res::End(Poll::Ready(Some(o))) | Res::Pop(Some(o)) => (2, Some(o)),
                    Res::End(Poll::Ready(None)) => (0, None),
                    Res::End(Poll::Pending) => (1, None),
                    Res::Pop(None) => (if end_id.is_none() { 0 } else { 1 }, None),
                    _ => unreachable!(),
                };
                let expect_class = match end_id {
                    None => 0,
                    Some(k) if completed_now(k) => 2,
                    Some(_) => 1,
                };
                if let Some(o) = got_item {
                    let id = o.id;
                    drop(o);
                    if end_id != Some(id) {
                        let wher = if self.order.contains(&id) { "elsewhere_in_deque" } else { "not_in_deque" };
                        return viol(
                            format!("order:{name}:returned_item_not_at_{end}:{wher}"),
                            format!("{name} returned the output of future {id} but the {end} of the model deque {:?} is {:?}", self.order, end_id),
                        );
                    }
                    if front { self.order.pop_front() } else { self.order.pop_back() };
                    self.futs[id as usize].lock().unwrap().popped = true;
                    self.popped_seq.push(id);
                    if rec {
                        acc.oc(match name {
                            "pop_front" => "pop_front:some",
                            "pop_back" => "pop_back:some",
                            "poll_front" => "poll_front:some",
                            _ => "poll_back:some",
                        });
                    }
                } else if expect_class == 2 {
                    return viol(
                        format!("order:{name}:completed_{end}_withheld"),
                        format!("{name} returned nothing although the {end} item {:?} of {:?} has completed", end_id, self.order),
                    );
                } else if got_class != expect_class {
                    let what = if got_class == 0 { "reported_empty_while_nonempty" } else { "pending_on_empty" };
                    return viol(
                        format!("order:{name}:{what}"),
                        format!("{name} result class {got_class} but model deque is {:?}", self.order),
                    );
                } else if rec {
                    let other_ready = self.order.iter().any(|&k| completed_now(k));
                    match (name, expect_class, other_ready) {
                        ("pop_front", 1, true) => acc.oc("pop_front:none:front_pending_later_item_ready"),
                        ("pop_back", 1, true) => acc.oc("pop_back:none:back_pending_earlier_item_ready"),
                        ("poll_front", 1, true) => acc.oc("poll_front:pending:front_pending_later_item_ready"),
                        ("poll_back", 1, true) => acc.oc("poll_back:pending:back_pending_earlier_item_ready"),
                        (_, 1, false) => acc.oc("end:not_ready"),
                        _ => acc.oc("end:empty"),
                    }
                }
            }
        }
        if let Some(dq) = &self.dq {
            if dq.len() != self.order.len() || dq.is_empty() != self.order.is_empty() {
                return viol(
                    format!("len_mismatch:{name}"),
                    format!("len()={} is_empty()={} but the model deque is {:?}", dq.len(), dq.is_empty(), self.order),
                );
            }
        }
        // An item completed while an item nearer the front is still pending (anti-vacuity class).
        for (i, &k) in order_before.iter().enumerate() {
            if after[k as usize].completed && !before[k as usize].completed {
                self.any_completed = true;
                if rec && order_before.iter().take(i).any(|&j| !after[j as usize].completed) {
                    acc.oc("completion:out_of_order");
                }
            }
        }

        // ---- every future and every output dropped exactly once.
        let after = self.snap();
        for k in 0..after.len() {
            let a = after[k];
            let in_live_deque = !self.dropped && self.order.contains(&(k as u8));
            if a.fut_drops > 1 {
                return viol(format!("double_drop:future:{name}"), format!("future {k} dropped {} times", a.fut_drops));
            }
            if a.out_drops > 1 {
                return viol(format!("double_drop:output:{name}"), format!("output {k} dropped {} times", a.out_drops));
            }
            if in_live_deque && !a.completed && a.fut_drops > 0 {
                return viol(
                    format!("future_dropped_while_pending:{name}"),
                    format!("future {k} is still pending in the live deque but was dropped"),
                );
            }
            if in_live_deque && a.out_drops > 0 {
                return viol(
                    format!("output_dropped_while_queued:{name}"),
                    format!("the output of future {k} is still queued in the live deque but was dropped"),
                );
            }
            if self.dropped {
                if a.fut_drops != 1 {
                    return viol(
                        format!("future_not_dropped_with_deque:{}", if a.completed { "completed" } else { "pending" }),
                        format!("deque dropped but future {k} was dropped {} times", a.fut_drops),
                    );
                }
                if a.completed && a.out_drops != 1 {
                    return viol(
                        "output_not_dropped_with_deque".to_string(),
                        format!("deque dropped but the un-popped output of future {k} was dropped {} times", a.out_drops),
                    );
                }
            }
        }
        if rec && op == Op::DropDeque {
            let n = before.len();
            if (0..n).any(|k| before[k].fut_drops == 0 && after[k].fut_drops == 1) {
                acc.oc("drop_deque:pending_futures_dropped");
            }
            if (0..n).any(|k| before[k].out_drops == 0 && after[k].out_drops == 1) {
                acc.oc("drop_deque:unpopped_outputs_dropped");
            }
        }

        // ---- waker metadata: never freed while a clone lives, freed when the last clone goes.
        let live = self.meta_live();
        let cap = after.iter().filter(|a| a.captured).count() as i64;
        let in_deque_or_cap = (0..after.len())
            .filter(|&k| after[k].captured || (!self.dropped && self.order.contains(&(k as u8))))
            .count() as i64;
        if live < cap {
            return viol(
                format!("meta_freed_while_clone_live:{name}"),
                format!("{cap} waker clones are held by the futures' ledgers but only {live} metadata entries are live"),
            );
        }
        if live > in_deque_or_cap {
            return viol(
                format!("meta_leak:{name}"),
                format!("{live} metadata entries live, but only {in_deque_or_cap} futures are in the deque or have a live waker clone"),
            );
        }
        let last_clone_gone = match op {
            Op::DropWaker(k) | Op::Wake(WakeHow::Val | WakeHow::XThreadVal, k) => {
                (self.dropped || !self.order.contains(&k)).then_some(k)
            }
            _ => None,
        };
        if let Some(k) = last_clone_gone {
            if live != meta_before - 1 {
                return viol(
                    format!("meta_not_freed_on_last_clone_drop:{name}"),
                    format!("the last waker clone of future {k} (no longer in a live deque) went away; live metadata {meta_before} -> {live}"),
                );
            }
            if rec {
                acc.oc("meta:freed_by_last_stale_clone");
            }
        }

        // ---- informational: the probe of the internals agrees with the ledger.
        let strict = (0..after.len())
            .filter(|&k| after[k].captured || (!self.dropped && self.order.contains(&(k as u8)) && !after[k].completed))
            .count() as i64;
        let mut mism = String::new();
        if live != strict {
            mism = format!("meta pool live={live} expected={strict}");
        }
        if let Some(dq) = &self.dq {
            let slots = dq.slots();
            for (i, &k) in self.order.iter().enumerate() {
                let a = after[k as usize];
                let want = if a.completed { None } else { Some((2 + usize::from(a.captured), usize::from(a.woken))) };
                if slots.get(i).copied() != Some(want) {
                    mism = format!("slot {i} (future {k}) probe={:?} ledger={want:?}", slots.get(i));
                }
            }
            if let Some(p) = self.parent {
                if !dq.parent_will_wake(&self.wakers[p as usize]) {
                    mism = format!("stored parent is not P{}", p + 1);
                }
            }
        }
        if !mism.is_empty() {
            acc.probe_mismatch += 1;
            if acc.probe_first.is_empty() {
                acc.probe_first = format!("after {name}: {mism}");
            }
        }
        if acc.trace {
            println!(
                "  {op}: polled={polled:?} order={:?} parents={:?} meta_live={live} completed={:?} woken={:?}",
                self.order,
                pc_after,
                after.iter().map(|a| a.completed).collect::<Vec<_>>(),
                after.iter().map(|a| a.woken).collect::<Vec<_>>()
            );
        }
        Ok(())
    }

    fn enabled(&self, xthread: bool) -> Vec<Op> {
        let s = self.snap();
        let mut v = Vec::with_capacity(32);
        if !self.dropped {
            if self.futs.len() < MAXF {
                v.extend([
                    Op::PushBack(Kind::Silent),
                    Op::PushFront(Kind::Silent),
                    Op::PushBack(Kind::SelfWaking),
                    Op::PushFront(Kind::SelfWaking),
                ]);
            }
            v.extend([Op::Poll(0), Op::PollFront(0), Op::PollBack(0), Op::PopFront, Op::PopBack]);
            for k in 0..s.len() {
                let completable = self.futs[k].lock().unwrap().completable;
                if self.order.contains(&(k as u8)) && !s[k].completed && !completable {
                    v.push(Op::Complete(k as u8));
                }
            }
        }
        for k in 0..s.len() {
            if s[k].captured {
                let k = k as u8;
                v.extend([
                    Op::Wake(WakeHow::Ref, k),
                    Op::Wake(WakeHow::Val, k),
                    Op::Wake(WakeHow::CloneRef, k),
                    Op::Wake(WakeHow::CloneVal, k),
                ]);
                if xthread {
                    v.push(Op::Wake(WakeHow::XThreadVal, k));
                }
                v.push(Op::DropWaker(k));
            }
        }
        if !self.dropped {
            // Symmetry: P1 and P2 are interchangeable objects, so the first poll of a history uses
            // P1 without loss of generality; P2 becomes available once a parent is in force.
            if self.parent.is_some() {
                v.extend([Op::Poll(1), Op::PollFront(1), Op::PollBack(1)]);
            }
            v.push(Op::DropDeque);
        }
        v
    }

    /// Canonical state for the bfs stage.
    ///
    /// Soundness of merging: two histories are merged only if (a) the complete harness-side state
    /// that can influence any later step is equal — the model deque, and per future its kind,
    /// completable flag, ledger flag, whether a waker clone is held, completed / popped, drop
    /// counts; the parent in force; whether the deque was dropped — and (b) the complete implementation state is equal as exposed by the
    /// cfg(folo_verif) probe: per slot its discriminant and, for pending slots, the metadata's
    /// `ref_count` and `activated`, plus which of P1/P2 the shared parent waker is, plus the live
    /// counts of both thread-local pools. `FutureDequeCore` has no other fields (slots,
    /// shared_parent); `WakerMeta` has no other fields (ref_count, activated, shared_parent);
    /// the slot's `handle` is the scripted future whose state is (a), its `waker` is a function
    /// of `meta`. Not included: absolute poll / wake counters (the oracle only uses per-step
    /// deltas), allocator-internal placement (addresses, free lists) of the plurality pools, and
    /// three harness labels that only choose the *name* of an outcome class or of a violation key
    /// and never whether a step is a violation (`woken_by`, `captured_parent`, `parent_changed`).
    fn canon(&self) -> u64 {
        let mut h = DefaultHasher::new();
        self.order.hash(&mut h);
        self.parent.hash(&mut h);
        self.dropped.hash(&mut h);
        for f in &self.futs {
            let g = f.lock().unwrap();
            (g.kind, g.completable, g.woken, g.captured.is_some()).hash(&mut h);
            (g.completed, g.popped, g.fut_drops, g.out_drops).hash(&mut h);
        }
        0xFF_u8.hash(&mut h);
        if let Some(dq) = &self.dq {
            dq.slots().hash(&mut h);
            dq.parent_will_wake(&self.wakers[0]).hash(&mut h);
            dq.parent_will_wake(&self.wakers[1]).hash(&mut h);
        }
        self.meta_live().hash(&mut h);
        (D::fut_len() as i64 - self.base_fut as i64).hash(&mut h);
        h.finish()
    }

    /// Drop the deque if the history did not, then use and drop every stale waker.
    fn epilogue(&mut self, acc: &mut Acc) -> Result<(), Viol> {
        if !self.dropped {
            acc.steps += 1;
            self.step(Op::DropDeque, true, acc)?;
        }
        for k in 0..self.futs.len() {
            let w = self.futs[k].lock().unwrap().captured.take();
            if let Some(w) = w {
                if catch_unwind(AssertUnwindSafe(|| {
                    w.wake_by_ref();
                    drop(w);
                }))
                .is_err()
                {
                    return viol("panic:stale_waker_after_deque_drop".into(), format!("waking/dropping the stale waker of future {k} panicked"));
                }
            }
        }
        let live = self.meta_live();
        if live != 0 {
            return viol(
                "meta_leak:at_quiescence".into(),
                format!("deque dropped and every waker clone dropped, but {live} metadata entries remain in the pool"),
            );
        }
        let fut_live = D::fut_len() as i64 - self.base_fut as i64;
        if fut_live != 0 {
            acc.probe_mismatch += 1;
            if acc.probe_first.is_empty() {
                acc.probe_first = format!("futures pool holds {fut_live} entries at quiescence");
            }
        }
        Ok(())
    }
}

fn run<D: Dq>(cfg: Cfg, hist: &[Op], xthread: bool, acc: &mut Acc) -> RunOut {
    acc.runs += 1;
    let mut r = Run::<D>::new();
    if acc.trace {
        println!("replay [{}]", cfg.name());
    }
    for (i, &op) in hist.iter().enumerate() {
        acc.steps += 1;
        let last = i + 1 == hist.len();
        if let Err(v) = r.step(op, last, acc) {
            acc.violation(v.key, v.summary, cfg, hist, i + 1);
            // Leave the (possibly corrupt) deque alone.
            std::mem::forget(r);
            return RunOut { enabled: Vec::new(), canon: 0, stop: true };
        }
    }
    let enabled = r.enabled(xthread);
    let canon = r.canon();
    let nontrivial = r.any_polled && (r.any_completed || r.any_wake);
    if nontrivial {
        acc.nontrivial += 1;
        if acc.samples.len() < 6 && hist.len() >= 5 && !r.popped_seq.is_empty() && r.any_wake {
            let polls: Vec<u64> = r.futs.iter().map(|f| f.lock().unwrap().polls).collect();
            acc.samples.push(json!({
                "config": cfg.name(),
                "history": hist.iter().map(ToString::to_string).collect::<Vec<_>>(),
                "popped_sequence": r.popped_seq,
                "model_deque_left": r.order,
                "polls_per_future": polls,
                "parent_wakes": r.pcounts(),
            }));
        }
    }
    if let Err(v) = r.epilogue(acc) {
        let mut h = hist.to_vec();
        if !hist.contains(&Op::DropDeque) {
            h.push(Op::DropDeque);
        }
        acc.violation(v.key, v.summary, cfg, &h, h.len());
        std::mem::forget(r);
        return RunOut { enabled: Vec::new(), canon, stop: true };
    }
    RunOut { enabled, canon, stop: false }
}

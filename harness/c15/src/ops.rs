//! The operation alphabet (simplest first) with a stable textual form for replay files.

use std::fmt;

#[derive(Clone, Copy, PartialEq, Eq, Hash, Debug)]
pub enum Kind {
    /// Returns Pending without touching its waker (beyond storing a clone).
    Silent,
    /// Calls `wake_by_ref` on the waker it was polled with before returning Pending.
    SelfWaking,
}

#[derive(Clone, Copy, PartialEq, Eq, Hash, Debug)]
pub enum WakeHow {
    /// `captured.wake_by_ref()`
    Ref,
    /// `captured.take().wake()` (consumes the captured waker)
    Val,
    /// `let c = captured.clone(); c.wake_by_ref(); drop(c)`
    CloneRef,
    /// `captured.clone().wake()`
    CloneVal,
    /// The captured waker is moved to another OS thread, woken by value there, and the harness
    /// waits for that to have happened before the next step.
    XThreadVal,
}

#[derive(Clone, Copy, PartialEq, Eq, Hash, Debug)]
pub enum Op {
    PushBack(Kind),
    PushFront(Kind),
    /// Parent waker index 0 = P1, 1 = P2.
    Poll(u8),
    PollFront(u8),
    PollBack(u8),
    PopFront,
    PopBack,
    /// Future k returns Ready(value) on its next poll.
    Complete(u8),
    Wake(WakeHow, u8),
    DropWaker(u8),
    DropDeque,
}

impl Op {
    pub fn kind_name(self) -> &'static str {
        match self {
            Op::PushBack(_) => "push_back",
            Op::PushFront(_) => "push_front",
            Op::Poll(_) => "poll",
            Op::PollFront(_) => "poll_front",
            Op::PollBack(_) => "poll_back",
            Op::PopFront => "pop_front",
            Op::PopBack => "pop_back",
            Op::Complete(_) => "complete",
            Op::Wake(WakeHow::Ref, _) => "wake_ref",
            Op::Wake(WakeHow::Val, _) => "wake_val",
            Op::Wake(WakeHow::CloneRef, _) => "wake_clone_ref",
            Op::Wake(WakeHow::CloneVal, _) => "wake_clone_val",
            Op::Wake(WakeHow::XThreadVal, _) => "wake_xthread_val",
            Op::DropWaker(_) => "drop_waker",
            Op::DropDeque => "drop_deque",
        }
    }

    pub fn is_poll(self) -> Option<u8> {
        match self {
            Op::Poll(p) | Op::PollFront(p) | Op::PollBack(p) => Some(p),
            _ => None,
        }
    }

    pub fn parse(s: &str) -> Option<Op> {
        let s = s.trim();
        let (name, arg) = match s.find('(') {
            Some(i) => (&s[..i], s[i + 1..].trim_end_matches(')')),
            None => (s, ""),
        };
        let kind = || match arg {
            "silent" => Some(Kind::Silent),
            "selfwaking" => Some(Kind::SelfWaking),
            _ => None,
        };
        let parent = || match arg {
            "P1" => Some(0_u8),
            "P2" => Some(1_u8),
            _ => None,
        };
        let k = || arg.parse::<u8>().ok();
        Some(match name {
            "push_back" => Op::PushBack(kind()?),
            "push_front" => Op::PushFront(kind()?),
            "poll" => Op::Poll(parent()?),
            "poll_front" => Op::PollFront(parent()?),
            "poll_back" => Op::PollBack(parent()?),
            "pop_front" => Op::PopFront,
            "pop_back" => Op::PopBack,
            "complete" => Op::Complete(k()?),
            "wake_ref" => Op::Wake(WakeHow::Ref, k()?),
            "wake_val" => Op::Wake(WakeHow::Val, k()?),
            "wake_clone_ref" => Op::Wake(WakeHow::CloneRef, k()?),
            "wake_clone_val" => Op::Wake(WakeHow::CloneVal, k()?),
            "wake_xthread_val" => Op::Wake(WakeHow::XThreadVal, k()?),
            "drop_waker" => Op::DropWaker(k()?),
            "drop_deque" => Op::DropDeque,
            _ => return None,
        })
    }
}

impl fmt::Display for Op {
    fn fmt(&self, f: &mut fmt::Formatter<'_>) -> fmt::Result {
        let name = self.kind_name();
        match *self {
            Op::PushBack(k) | Op::PushFront(k) => {
                write!(f, "{name}({})", if k == Kind::Silent { "silent" } else { "selfwaking" })
            }
            Op::Poll(p) | Op::PollFront(p) | Op::PollBack(p) => write!(f, "{name}(P{})", p + 1),
            Op::PopFront | Op::PopBack | Op::DropDeque => write!(f, "{name}"),
            Op::Complete(k) | Op::Wake(_, k) | Op::DropWaker(k) => write!(f, "{name}({k})"),
        }
    }
}

//! C15 (history half): "Future deque keeps deque order and never loses a wake-up".
//!
//! Bounded exhaustive exploration of operation histories on the real `FutureDeque` /
//! `LocalFutureDeque`, checked after every step against a plain `VecDeque` reference model and a
//! ledger kept by the scripted futures themselves.
//!
//! Two stages, both exhaustive within their stated bound:
//!
//! * stage `dfs`: every history of length <= D over the alphabet, no merging of states at all.
//!   Each history is replayed from scratch on a fresh deque (a node is the history reaching it).
//! * stage `bfs`: breadth-first over *canonical states* (see `Run::canon` for what a canonical
//!   state contains and why merging is sound), up to a depth bound or to the fixpoint where no
//!   new state is reachable any more (with <= MAXF futures ever pushed the state space is finite).
//!
//! The enabled operations and the expected results are derived from *observed facts* (what the
//! scripted futures saw: polled / returned Ready / dropped) and from the pushes and pops the
//! harness itself performed, never from a prediction of how the deque polls. The oracle therefore
//! demands exactly what the property statement says and nothing about the polling strategy.

mod ops;
mod run;

use std::collections::BTreeMap;
use std::time::Duration;

use ops::Op;
use run::{Acc, Cfg, run_history};
use vcommon::serde_json::{Value, json};

/// At most this many scripted futures are ever pushed in one history.
pub const MAXF: usize = 3;

fn parse_hist(s: &str) -> Vec<Op> {
    s.split(',').filter(|t| !t.is_empty()).map(|t| Op::parse(t).expect("op parses")).collect()
}

fn fmt_hist(h: &[Op]) -> String {
    h.iter().map(ToString::to_string).collect::<Vec<_>>().join(",")
}

fn dfs(cfg: Cfg, hist: &mut Vec<Op>, depth: usize, xthread: bool, acc: &mut Acc) {
    let out = run_history(cfg, hist, xthread, acc);
    if out.stop || hist.len() >= depth {
        return;
    }
    for op in out.enabled {
        hist.push(op);
        dfs(cfg, hist, depth, xthread, acc);
        hist.pop();
    }
}

fn child(job: &str) -> ! {
    vcommon::quiet_panics();
    let parts: Vec<&str> = job.split('|').collect();
    let mut acc = Acc::default();
    let mut extra = json!({});
    match parts[0] {
        "dfs" => {
            let cfg = Cfg::parse(parts[1]).expect("cfg");
            let depth: usize = parts[2].parse().expect("depth");
            let mut hist = parse_hist(parts[3]);
            dfs(cfg, &mut hist, depth, false, &mut acc);
        }
        "bfs" => {
            let cfg = Cfg::parse(parts[1]).expect("cfg");
            let depth: usize = parts[2].parse().expect("depth");
            let xthread = parts[3] == "1";
            let stats = vcommon::explore::explore(depth, |h: &[Op]| {
                let out = run_history(cfg, h, xthread, &mut acc);
                vcommon::explore::Visit { enabled: out.enabled, canon: Some(out.canon), stop: out.stop }
            });
            // Fixpoint = the frontier emptied before the depth bound cut it off.
            extra = json!({
                "states": stats.states, "edges": stats.edges, "pruned": stats.pruned,
                "max_depth": stats.max_depth, "fixpoint": stats.max_depth < depth,
            });
        }
        other => panic!("unknown job kind {other}"),
    }
    let mut v = acc.to_json();
    v["extra"] = extra;
    vcommon::child_result(&v);
    std::process::exit(0);
}

fn replay(c: &mut vcommon::Check, path: &str) -> ! {
    let text = std::fs::read_to_string(path).unwrap_or_else(|e| c.engine_failure(&format!("replay file: {e}")));
    let v: Value = vcommon::serde_json::from_str(&text).unwrap_or_else(|e| c.engine_failure(&format!("replay json: {e}")));
    let r = v.get("replay").unwrap_or(&v);
    let cfg = Cfg::parse(r["config"].as_str().unwrap_or("")).unwrap_or_else(|| c.engine_failure("replay: config"));
    let hist = parse_hist(r["history"].as_str().unwrap_or(""));
    let mut acc = Acc::default();
    acc.trace = true;
    let _ = run_history(cfg, &hist, true, &mut acc);
    c.evaluations = 1;
    c.traces_validated = 1;
    c.transitions = acc.steps;
    c.states = 1;
    c.rule = format!("replay of one history: {}", fmt_hist(&hist));
    for v in acc.violations.values() {
        c.violation(&v.key, &v.summary, v.replay.clone());
    }
    c.exhaustive = false;
    // A replay is not a check run; do not overwrite the evidence of the real run.
    for v in acc.violations.values() {
        println!("REPLAY-VIOLATION key={} :: {}", v.key, v.summary);
    }
    std::process::exit(if acc.violations.is_empty() { 0 } else { 1 });
}

/// Stage `loom` (the schedule half): build and run the loom-flavour harness `c15l` (same flags
/// and target dir as `./check` uses for the loom flavour) and return its `@@C15L` result.
/// `Err` = engine failure (build problem, crash), never a verdict.
fn loom_stage() -> Result<Value, String> {
    let root = vcommon::verif_root();
    let ws = root.join("harness-loom");
    if std::env::var("C15_NO_LOOM").is_ok() || !ws.join("c15l").is_dir() {
        return Ok(json!({"skipped": true}));
    }
    let target = root.join("target/loom");
    let t0 = std::time::Instant::now();
    let build = std::process::Command::new("cargo")
        .args(["build", "--offline", "--release", "-p", "c15l"])
        .current_dir(&ws)
        .env("CARGO_NET_OFFLINE", "true")
        .env("RUSTFLAGS", "--cfg folo_verif --cfg folo_verif_loom -C debug-assertions=off")
        .env("CARGO_TARGET_DIR", &target)
        .env_remove("VERIF_JOB")
        .output()
        .map_err(|e| format!("cannot run cargo for the loom stage: {e}"))?;
    if !build.status.success() {
        let err = String::from_utf8_lossy(&build.stderr);
        let tail: Vec<&str> = err.lines().rev().take(25).collect();
        return Err(format!("loom stage build failed: {}", tail.into_iter().rev().collect::<Vec<_>>().join("\n")));
    }
    let build_s = t0.elapsed().as_secs_f64();
    let t1 = std::time::Instant::now();
    let out = std::process::Command::new(target.join("release/c15l"))
        .current_dir(&root)
        .env_remove("VERIF_JOB")
        .output()
        .map_err(|e| format!("cannot run the loom harness: {e}"))?;
    let stdout = String::from_utf8_lossy(&out.stdout);
    let Some(line) = stdout.lines().find_map(|l| l.strip_prefix("@@C15L ")) else {
        return Err(format!(
            "loom harness produced no result (exit {:?}): {}",
            out.status.code(),
            String::from_utf8_lossy(&out.stderr).lines().last().unwrap_or("")
        ));
    };
    let mut v: Value = vcommon::serde_json::from_str(line).map_err(|e| format!("loom result json: {e}"))?;
    v["build_s"] = json!(build_s);
    v["run_s"] = json!(t1.elapsed().as_secs_f64());
    Ok(v)
}

fn main() {
    if let Some(job) = vcommon::child_job() {
        child(&job);
    }
    vcommon::quiet_panics();
    let mut c = vcommon::Check::new("C15", "model_checking");
    if let Ok(p) = std::env::var("VERIF_REPLAY") {
        replay(&mut c, &p);
    }
    let thorough = vcommon::is_thorough();
    // The schedule half runs concurrently with the history half.
    let loom_thread = std::thread::spawn(loom_stage);

    // Bounds per tier. `dfs_*`: unmerged histories; `bfs_*`: canonical-state exploration.
    // Inherent = the inherent poll/poll_front/poll_back/pop_* methods; trait = `Future::poll` and
    // `Stream::poll_next` as entry points for poll / poll_front (poll_back has no trait form).
    let dfs_inherent = if thorough { 7 } else { 6 };
    let dfs_trait = if thorough { 6 } else { 5 };
    let bfs_depth = 64;

    let mut jobs: Vec<String> = Vec::new();
    let mut root_acc = Acc::default();
    for cfg in Cfg::ALL {
        let depth = if cfg.via_trait { dfs_trait } else { dfs_inherent };
        // Split the DFS at depth 2 into jobs; the parent executes the nodes above the split.
        let split = if depth >= 7 { 3 } else { 2 };
        let mut prefixes: Vec<Vec<Op>> = vec![Vec::new()];
        for _ in 0..split {
            let mut next = Vec::new();
            for p in &prefixes {
                let out = run_history(cfg, p, false, &mut root_acc);
                if out.stop {
                    continue;
                }
                for op in out.enabled {
                    let mut h = p.clone();
                    h.push(op);
                    next.push(h);
                }
            }
            prefixes = next;
        }
        for p in prefixes {
            jobs.push(format!("dfs|{}|{}|{}", cfg.name(), depth, fmt_hist(&p)));
        }
        jobs.push(format!("bfs|{}|{}|1", cfg.name(), bfs_depth));
    }

    let timeout = Duration::from_secs(if thorough { 3000 } else { 240 });
    let results = vcommon::run_jobs(&jobs, vcommon::default_parallelism(), timeout);

    let mut total = root_acc;
    let mut dfs_hist: u64 = total.runs;
    let mut bfs_states: u64 = 0;
    let mut bfs_info = BTreeMap::new();
    for r in &results {
        if r.timed_out {
            c.cap_hit(&format!("job {} timed out after {:?}", r.job, timeout));
            continue;
        }
        let Some(v) = r.result_json() else {
            // A crash of the single-threaded native harness inside the deque is not something the
            // oracle classified; report it as an engine failure with the job that reproduces it.
            c.engine_failure(&format!(
                "child job '{}' died without a result (exit {:?}): {}",
                r.job,
                r.exit_code,
                r.stderr.lines().last().unwrap_or("")
            ));
        };
        let a = Acc::from_json(&v);
        if r.job.starts_with("dfs|") {
            dfs_hist += a.runs;
        } else {
            let st = v["extra"]["states"].as_u64().unwrap_or(0);
            bfs_states += st;
            let cfgname = r.job.split('|').nth(1).unwrap_or("").to_string();
            bfs_info.insert(cfgname, v["extra"].clone());
        }
        total.merge(a);
    }

    c.evaluations = total.runs;
    c.traces_validated = total.runs;
    c.transitions = total.steps;
    c.states = dfs_hist + bfs_states;
    c.distinct_add(total.nontrivial);
    for (k, n) in &total.outcomes {
        c.outcome_n(k, *n);
    }
    for s in total.samples.iter().take(6) {
        c.sample(s.clone());
    }
    for v in total.violations.values() {
        c.violation(&v.key, &format!("{} (x{})", v.summary, v.count), v.replay.clone());
    }
    c.rule = format!(
        "FutureDeque and LocalFutureDeque, <= {MAXF} scripted futures (silent | self-waking, pending until \
         marked completable). Stage dfs: EVERY history of length <= {dfs_inherent} (inherent API) / <= {dfs_trait} \
         (Future::poll + Stream::poll_next as entry points) over push_front/push_back(silent|self-waking), \
         poll/poll_front/poll_back(P1|P2), pop_front, pop_back, complete(k), wake_ref/wake_val/wake_clone_ref/\
         wake_clone_val(k), drop_waker(k), drop_deque (then only waker ops), each replayed on a fresh deque, \
         no state merging; every history ends with drop + stale-waker epilogue. Stage bfs: breadth-first over \
         canonical states (harness ledger + cfg(folo_verif) probe of every deque/WakerMeta field) to depth {bfs_depth} \
         or fixpoint, adding a cross-thread wake-by-value; a state is distinct by its canonical hash, a history is \
         non-trivial when a contained future was polled and an item completed or a wake was issued."
    );
    // ---- stage loom: merge the schedule half into the same evidence.
    let loom = match loom_thread.join() {
        Ok(Ok(v)) => v,
        Ok(Err(e)) => c.engine_failure(&e),
        Err(_) => c.engine_failure("loom stage thread panicked"),
    };
    let mut loom_violations = 0;
    if loom["skipped"].as_bool() == Some(true) {
        c.assumptions.push("schedule half (loom harness harness-loom/c15l) was not run".into());
    } else {
        let any_verdict = !total.violations.is_empty() || loom["violations"].as_array().is_some_and(|a| !a.is_empty());
        if let Some(e) = loom["engine"].as_array().and_then(|a| a.first()) {
            // Crashed loom children are an engine failure unless a verdict was reached elsewhere
            // (then they are most likely its aftermath and are only recorded).
            if !any_verdict {
                c.engine_failure(&format!("loom stage: {}", e.as_str().unwrap_or("")));
            }
            c.cap_hit(&format!("loom stage: {} program(s) crashed without a verdict, first: {}", loom["engine"].as_array().map_or(0, Vec::len), e.as_str().unwrap_or("")));
        }
        for cap in loom["caps"].as_array().into_iter().flatten() {
            c.cap_hit(&format!("loom stage: {}", cap.as_str().unwrap_or("")));
        }
        for v in loom["violations"].as_array().into_iter().flatten() {
            loom_violations += 1;
            c.violation(v["key"].as_str().unwrap_or("loom"), v["summary"].as_str().unwrap_or(""), v["replay"].clone());
        }
        let execs = loom["executions"].as_u64().unwrap_or(0);
        let progs = loom["programs_completed"].as_u64().unwrap_or(0);
        c.evaluations += execs;
        c.traces_validated += execs;
        c.states += execs;
        c.distinct_add(progs);
        for (k, n) in loom["outcomes"].as_object().into_iter().flatten() {
            c.outcome_n(&format!("loom:{k}"), n.as_u64().unwrap_or(0));
        }
        if loom_violations == 0 {
            for need in ["wake_consumed_by_concurrent_poll", "wake_pending_at_join_parent_woken", "completed_in_concurrent_poll", "dropped_by_A", "dropped_by_C"] {
                if loom["outcomes"][need].as_u64().unwrap_or(0) == 0 {
                    c.engine_failure(&format!("anti-vacuity: loom outcome class '{need}' never observed"));
                }
            }
        }
        c.rule.push_str(&format!(
            " Stage loom (schedule half): {} programs = B's op sequence (every valid sequence of length <= 3 over \
             clone / wake_by_ref / wake / drop on a waker handed out by a first poll under P1) x A's concurrent polls \
             (P2 | P1 | none{}) x end (keep+final poll | deque dropped by A | deque dropped by thread C, both while B \
             runs) x future (never completes | completes at its 2nd poll); each program explored by loom 0.7.2 over \
             all interleavings and loom-modelled C11 reads with preemption bound {}; {} loom executions are counted \
             as states / validated traces.",
            loom["programs"], if thorough { " | P2,P1 | P2,P2" } else { "" }, loom["preemption_bound"], execs
        ));
        c.assumptions.push(
            "loom stage: SeqCst is modelled as AcqRel + fence order, load-buffering outcomes are not produced, and \
             the plurality pools / std thread_local stay on std (invisible to loom); FutureDeque only (the local \
             variant shares the same core and waker code)"
                .into(),
        );
    }
    c.extra.insert("loom_stage".into(), loom.clone());
    c.extra.insert("dfs_histories".into(), json!(dfs_hist));
    c.extra.insert("bfs_canonical_states".into(), json!(bfs_states));
    c.extra.insert("bfs_per_config".into(), json!(bfs_info));
    c.extra.insert("jobs".into(), json!(jobs.len()));
    c.extra.insert("probe_mismatches".into(), json!(total.probe_mismatch));
    c.extra.insert("poll_order_front_to_back".into(), json!(total.order_ftb));
    c.extra.insert("poll_order_other".into(), json!(total.order_other));
    c.assumptions.push(
        "history half only: single-threaded except one cross-thread wake-by-value that is joined before the \
         next step; the schedule half (races between wake / parent update / last-reference free) needs the loom harness"
            .into(),
    );
    c.assumptions.push(
        "bfs stage merges states with equal 64-bit hash of the canonical form; allocator-internal state of the \
         plurality pools (slot addresses, free lists) is not part of the canonical form"
            .into(),
    );
    if !thorough || bfs_info.values().any(|v| v["fixpoint"].as_bool() != Some(true)) {
        c.assumptions.push(format!("bfs stage bounded at depth {bfs_depth} where no fixpoint was reached"));
    }

    // Anti-vacuity: the interesting situations must actually have been reached.
    let need = [
        "pop_front:none:front_pending_later_item_ready",
        "pop_back:none:back_pending_earlier_item_ready",
        "poll_front:pending:front_pending_later_item_ready",
        "pop_front:some",
        "pop_back:some",
        "poll:skipped_unwoken_future",
        "wake:parent_woken",
        "wake:already_woken_no_new_parent_wake_needed",
        "wake:after_parent_change_new_parent_woken",
        "wake:stale_after_completion",
        "wake:stale_after_deque_drop",
        "self_wake:repolled_next_poll",
        "meta:freed_by_last_stale_clone",
        "drop_deque:pending_futures_dropped",
        "drop_deque:unpopped_outputs_dropped",
        "completion:out_of_order",
    ];
    if total.violations.is_empty() && loom_violations == 0 {
        for n in need {
            if !total.outcomes.contains_key(n) {
                c.engine_failure(&format!("anti-vacuity: outcome class '{n}' never observed"));
            }
        }
        if total.probe_mismatch > 0 {
            c.engine_failure(&format!(
                "the cfg(folo_verif) probe disagreed with the harness ledger {} times without any property \
                 violation: the harness's picture of the internals is stale (first: {})",
                total.probe_mismatch, total.probe_first
            ));
        }
    }
    c.finish();
}

//! C07 — the single-threaded one-shot event is correct under any re-entrant waker callback.
//!
//! Deviation-bounded exhaustive enumeration of *programs* run against the real `LocalEvent`:
//!
//! * storage: boxed, embedded (caller storage), pooled (`LocalEventPool`), raw-pooled
//!   (`RawLocalEventPool`);
//! * main program: every sequence of length <= L over {send, drop-sender, poll(w1), poll(w2),
//!   is_ready, into_value, drop-receiver} that is legal when it runs (an operation needs its
//!   endpoint to be in its slot; a receiver that already completed only admits `drop`);
//! * wakers w1/w2 are custom `RawWaker`s. Every invocation of clone / wake / drop that the event
//!   performs is a *choice point*: default "nothing", a deviation performs one of {send,
//!   drop-sender, poll-receiver-to-completion (no-op waker), drop-receiver, is_ready} that is legal
//!   at that moment. Endpoints live in slots and an operation TAKES its endpoint out of the slot
//!   for its duration, so "legal inside a callback" is exactly "the endpoint is in its slot".
//!   After an action the same invocation offers the next choice point, so one invocation can
//!   perform a whole sequence of actions.
//!   All assignments with <= D deviations (actions) in total are enumerated (stateless DFS over the deterministic
//!   execution: a program is (storage, main sequence, {choice point ordinal -> action})), nesting
//!   depth <= 2.
//!
//! Oracle: see `Ctx::op_*`, `quiescent`, `final_checks` and the `h_*` hook functions.
//!
//! Modes: parent (default) fans out to child processes (`VERIF_JOB`), `c07 inproc <main_len> <devs> <k>/<n>` runs a reduced
//! bound in-process (used under `cargo miri run`), `VERIF_REPLAY=<file>` re-runs one program.

use std::cell::{Cell, RefCell};
use std::collections::{BTreeMap, HashSet};
use std::future::Future;
use std::mem::ManuallyDrop;
use std::panic::{AssertUnwindSafe, catch_unwind};
use std::pin::Pin;
use std::task::{Context, Poll, RawWaker, RawWakerVTable, Waker};
use std::time::Duration;

use events_once::{
    BoxedLocalReceiver, BoxedLocalSender, Disconnected, EmbeddedLocalEvent, IntoValueError,
    LocalEvent, LocalEventPool, PooledLocalReceiver, PooledLocalSender, RawLocalEventPool,
    RawLocalPooledReceiver, RawLocalPooledSender, RawLocalReceiver, RawLocalSender, verif_hook,
};
use vcommon::serde_json::{Value, json};

// ---------------------------------------------------------------------------------------------
// Program vocabulary
// ---------------------------------------------------------------------------------------------

#[derive(Clone, Copy, PartialEq, Eq, Debug, Hash)]
enum Storage {
    Boxed,
    Embedded,
    Pooled,
    RawPooled,
}

impl Storage {
    const ALL: [Storage; 4] = [Storage::Boxed, Storage::Embedded, Storage::Pooled, Storage::RawPooled];
    fn name(self) -> &'static str {
        match self {
            Storage::Boxed => "boxed",
            Storage::Embedded => "embedded",
            Storage::Pooled => "pooled",
            Storage::RawPooled => "rawpooled",
        }
    }
    fn parse(s: &str) -> Option<Self> {
        Self::ALL.into_iter().find(|x| x.name() == s)
    }
}

#[derive(Clone, Copy, PartialEq, Eq, Debug, Hash)]
enum MainOp {
    Send,
    DropSender,
    Poll(u8),
    IsReady,
    IntoValue,
    DropReceiver,
}

impl MainOp {
    /// Simplest first.
    const ALL: [MainOp; 7] = [
        MainOp::Send,
        MainOp::DropSender,
        MainOp::Poll(1),
        MainOp::Poll(2),
        MainOp::IsReady,
        MainOp::IntoValue,
        MainOp::DropReceiver,
    ];
    fn name(self) -> String {
        match self {
            MainOp::Send => "send".into(),
            MainOp::DropSender => "dropS".into(),
            MainOp::Poll(i) => format!("poll{i}"),
            MainOp::IsReady => "is_ready".into(),
            MainOp::IntoValue => "into_value".into(),
            MainOp::DropReceiver => "dropR".into(),
        }
    }
    fn parse(s: &str) -> Option<Self> {
        Self::ALL.into_iter().find(|x| x.name() == s)
    }
}

/// What a callback does at one invocation.
#[derive(Clone, Copy, PartialEq, Eq, Debug, Hash)]
enum Act {
    Send,
    DropSender,
    PollRx,
    DropRx,
    IsReady,
}

impl Act {
    const ALL: [Act; 5] = [Act::Send, Act::DropSender, Act::PollRx, Act::DropRx, Act::IsReady];
    fn name(self) -> &'static str {
        match self {
            Act::Send => "send",
            Act::DropSender => "dropS",
            Act::PollRx => "pollrx",
            Act::DropRx => "dropR",
            Act::IsReady => "is_ready",
        }
    }
    fn parse(s: &str) -> Option<Self> {
        Self::ALL.into_iter().find(|x| x.name() == s)
    }
}

#[derive(Clone, Copy, PartialEq, Eq, Debug)]
enum CbKind {
    Clone,
    Wake,
    WakeByRef,
    Drop,
}

impl CbKind {
    fn name(self) -> &'static str {
        match self {
            CbKind::Clone => "clone",
            CbKind::Wake => "wake",
            CbKind::WakeByRef => "wake_by_ref",
            CbKind::Drop => "drop",
        }
    }
}

#[derive(Clone, Debug)]
struct Program {
    storage: Storage,
    main: Vec<MainOp>,
    /// (choice point ordinal, action), ascending ordinals.
    devs: Vec<(u32, Act)>,
}

impl Program {
    fn describe(&self) -> String {
        let main: Vec<String> = self.main.iter().map(|m| m.name()).collect();
        let devs: Vec<String> = self.devs.iter().map(|(o, a)| format!("#{o}={}", a.name())).collect();
        format!("{}|{}|{}", self.storage.name(), main.join(","), devs.join(","))
    }
    fn to_json(&self) -> Value {
        json!({
            "storage": self.storage.name(),
            "main": self.main.iter().map(|m| m.name()).collect::<Vec<_>>(),
            "devs": self.devs.iter().map(|(o, a)| json!([o, a.name()])).collect::<Vec<_>>(),
        })
    }
    fn from_json(v: &Value) -> Option<Self> {
        let storage = Storage::parse(v.get("storage")?.as_str()?)?;
        let main = v.get("main")?.as_array()?.iter().map(|m| MainOp::parse(m.as_str()?)).collect::<Option<Vec<_>>>()?;
        let devs = v
            .get("devs")?
            .as_array()?
            .iter()
            .map(|d| Some((u32::try_from(d.get(0)?.as_u64()?).ok()?, Act::parse(d.get(1)?.as_str()?)?)))
            .collect::<Option<Vec<_>>>()?;
        Some(Program { storage, main, devs })
    }
}

/// Maximum callback nesting depth at which a callback may still deviate.
const MAX_DEPTH: u32 = 2;

// ---------------------------------------------------------------------------------------------
// Payload
// ---------------------------------------------------------------------------------------------

const MAGIC: u32 = 0xC07_C07;
const SERIAL: u32 = 0x5EA1_0001;

struct Payload {
    magic: u32,
    serial: u32,
}

impl Payload {
    fn fresh() -> Self {
        Payload { magic: MAGIC, serial: SERIAL }
    }
    fn intact(&self) -> bool {
        self.magic == MAGIC && self.serial == SERIAL
    }
}

impl Drop for Payload {
    fn drop(&mut self) {
        let intact = self.intact();
        CTX.with(|c| {
            if !intact {
                c.violate("payload-garbage-dropped", "a payload with a corrupted body was dropped");
            }
            if c.harness_dropping.get() {
                c.payload_harness_drops.set(c.payload_harness_drops.get() + 1);
            } else {
                c.payload_event_drops.set(c.payload_event_drops.get() + 1);
            }
        });
    }
}

// ---------------------------------------------------------------------------------------------
// Endpoints behind object-safe traits (one implementation per storage strategy)
// ---------------------------------------------------------------------------------------------

trait Tx {
    fn send_box(self: Box<Self>, v: Payload);
}

enum IntoVal {
    Value(Payload),
    Pending(Box<dyn Rx>),
    Disconnected,
}

trait Rx {
    fn poll_rx(&mut self, w: &Waker) -> Poll<Result<Payload, Disconnected>>;
    fn ready(&self) -> bool;
    fn into_val(self: Box<Self>) -> IntoVal;
}

macro_rules! endpoints {
    ($s:ty, $r:ty) => {
        impl Tx for $s {
            fn send_box(self: Box<Self>, v: Payload) {
                (*self).send(v);
            }
        }
        impl Rx for $r {
            fn poll_rx(&mut self, w: &Waker) -> Poll<Result<Payload, Disconnected>> {
                let mut cx = Context::from_waker(w);
                Pin::new(self).poll(&mut cx)
            }
            fn ready(&self) -> bool {
                self.is_ready()
            }
            fn into_val(self: Box<Self>) -> IntoVal {
                match (*self).into_value() {
                    Ok(v) => IntoVal::Value(v),
                    Err(IntoValueError::Pending(r)) => IntoVal::Pending(Box::new(r)),
                    Err(IntoValueError::Disconnected) => IntoVal::Disconnected,
                }
            }
        }
    };
}

endpoints!(BoxedLocalSender<Payload>, BoxedLocalReceiver<Payload>);
endpoints!(RawLocalSender<Payload>, RawLocalReceiver<Payload>);
endpoints!(PooledLocalSender<Payload>, PooledLocalReceiver<Payload>);
endpoints!(RawLocalPooledSender<Payload>, RawLocalPooledReceiver<Payload>);

enum Store {
    Boxed,
    Embedded(#[allow(dead_code)] Pin<Box<EmbeddedLocalEvent<Payload>>>),
    Pooled(LocalEventPool<Payload>),
    RawPooled(Pin<Box<RawLocalEventPool<Payload>>>),
}

impl Store {
    fn len(&self) -> Option<(usize, bool)> {
        match self {
            Store::Boxed | Store::Embedded(_) => None,
            Store::Pooled(p) => Some((p.len(), p.is_empty())),
            Store::RawPooled(p) => Some((p.len(), p.is_empty())),
        }
    }
}

// ---------------------------------------------------------------------------------------------
// Per-execution context (thread-local; the event, the wakers and the hooks all reach it)
// ---------------------------------------------------------------------------------------------

#[derive(Clone, Copy, PartialEq, Eq)]
enum Inst {
    Live,
    Dropped,
    Woken,
}

#[derive(Clone, Debug)]
struct Point {
    ordinal: u32,
    kind: CbKind,
    widx: u8,
    nth: u32,
    /// Position within the action sequence of this invocation (0 = first action).
    step: usize,
    depth: u32,
    legal: Vec<Act>,
    label: String,
}

#[derive(Default)]
struct Ctx {
    storage: Cell<Option<Storage>>,
    devs: RefCell<Vec<(u32, Act)>>,
    store: RefCell<Option<Store>>,

    tx: RefCell<Option<Box<dyn Tx>>>,
    rx: RefCell<Option<Box<dyn Rx>>>,
    tx_gone: Cell<bool>,
    rx_completed: Cell<bool>,
    rx_gone: Cell<bool>,

    send_started: Cell<bool>,
    send_done: Cell<bool>,
    sdrop_started: Cell<bool>,
    sdrop_done: Cell<bool>,

    payload_created: Cell<u32>,
    payload_event_drops: Cell<u32>,
    payload_harness_drops: Cell<u32>,
    harness_dropping: Cell<bool>,
    handed: RefCell<Vec<Payload>>,

    /// Index 1 and 2 are w1/w2; index 0 unused.
    clones: [Cell<u32>; 3],
    drops: [Cell<u32>; 3],
    wakes_consumed: [Cell<u32>; 3],
    wakes_total: [Cell<u32>; 3],
    /// nth-invocation counters per (waker, kind) for reporting.
    nth: RefCell<BTreeMap<(u8, &'static str), u32>>,
    /// Instance table: id -> (waker index, state, is_original). Ids 1 and 2 are the originals.
    insts: RefCell<Vec<(u8, Inst, bool)>>,
    /// Most recent receiver poll returned Pending with this waker (0 = the no-op waker) and this
    /// many total wakes of that waker had been seen when the poll began.
    last_pending: Cell<Option<(u8, u32)>>,

    created: Cell<u32>,
    addr: Cell<usize>,
    released: Cell<u32>,
    release_label: RefCell<String>,
    rx_final: RefCell<String>,

    depth: Cell<u32>,
    max_depth_seen: Cell<u32>,
    cleanup: Cell<bool>,
    next_ordinal: Cell<u32>,
    points: RefCell<Vec<Point>>,
    labels: RefCell<Vec<&'static str>>,
    transitions: Cell<u64>,
    callbacks: Cell<u64>,
    violations: RefCell<Vec<(String, String)>>,
    nondet: RefCell<Option<String>>,
    trace: RefCell<Vec<String>>,
    logging: Cell<bool>,
    dev_stats: RefCell<Vec<String>>,
}

thread_local! {
    static CTX: Ctx = Ctx::default();
}

static VTABLE: RawWakerVTable = RawWakerVTable::new(vt_clone, vt_wake, vt_wake_by_ref, vt_drop);

fn raw_waker(id: usize) -> RawWaker {
    RawWaker::new(std::ptr::without_provenance::<()>(id), &VTABLE)
}

unsafe fn vt_clone(p: *const ()) -> RawWaker {
    let new_id = CTX.with(|c| c.cb_clone(p.addr()));
    raw_waker(new_id)
}
unsafe fn vt_wake(p: *const ()) {
    CTX.with(|c| c.cb_consume(p.addr(), CbKind::Wake));
}
unsafe fn vt_wake_by_ref(p: *const ()) {
    CTX.with(|c| c.cb_wake_by_ref(p.addr()));
}
unsafe fn vt_drop(p: *const ()) {
    CTX.with(|c| c.cb_consume(p.addr(), CbKind::Drop));
}

fn cb_label(kind: CbKind, widx: u8) -> &'static str {
    match (kind, widx) {
        (CbKind::Clone, 1) => "cb:clone1",
        (CbKind::Clone, _) => "cb:clone2",
        (CbKind::Wake, 1) => "cb:wake1",
        (CbKind::Wake, _) => "cb:wake2",
        (CbKind::WakeByRef, 1) => "cb:wake_by_ref1",
        (CbKind::WakeByRef, _) => "cb:wake_by_ref2",
        (CbKind::Drop, 1) => "cb:drop1",
        (CbKind::Drop, _) => "cb:drop2",
    }
}

fn bump(c: &Cell<u32>) {
    c.set(c.get() + 1);
}

impl Ctx {
    fn reset(&self, p: &Program) {
        self.storage.set(Some(p.storage));
        *self.devs.borrow_mut() = p.devs.clone();
        self.tx_gone.set(false);
        self.rx_completed.set(false);
        self.rx_gone.set(false);
        self.send_started.set(false);
        self.send_done.set(false);
        self.sdrop_started.set(false);
        self.sdrop_done.set(false);
        self.payload_created.set(0);
        self.payload_event_drops.set(0);
        self.payload_harness_drops.set(0);
        self.harness_dropping.set(false);
        for i in 0..3 {
            self.clones[i].set(0);
            self.drops[i].set(0);
            self.wakes_consumed[i].set(0);
            self.wakes_total[i].set(0);
        }
        self.nth.borrow_mut().clear();
        *self.insts.borrow_mut() = vec![(0, Inst::Dropped, true), (1, Inst::Live, true), (2, Inst::Live, true)];
        self.last_pending.set(None);
        self.created.set(0);
        self.addr.set(0);
        self.released.set(0);
        self.release_label.borrow_mut().clear();
        self.rx_final.borrow_mut().clear();
        self.depth.set(0);
        self.max_depth_seen.set(0);
        self.cleanup.set(false);
        self.next_ordinal.set(0);
        self.points.borrow_mut().clear();
        self.labels.borrow_mut().clear();
        self.transitions.set(0);
        self.callbacks.set(0);
        self.violations.borrow_mut().clear();
        *self.nondet.borrow_mut() = None;
        self.trace.borrow_mut().clear();
        self.dev_stats.borrow_mut().clear();
    }

    fn label(&self) -> String {
        self.labels.borrow().join(">")
    }

    fn log(&self, f: impl FnOnce() -> String) {
        if self.logging.get() {
            self.trace.borrow_mut().push(f());
        }
    }

    /// Records a violation; the key is the oracle clause plus the operation context (call-site
    /// shape) in which it fired, which is bounded in number and stable across runs.
    fn violate(&self, kind: &str, what: &str) {
        let at = self.label();
        let at = if at.is_empty() { "quiescent".to_string() } else { at };
        self.log(|| format!("!! {kind}: {what}"));
        self.violations.borrow_mut().push((format!("{kind}@{at}"), what.to_string()));
    }

    fn tx_in_slot(&self) -> bool {
        self.tx.borrow().is_some()
    }
    fn rx_in_slot(&self) -> bool {
        self.rx.borrow().is_some()
    }

    /// An endpoint sitting in its slot is alive and not operating, so the event it refers to
    /// must not have been released.
    fn chk_live(&self) {
        if self.released.get() > 0 {
            if self.tx_in_slot() {
                self.violate("released-while-sender-live", "event storage released although the sender has not acted yet");
            }
            if self.rx_in_slot() && !self.rx_completed.get() {
                self.violate(
                    "released-while-receiver-live",
                    "event storage released although the receiver has neither completed nor been dropped",
                );
            }
        }
    }

    // ---- waker callbacks ---------------------------------------------------------------------

    fn nth_of(&self, widx: u8, kind: CbKind) -> u32 {
        let mut m = self.nth.borrow_mut();
        let e = m.entry((widx, kind.name())).or_insert(0);
        *e += 1;
        *e
    }

    fn inst(&self, id: usize) -> Option<(u8, Inst, bool)> {
        self.insts.borrow().get(id).copied()
    }

    fn cb_clone(&self, id: usize) -> usize {
        self.callbacks.set(self.callbacks.get() + 1);
        let Some((widx, state, _)) = self.inst(id) else {
            self.violate("waker-unknown-instance", "clone called on a waker the harness never created");
            return 0;
        };
        if state != Inst::Live {
            self.violate("waker-clone-after-consume", "clone called on a waker instance that was already dropped or woken");
        }
        bump(&self.clones[widx as usize]);
        let new_id = {
            let mut t = self.insts.borrow_mut();
            t.push((widx, Inst::Live, false));
            t.len() - 1
        };
        self.log(|| format!("{}cb clone w{widx} -> inst{new_id}", "  ".repeat(self.depth.get() as usize + 1)));
        self.choice(CbKind::Clone, widx);
        new_id
    }

    fn cb_consume(&self, id: usize, kind: CbKind) {
        self.callbacks.set(self.callbacks.get() + 1);
        let Some((widx, state, original)) = self.inst(id) else {
            self.violate("waker-unknown-instance", "wake/drop called on a waker the harness never created");
            return;
        };
        if original {
            // The harness never lets an original be consumed (ManuallyDrop); the event only ever
            // holds clones.
            self.violate("waker-original-consumed", "the event consumed a waker it was only lent by reference");
            return;
        }
        if state != Inst::Live {
            let how = if state == Inst::Dropped { "dropped" } else { "woken" };
            self.violate(
                "waker-consumed-twice",
                &format!("{} called on waker clone inst{id} of w{widx} that was already {how}", kind.name()),
            );
        }
        self.insts.borrow_mut()[id].1 = if kind == CbKind::Drop { Inst::Dropped } else { Inst::Woken };
        if kind == CbKind::Drop {
            bump(&self.drops[widx as usize]);
        } else {
            bump(&self.wakes_consumed[widx as usize]);
            bump(&self.wakes_total[widx as usize]);
        }
        self.log(|| format!("{}cb {} w{widx} inst{id}", "  ".repeat(self.depth.get() as usize + 1), kind.name()));
        self.choice(kind, widx);
    }

    fn cb_wake_by_ref(&self, id: usize) {
        self.callbacks.set(self.callbacks.get() + 1);
        let Some((widx, state, _)) = self.inst(id) else {
            self.violate("waker-unknown-instance", "wake_by_ref called on a waker the harness never created");
            return;
        };
        if state != Inst::Live {
            self.violate("waker-used-after-consume", "wake_by_ref called on a consumed waker instance");
        }
        bump(&self.wakes_total[widx as usize]);
        self.log(|| format!("{}cb wake_by_ref w{widx} inst{id}", "  ".repeat(self.depth.get() as usize + 1)));
        self.choice(CbKind::WakeByRef, widx);
    }

    fn legal_acts(&self) -> Vec<Act> {
        let mut v = Vec::new();
        if self.tx_in_slot() {
            v.push(Act::Send);
            v.push(Act::DropSender);
        }
        if self.rx_in_slot() {
            if !self.rx_completed.get() {
                v.push(Act::PollRx);
            }
            v.push(Act::DropRx);
            if !self.rx_completed.get() {
                v.push(Act::IsReady);
            }
        }
        v
    }

    /// One callback invocation = one choice point (unless in the cleanup phase or too deep).
    fn choice(&self, kind: CbKind, widx: u8) {
        self.chk_live();
        let depth = self.depth.get() + 1;
        if depth > self.max_depth_seen.get() {
            self.max_depth_seen.set(depth);
        }
        let nth = self.nth_of(widx, kind);
        if self.cleanup.get() || depth > MAX_DEPTH {
            return;
        }
        // The callback may perform a *sequence* of actions: after each action the same invocation
        // offers the next choice point, until it answers "nothing" (the total deviation bound of the program is the only cap).
        for step in 0.. {
            let ordinal = self.next_ordinal.get();
            self.next_ordinal.set(ordinal + 1);
            let legal = self.legal_acts();
            self.points.borrow_mut().push(Point { ordinal, kind, widx, nth, step, depth, legal: legal.clone(), label: self.label() });
            let act = self.devs.borrow().iter().find(|(o, _)| *o == ordinal).map(|(_, a)| *a);
            let Some(act) = act else { return };
            if !legal.contains(&act) {
                *self.nondet.borrow_mut() =
                    Some(format!("deviation #{ordinal}={} is not legal at its choice point (legal: {legal:?})", act.name()));
                return;
            }
            self.dev_stats.borrow_mut().push(format!("{}/{}/d{depth}", kind.name(), act.name()));
            if step > 0 {
                self.dev_stats.borrow_mut().push(format!("sequence-step-{}", step + 1));
            }
            self.depth.set(depth);
            self.labels.borrow_mut().push(cb_label(kind, widx));
            match act {
                Act::Send => self.op_send(),
                Act::DropSender => self.op_drop_sender(),
                Act::PollRx => self.op_poll(0),
                Act::DropRx => self.op_drop_rx(),
                Act::IsReady => self.op_is_ready(),
            }
            self.labels.borrow_mut().pop();
            self.depth.set(depth - 1);
            self.chk_live();
        }
    }

    // ---- endpoint operations (used by the main program and by callbacks alike) -----------------

    fn indent(&self) -> String {
        "  ".repeat(self.depth.get() as usize)
    }

    fn op_send(&self) {
        let tx = self.tx.borrow_mut().take().expect("legal send");
        self.labels.borrow_mut().push("send");
        self.transitions.set(self.transitions.get() + 1);
        self.log(|| format!("{}send", self.indent()));
        self.send_started.set(true);
        bump(&self.payload_created);
        tx.send_box(Payload::fresh());
        self.send_done.set(true);
        self.tx_gone.set(true);
        self.labels.borrow_mut().pop();
    }

    fn op_drop_sender(&self) {
        let tx = self.tx.borrow_mut().take().expect("legal drop-sender");
        self.labels.borrow_mut().push("dropS");
        self.transitions.set(self.transitions.get() + 1);
        self.log(|| format!("{}drop-sender", self.indent()));
        self.sdrop_started.set(true);
        drop(tx);
        self.sdrop_done.set(true);
        self.tx_gone.set(true);
        self.labels.borrow_mut().pop();
    }

    fn accept_value(&self, v: Payload, how: &str) {
        if !v.intact() {
            self.violate("payload-garbage-received", "the receiver was handed a payload with a corrupted body");
        }
        if !self.send_started.get() {
            self.violate("value-without-send", "the receiver obtained a value although nothing was sent");
        }
        if !self.handed.borrow().is_empty() {
            self.violate("payload-duplicated", "the receiver was handed the payload a second time");
        }
        if self.payload_event_drops.get() > 0 {
            self.violate("payload-handed-after-drop", "the receiver was handed a payload that the event already destroyed");
        }
        self.handed.borrow_mut().push(v);
        *self.rx_final.borrow_mut() = format!("value@{how}");
    }

    fn accept_disconnected(&self, how: &str) {
        if self.send_started.get() {
            self.violate("disconnected-despite-send", "the receiver reported Disconnected although a value was sent");
        } else if !self.sdrop_started.get() {
            self.violate("spurious-disconnected", "the receiver reported Disconnected although the sender is still alive");
        }
        *self.rx_final.borrow_mut() = format!("disconnected@{how}");
    }

    /// `widx` 1/2 = custom waker, 0 = the plain no-op waker (used by callbacks).
    fn op_poll(&self, widx: u8) {
        let mut rx = self.rx.borrow_mut().take().expect("legal poll");
        let in_cb = self.depth.get() > 0;
        self.labels.borrow_mut().push(match widx {
            0 => "pollrx",
            1 => "poll1",
            _ => "poll2",
        });
        self.transitions.set(self.transitions.get() + 1);
        let acted_at_start = self.send_started.get() || self.sdrop_started.get();
        let wakes_at_start = self.wakes_total[widx as usize].get();
        let r = if widx == 0 {
            rx.poll_rx(Waker::noop())
        } else {
            // SAFETY: the vtable functions uphold the RawWaker contract (they only do bookkeeping
            // on an integer id); the original is never dropped through the vtable.
            let w = ManuallyDrop::new(unsafe { Waker::from_raw(raw_waker(widx as usize)) });
            rx.poll_rx(&w)
        };
        let how = if in_cb { "cb-poll" } else { "poll" };
        match r {
            Poll::Ready(Ok(v)) => {
                self.log(|| format!("{}poll(w{widx}) -> Ready(value)", self.indent()));
                self.accept_value(v, how);
                self.rx_completed.set(true);
                self.last_pending.set(None);
            }
            Poll::Ready(Err(Disconnected)) => {
                self.log(|| format!("{}poll(w{widx}) -> Ready(Disconnected)", self.indent()));
                self.accept_disconnected(how);
                self.rx_completed.set(true);
                self.last_pending.set(None);
            }
            Poll::Pending => {
                self.log(|| format!("{}poll(w{widx}) -> Pending", self.indent()));
                if acted_at_start {
                    // Covers "poll the receiver to completion from a wake callback": the terminal
                    // state is documented to be published before the callback runs.
                    self.violate(
                        "pending-after-sender-acted",
                        "poll returned Pending although the send / sender drop had already begun before the poll started",
                    );
                }
                self.last_pending.set(Some((widx, wakes_at_start)));
            }
        }
        *self.rx.borrow_mut() = Some(rx);
        self.labels.borrow_mut().pop();
    }

    fn op_is_ready(&self) {
        let rx = self.rx.borrow_mut().take().expect("legal is_ready");
        self.labels.borrow_mut().push("is_ready");
        self.transitions.set(self.transitions.get() + 1);
        let got = rx.ready();
        let want = self.send_started.get() || self.sdrop_started.get();
        self.log(|| format!("{}is_ready -> {got}", self.indent()));
        if got != want {
            self.violate("is-ready-mismatch", &format!("is_ready returned {got}, the model says {want}"));
        }
        *self.rx.borrow_mut() = Some(rx);
        self.labels.borrow_mut().pop();
    }

    fn op_into_value(&self) {
        let rx = self.rx.borrow_mut().take().expect("legal into_value");
        self.labels.borrow_mut().push("into_value");
        self.transitions.set(self.transitions.get() + 1);
        let acted = self.send_started.get() || self.sdrop_started.get();
        match rx.into_val() {
            IntoVal::Value(v) => {
                self.log(|| format!("{}into_value -> value", self.indent()));
                self.accept_value(v, "into_value");
                self.rx_gone.set(true);
            }
            IntoVal::Disconnected => {
                self.log(|| format!("{}into_value -> Disconnected", self.indent()));
                self.accept_disconnected("into_value");
                self.rx_gone.set(true);
            }
            IntoVal::Pending(rx) => {
                self.log(|| format!("{}into_value -> Pending(self)", self.indent()));
                if acted {
                    self.violate("into-value-pending-after-sender-acted", "into_value returned Pending although the sender already acted");
                }
                *self.rx.borrow_mut() = Some(rx);
            }
        }
        self.labels.borrow_mut().pop();
    }

    fn op_drop_rx(&self) {
        let rx = self.rx.borrow_mut().take().expect("legal drop-receiver");
        self.labels.borrow_mut().push("dropR");
        self.transitions.set(self.transitions.get() + 1);
        self.log(|| format!("{}drop-receiver", self.indent()));
        if !self.rx_completed.get() {
            *self.rx_final.borrow_mut() = if self.send_started.get() {
                "dropped-with-unreceived-value".into()
            } else if self.sdrop_started.get() {
                "dropped-after-disconnect".into()
            } else {
                "dropped-pending".into()
            };
        }
        drop(rx);
        self.rx_gone.set(true);
        self.labels.borrow_mut().pop();
    }

    fn legal_main(&self, op: MainOp) -> bool {
        match op {
            MainOp::Send | MainOp::DropSender => self.tx_in_slot(),
            MainOp::Poll(_) | MainOp::IsReady | MainOp::IntoValue => self.rx_in_slot() && !self.rx_completed.get(),
            MainOp::DropReceiver => self.rx_in_slot(),
        }
    }

    fn exec_main(&self, op: MainOp) {
        match op {
            MainOp::Send => self.op_send(),
            MainOp::DropSender => self.op_drop_sender(),
            MainOp::Poll(i) => self.op_poll(i),
            MainOp::IsReady => self.op_is_ready(),
            MainOp::IntoValue => self.op_into_value(),
            MainOp::DropReceiver => self.op_drop_rx(),
        }
    }

    // ---- oracle at quiescent points ------------------------------------------------------------

    fn quiescent(&self) {
        self.chk_live();
        let created = self.payload_created.get();
        let accounted = self.handed.borrow().len() as u32 + self.payload_event_drops.get();
        if accounted > created {
            self.violate(
                "payload-over-accounted",
                &format!("{created} payload(s) sent but {accounted} handed-or-destroyed"),
            );
        }
        let rx_done = self.rx_gone.get() || self.rx_completed.get();
        if self.send_done.get() && rx_done && accounted != 1 {
            self.violate(
                "payload-not-settled",
                &format!("send completed and the receiver is finished, but handed+destroyed = {accounted} (want 1)"),
            );
        }
        // Storage released exactly when both sides are finished.
        let both_done = self.tx_gone.get() && rx_done;
        let want_released = u32::from(both_done);
        if self.released.get() != want_released {
            self.violate(
                "release-count",
                &format!(
                    "release hook fired {} time(s), want {want_released} (sender finished: {}, receiver finished: {rx_done})",
                    self.released.get(),
                    self.tx_gone.get()
                ),
            );
        }
        if self.created.get() != 1 {
            self.violate("created-count", &format!("{} events initialised for one pair of endpoints", self.created.get()));
        }
        let pool = self.store.borrow().as_ref().and_then(Store::len);
        if let Some((len, empty)) = pool {
            let want = 1 - want_released as usize;
            if len != want || empty != (want == 0) {
                self.violate("pool-len", &format!("pool reports len {len} / is_empty {empty}, want len {want}"));
            }
        }
        // Wake obligation.
        if !rx_done && (self.send_done.get() || self.sdrop_done.get()) {
            if let Some((w, at_start)) = self.last_pending.get() {
                if w != 0 && self.wakes_total[w as usize].get() <= at_start {
                    self.violate(
                        "lost-wakeup",
                        &format!("the most recent poll returned Pending with w{w}, the sender has acted since, and w{w} was never woken"),
                    );
                }
            }
        }
    }

    fn final_checks(&self) {
        self.quiescent();
        for w in 1..=2usize {
            let (c, d, k) = (self.clones[w].get(), self.drops[w].get(), self.wakes_consumed[w].get());
            if c != d + k {
                self.violate("waker-balance", &format!("w{w}: {c} clones but {d} drops + {k} consuming wakes"));
            }
        }
        if self.insts.borrow().iter().any(|(_, s, orig)| !orig && *s == Inst::Live) {
            self.violate("waker-leaked", "a waker clone is still alive after both endpoints are gone");
        }
        if self.storage.get() == Some(Storage::Embedded) && self.released.get() > 0 {
            let n = size_of::<EmbeddedLocalEvent<Payload>>();
            let base = self.addr.get() as *const u8;
            // SAFETY: the storage box is still alive (held in `self.store`), nothing references it
            // any more, and every byte was initialised by the poison fill in the release hook.
            let clean = (0..n).all(|i| unsafe { base.add(i).read() } == 0xDD);
            if !clean {
                self.violate("write-after-release", "embedded storage was written after the event was released");
            }
        }
        // Hand the received payload back so that the total number of destructions can be checked.
        self.harness_dropping.set(true);
        self.handed.borrow_mut().clear();
        self.harness_dropping.set(false);
        let total = self.payload_event_drops.get() + self.payload_harness_drops.get();
        if total != self.payload_created.get() {
            self.violate(
                "payload-leak-or-double-drop",
                &format!("{} payload(s) created, {total} destroyed in total", self.payload_created.get()),
            );
        }
    }
}

// ---- hooks (installed once per process; they act on the calling thread's context) ---------------

fn h_created(addr: usize) {
    CTX.with(|c| {
        bump(&c.created);
        c.addr.set(addr);
        c.released.set(0);
    });
}

fn h_touch(addr: usize) {
    CTX.with(|c| {
        if addr != c.addr.get() {
            c.violate("touch-foreign-address", "an event operation ran on storage that is not the event under test");
        } else if c.released.get() > 0 {
            c.violate("touch-after-release", "an event operation accessed the event after its storage was released");
        }
    });
}

fn h_field(addr: usize, which: u8) {
    CTX.with(|c| {
        if addr != c.addr.get() || c.released.get() > 0 {
            let f = if which == verif_hook::FIELD_AWAITER { "awaiter" } else { "value" };
            c.violate("field-after-release", &format!("the {f} cell was accessed after the event storage was released"));
        }
    });
}

fn h_release(addr: usize) {
    CTX.with(|c| {
        if addr != c.addr.get() {
            c.violate("release-foreign-address", "release_event ran for storage that is not the event under test");
            return;
        }
        bump(&c.released);
        if c.released.get() > 1 {
            c.violate("double-release", "release_event ran twice for the same event");
            return;
        }
        let innermost = c.labels.borrow().last().copied().unwrap_or_default();
        *c.release_label.borrow_mut() = format!("{innermost}@d{}", c.depth.get());
        c.chk_live();
        if c.storage.get() == Some(Storage::Embedded) {
            // SAFETY: the harness owns this storage; the event declared it released, so nothing may
            // read or write it any more. Any later write shows up in `final_checks`, any later read
            // of the state byte hits an `unreachable!` arm.
            unsafe { std::ptr::write_bytes(addr as *mut u8, 0xDD, size_of::<EmbeddedLocalEvent<Payload>>()) };
        }
    });
}

// ---------------------------------------------------------------------------------------------
// Running one program
// ---------------------------------------------------------------------------------------------

struct RunResult {
    points: Vec<Point>,
    abandoned_at: Option<usize>,
    violations: Vec<(String, String)>,
    outcome: String,
    transitions: u64,
    callbacks: u64,
    max_depth: u32,
    nondet: Option<String>,
    trace: Vec<String>,
    dev_stats: Vec<String>,
}

fn make_store(c: &Ctx, storage: Storage) {
    let (tx, rx, store): (Box<dyn Tx>, Box<dyn Rx>, Store) = match storage {
        Storage::Boxed => {
            let (s, r) = LocalEvent::<Payload>::boxed();
            (Box::new(s), Box::new(r), Store::Boxed)
        }
        Storage::Embedded => {
            let mut place = Box::pin(EmbeddedLocalEvent::<Payload>::new());
            // SAFETY: fresh container; it is kept in the context until both endpoints are gone (or
            // leaked together with them after a panic) and stays pinned in its box.
            let (s, r) = unsafe { LocalEvent::placed(place.as_mut()) };
            (Box::new(s), Box::new(r), Store::Embedded(place))
        }
        Storage::Pooled => {
            let pool = LocalEventPool::<Payload>::new();
            let (s, r) = pool.rent();
            (Box::new(s), Box::new(r), Store::Pooled(pool))
        }
        Storage::RawPooled => {
            let pool = Box::pin(RawLocalEventPool::<Payload>::new());
            // SAFETY: the pool outlives both endpoints (same argument as for the embedded place).
            let (s, r) = unsafe { pool.as_ref().rent() };
            (Box::new(s), Box::new(r), Store::RawPooled(pool))
        }
    };
    *c.tx.borrow_mut() = Some(tx);
    *c.rx.borrow_mut() = Some(rx);
    *c.store.borrow_mut() = Some(store);
}

fn run(p: &Program, logging: bool) -> RunResult {
    CTX.with(|c| {
        c.reset(p);
        c.logging.set(logging);
        let mut abandoned_at = None;
        let body = catch_unwind(AssertUnwindSafe(|| {
            make_store(c, p.storage);
            c.quiescent();
            for (i, op) in p.main.iter().enumerate() {
                if !c.legal_main(*op) {
                    abandoned_at = Some(i);
                    break;
                }
                c.exec_main(*op);
                c.quiescent();
            }
            // Cleanup phase: remaining endpoints are dropped, callbacks keep counting but no longer
            // deviate (explicit drops with deviating callbacks are part of the main alphabet).
            c.cleanup.set(true);
            if c.tx_in_slot() {
                c.op_drop_sender();
                c.quiescent();
            }
            if c.rx_in_slot() {
                c.op_drop_rx();
            }
            c.final_checks();
        }));
        if let Err(e) = body {
            // The harness only performs operations that the documentation allows, so any panic
            // comes from the code under test (typically an `unreachable!` state).
            let msg = vcommon::panic_message(&*e);
            let short: String = msg.chars().take(160).collect();
            c.violate("panic", &format!("panicked: {short}"));
            // State is unknown: leak instead of running more code on it.
            std::mem::forget(c.tx.borrow_mut().take());
            std::mem::forget(c.rx.borrow_mut().take());
            std::mem::forget(c.store.borrow_mut().take());
            let handed = std::mem::take(&mut *c.handed.borrow_mut());
            std::mem::forget(handed);
        } else {
            // Endpoints are gone; now the storage may go.
            drop(c.store.borrow_mut().take());
        }
        let rx_final = c.rx_final.borrow().clone();
        let outcome = format!(
            "rx={} release={}",
            if rx_final.is_empty() { "?" } else { rx_final.as_str() },
            c.release_label.borrow()
        );
        RunResult {
            points: std::mem::take(&mut *c.points.borrow_mut()),
            abandoned_at,
            violations: std::mem::take(&mut *c.violations.borrow_mut()),
            outcome,
            transitions: c.transitions.get(),
            callbacks: c.callbacks.get(),
            max_depth: c.max_depth_seen.get(),
            nondet: c.nondet.borrow_mut().take(),
            trace: std::mem::take(&mut *c.trace.borrow_mut()),
            dev_stats: std::mem::take(&mut *c.dev_stats.borrow_mut()),
        }
    })
}

// ---------------------------------------------------------------------------------------------
// Enumeration
// ---------------------------------------------------------------------------------------------

/// All main sequences up to `max_len`, pruned by what is statically certain (one sender action,
/// nothing on the receiver after it was dropped). The rest of legality is decided when it runs.
fn main_sequences(max_len: usize) -> Vec<Vec<MainOp>> {
    fn rec(cur: &mut Vec<MainOp>, max_len: usize, out: &mut Vec<Vec<MainOp>>) {
        out.push(cur.clone());
        if cur.len() == max_len {
            return;
        }
        let sender_used = cur.iter().any(|o| matches!(o, MainOp::Send | MainOp::DropSender));
        let rx_dropped = cur.iter().any(|o| matches!(o, MainOp::DropReceiver));
        for op in MainOp::ALL {
            let on_sender = matches!(op, MainOp::Send | MainOp::DropSender);
            if (on_sender && sender_used) || (!on_sender && rx_dropped) {
                continue;
            }
            cur.push(op);
            rec(cur, max_len, out);
            cur.pop();
        }
    }
    let mut out = Vec::new();
    rec(&mut Vec::new(), max_len, &mut out);
    out.sort_by_key(|s| s.len());
    out
}

#[derive(Default)]
struct Stats {
    evaluations: u64,
    programs: u64,
    abandoned: u64,
    nontrivial: u64,
    transitions: u64,
    callbacks: u64,
    choice_points: u64,
    max_depth: u32,
    max_devs_used: usize,
    by_devs: Vec<u64>,
    hashes: HashSet<u64>,
    outcomes: BTreeMap<String, u64>,
    dev_stats: BTreeMap<String, u64>,
    /// key -> (programs hitting it, size of the kept witness, summary, replay)
    violations: BTreeMap<String, (u64, u64, String, Value)>,
    samples: Vec<Value>,
    engine_failure: Option<String>,
}

impl Stats {
    fn to_json(&self) -> Value {
        json!({
            "evaluations": self.evaluations,
            "programs": self.programs,
            "abandoned": self.abandoned,
            "nontrivial": self.nontrivial,
            "transitions": self.transitions,
            "callbacks": self.callbacks,
            "choice_points": self.choice_points,
            "max_depth": self.max_depth,
            "max_devs_used": self.max_devs_used,
            "by_devs": self.by_devs,
            "distinct": self.hashes.len(),
            "outcomes": self.outcomes,
            "dev_stats": self.dev_stats,
            "violations": self.violations.iter().map(|(k, (n, z, s, r))| json!({"key": k, "n": n, "size": z, "summary": s, "replay": r})).collect::<Vec<_>>(),
            "samples": self.samples,
            "engine_failure": self.engine_failure,
        })
    }
}

fn replay_json(p: &Program, r: &RunResult) -> Value {
    let mut v = p.to_json();
    let o = v.as_object_mut().unwrap();
    o.insert(
        "deviations_explained".into(),
        json!(p.devs.iter().map(|(ord, a)| {
            let pt = r.points.iter().find(|pt| pt.ordinal == *ord);
            match pt {
                Some(pt) => format!("{}-th {} of w{} (depth {}, inside {}), action {} of that invocation: {}", pt.nth, pt.kind.name(), pt.widx, pt.depth, pt.label, pt.step + 1, a.name()),
                None => format!("#{ord} performs {} (choice point not reached)", a.name()),
            }
        }).collect::<Vec<_>>()),
    );
    o.insert("trace".into(), json!(r.trace));
    v
}

fn explore(p: &mut Program, bound: usize, st: &mut Stats, trace_cur: bool) {
    if st.engine_failure.is_some() {
        return;
    }
    if trace_cur {
        println!("@@CUR {}", p.describe());
    }
    let mut r = run(p, false);
    st.evaluations += 1;
    if let Some(n) = &r.nondet {
        st.engine_failure = Some(format!("harness nondeterminism in {}: {n}", p.describe()));
        return;
    }
    // Every planned deviation must have been reached (determinism of the replayed prefix).
    if let Some((o, _)) = p.devs.last() {
        if !r.points.iter().any(|pt| pt.ordinal == *o) {
            st.engine_failure = Some(format!("harness nondeterminism in {}: choice point #{o} not reached", p.describe()));
            return;
        }
    }
    let want_sample = r.abandoned_at.is_none() && p.devs.len() >= 1 && p.main.len() >= 2 && st.samples.len() < 2 && r.max_depth >= 2;
    if r.violations.iter().any(|(k, _)| st.violations.get(k).is_none_or(|e| (p.main.len() + p.devs.len()) as u64 > 0 && ((p.main.len() + p.devs.len()) as u64) < e.1)) || want_sample {
        // Re-run with the step log switched on (the harness is deterministic) to get the trace.
        r.trace = run(p, true).trace;
    }
    let size = (p.main.len() + p.devs.len()) as u64;
    for (key, summary) in &r.violations {
        let fresh = || (0, size, format!("{summary} [program {}]", p.describe()), replay_json(p, &r));
        let e = st.violations.entry(key.clone()).or_insert_with(fresh);
        if size < e.1 {
            let n = e.0;
            *e = fresh();
            e.0 = n;
        }
        e.0 += 1;
    }
    if r.abandoned_at.is_some() {
        // Not a program of the family (its legal prefix is enumerated as its own main sequence);
        // deviations at the choice points it did reach may still make it legal, so we branch below.
        st.abandoned += 1;
    } else {
        st.programs += 1;
        st.hashes.insert(vcommon::hash_str(&p.describe()));
        if r.callbacks > 0 {
            st.nontrivial += 1;
        }
        st.transitions += r.transitions + r.callbacks;
        st.callbacks += r.callbacks;
        st.choice_points += r.points.len() as u64;
        for pt in &r.points {
            let k = if pt.legal.is_empty() { "choice-points-without-legal-action" } else { "choice-points-with-legal-action" };
            *st.dev_stats.entry(format!("{k}/{}/d{}", pt.kind.name(), pt.depth)).or_insert(0) += 1;
        }
        st.max_depth = st.max_depth.max(r.max_depth);
        st.max_devs_used = st.max_devs_used.max(p.devs.len());
        if st.by_devs.len() <= p.devs.len() {
            st.by_devs.resize(p.devs.len() + 1, 0);
        }
        st.by_devs[p.devs.len()] += 1;
        *st.outcomes.entry(r.outcome.clone()).or_insert(0) += 1;
        for d in &r.dev_stats {
            *st.dev_stats.entry(d.clone()).or_insert(0) += 1;
        }
        if want_sample {
            st.samples.push(json!({"program": p.describe(), "outcome": r.outcome, "trace": r.trace}));
        }
    }
    if p.devs.len() >= bound {
        return;
    }
    let last = p.devs.last().map(|d| i64::from(d.0)).unwrap_or(-1);
    for pt in &r.points {
        if i64::from(pt.ordinal) <= last {
            continue;
        }
        for act in &pt.legal {
            p.devs.push((pt.ordinal, *act));
            explore(p, bound, st, trace_cur);
            p.devs.pop();
        }
    }
}

fn install_hooks() {
    verif_hook::install(verif_hook::Hooks { created: h_created, touch: h_touch, field: h_field, release: h_release });
}

struct Bounds {
    main_len: usize,
    devs: usize,
}

fn bounds() -> Bounds {
    let env = |k: &str| std::env::var(k).ok().and_then(|v| v.parse::<usize>().ok());
    let (l, d) = if vcommon::is_thorough() { (7, 4) } else { (4, 2) };
    Bounds { main_len: env("C07_MAIN_LEN").unwrap_or(l), devs: env("C07_DEVS").unwrap_or(d) }
}

const SHARDS: usize = 8;

fn run_shard(storage: Storage, shard: usize, shards: usize, b: &Bounds, trace_cur: bool) -> Stats {
    let mut st = Stats::default();
    for (i, m) in main_sequences(b.main_len).into_iter().enumerate() {
        if i % shards != shard {
            continue;
        }
        let mut p = Program { storage, main: m, devs: Vec::new() };
        explore(&mut p, b.devs, &mut st, trace_cur);
    }
    st
}

// ---------------------------------------------------------------------------------------------
// Entry points
// ---------------------------------------------------------------------------------------------

fn child(job: &str) {
    vcommon::quiet_panics();
    install_hooks();
    let mut it = job.split(':');
    let storage = Storage::parse(it.next().unwrap()).expect("storage");
    let shard: usize = it.next().unwrap().parse().unwrap();
    let trace_cur = std::env::var("C07_TRACE").is_ok();
    let st = run_shard(storage, shard, SHARDS, &bounds(), trace_cur);
    vcommon::child_result(&st.to_json());
}

/// Reduced bound, in-process, no subprocesses: this is what runs under Miri.
fn miri_main(args: &[String]) {
    // Parameters come as command-line arguments: `cargo miri run` bakes the *build-time* environment
    // into its runner stub, so environment variables cannot carry per-run parameters.
    // SAFETY: single-threaded, nothing else reads the environment concurrently.
    unsafe {
        std::env::set_var("RUST_LIB_BACKTRACE", "0");
        std::env::set_var("RUST_BACKTRACE", "0");
    }
    install_hooks();
    let num = |i: usize, d: usize| args.get(i).and_then(|v| v.parse::<usize>().ok()).unwrap_or(d);
    let b = Bounds { main_len: num(0, 3), devs: num(1, 1) };
    let (shard, shards) = args
        .get(2)
        .and_then(|v| {
            let (a, b) = v.split_once('/')?;
            Some((a.parse::<usize>().ok()?, b.parse::<usize>().ok()?))
        })
        .unwrap_or((0, 1));
    let storages: Vec<Storage> = match args.get(3) {
        Some(s) => s.split(',').filter_map(Storage::parse).collect(),
        None => vec![Storage::Boxed],
    };
    let mut total = 0;
    let mut viol = 0;
    for s in storages {
        let st = run_shard(s, shard, shards, &b, false);
        if let Some(e) = &st.engine_failure {
            println!("C07-INPROC engine failure: {e}");
            std::process::exit(2);
        }
        total += st.programs;
        for (k, (n, _, s, _)) in &st.violations {
            println!("C07-INPROC violation key={k} n={n} {s}");
            viol += 1;
        }
    }
    println!("C07-INPROC programs={total} main_len<={} devs<={} shard={shard}/{shards} violation_keys={viol}", b.main_len, b.devs);
    if viol > 0 {
        std::process::exit(1);
    }
    // Return normally so that Miri performs its leak check.
}

fn replay_main(path: &str) {
    install_hooks();
    let text = std::fs::read_to_string(path).expect("replay file");
    let v: Value = vcommon::serde_json::from_str(&text).expect("replay json");
    let pv = v.get("replay").unwrap_or(&v);
    let p = Program::from_json(pv).expect("replay program");
    let r = run(&p, true);
    println!("program: {}", p.describe());
    for l in &r.trace {
        println!("  {l}");
    }
    println!("outcome: {}", r.outcome);
    for (k, s) in &r.violations {
        println!("VIOLATION property=C07 key={k} :: {s}");
    }
    std::process::exit(if r.violations.is_empty() { 0 } else { 1 });
}

const MIRI_SHARDS: usize = 8;

/// Starts the Miri pass (all storages, main <= 3, deviations <= 2, split into shards that run
/// concurrently with the native enumeration). Miri interprets every enumerated program; it is an
/// additional memory-error oracle (use-after-free, double free, aliasing, leaks), not the decider.
fn spawn_miri() -> Vec<std::io::Result<std::process::Child>> {
    use std::process::{Command, Stdio};
    let root = vcommon::verif_root();
    let manifest = root.join("harness").join("Cargo.toml");
    (0..MIRI_SHARDS)
        .map(|k| {
            Command::new("cargo")
                .args(["+nightly", "miri", "run", "--offline", "-q", "--manifest-path"])
                .arg(&manifest)
                .args(["-p", "c07", "--", "inproc", "3", "2"])
                .arg(format!("{k}/{MIRI_SHARDS}"))
                .arg("boxed,embedded,pooled,rawpooled")
                .env("CARGO_TARGET_DIR", root.join("target").join("miri"))
                .env("RUSTFLAGS", "--cfg folo_verif")
                .env("MIRIFLAGS", "-Zmiri-disable-isolation -Zmiri-permissive-provenance")
                .env("RUST_BACKTRACE", "0")
                .env("RUST_LIB_BACKTRACE", "0")
                .env_remove("VERIF_JOB")
                .env_remove("RUSTUP_TOOLCHAIN")
                .stdin(Stdio::null())
                .stdout(Stdio::piped())
                .stderr(Stdio::piped())
                .spawn()
        })
        .collect()
}

fn collect_miri(c: &mut vcommon::Check, children: Vec<std::io::Result<std::process::Child>>, start: std::time::Instant) {
    let mut programs = 0u64;
    let mut clean = 0usize;
    let mut not_run = Vec::new();
    for (k, ch) in children.into_iter().enumerate() {
        let o = match ch.and_then(std::process::Child::wait_with_output) {
            Ok(o) => o,
            Err(e) => {
                not_run.push(format!("shard {k}: cannot launch cargo miri: {e}"));
                continue;
            }
        };
        let stdout = String::from_utf8_lossy(&o.stdout).into_owned();
        let stderr = String::from_utf8_lossy(&o.stderr).into_owned();
        let summary = stdout.lines().rev().find(|l| l.starts_with("C07-INPROC programs=")).unwrap_or("").to_string();
        let diag = stderr.lines().find(|l| l.contains("Undefined Behavior") || l.contains("memory leaked") || l.contains("error: unsupported operation"));
        let oracle = stdout.lines().find(|l| l.starts_with("C07-INPROC violation"));
        if o.status.success() && !summary.is_empty() {
            clean += 1;
            programs += summary
                .split_whitespace()
                .find_map(|w| w.strip_prefix("programs="))
                .and_then(|n| n.parse::<u64>().ok())
                .unwrap_or(0);
        } else if let Some(line) = diag.or(oracle) {
            let tail: String = stderr.chars().rev().take(3000).collect::<String>().chars().rev().collect();
            c.violation(
                "miri",
                &format!("Miri rejected the enumeration (all storages, main<=3, deviations<=2, shard {k}/{MIRI_SHARDS}): {line}"),
                json!({"miri_stderr_tail": tail, "stdout_tail": stdout.lines().rev().take(5).collect::<Vec<_>>()}),
            );
        } else {
            let tail: String = stderr.chars().rev().take(400).collect::<String>().chars().rev().collect();
            not_run.push(format!("shard {k}: cargo miri failed without a Miri diagnostic (exit {:?}): {tail}", o.status.code()));
        }
    }
    c.extra.insert(
        "miri".into(),
        json!({
            "bound": "all four storages, main <= 3, deviations <= 2",
            "shards": MIRI_SHARDS,
            "shards_clean": clean,
            "programs_interpreted": programs,
            "not_run": not_run,
            "wall_s": start.elapsed().as_secs_f64(),
        }),
    );
    if clean == MIRI_SHARDS {
        // The shards together must have interpreted exactly the programs of that bound.
        install_hooks();
        let want: u64 = Storage::ALL.iter().map(|s| run_shard(*s, 0, 1, &Bounds { main_len: 3, devs: 2 }, false).programs).sum();
        if want != programs {
            c.engine_failure(&format!("Miri shards interpreted {programs} programs, the bound has {want}"));
        }
        c.outcome("miri-clean");
    }
    if !not_run.is_empty() {
        c.assumptions.push(format!(
            "Miri pass incomplete ({} of {MIRI_SHARDS} shards did not run: toolchain/build problem); the native oracle alone decided for those",
            not_run.len()
        ));
    }
}

fn main() {
    let args: Vec<String> = std::env::args().collect();
    if args.get(1).map(String::as_str) == Some("inproc") {
        return miri_main(&args[2..]);
    }
    if let Some(job) = vcommon::child_job() {
        return child(&job);
    }
    if let Ok(path) = std::env::var("VERIF_REPLAY") {
        return replay_main(&path);
    }

    let b = bounds();
    let mut c = vcommon::Check::new("C07", "model_checking");
    c.rule = format!(
        "every program = (storage in boxed|embedded|pooled|rawpooled) x (main sequence of <= {} ops over send, \
         drop-sender, poll(w1), poll(w2), is_ready, into_value, drop-receiver, each legal when it runs) x (for every \
         clone/wake/drop invocation of the custom wakers w1,w2 at nesting depth <= {MAX_DEPTH}: a sequence of actions from \
         send|drop-sender|poll-receiver(no-op waker)|drop-receiver|is_ready, each legal = its endpoint is in its slot; \
         default empty; <= {} actions (deviations) in total per program). Distinct = (storage, main, deviation map); \
         non-trivial = at least one waker callback ran. Each program runs on the real LocalEvent and is checked after every \
         step by the outcome / payload-exactly-once / waker-balance / release-exactly-once-and-no-access-after / pool-len / \
         wake-obligation oracle",
        b.main_len, b.devs
    );
    c.extra.insert("main_len_bound".into(), json!(b.main_len));
    c.extra.insert("deviation_bound_completed".into(), json!(b.devs));
    c.extra.insert("nesting_depth_bound".into(), json!(MAX_DEPTH));

    let miri_start = std::time::Instant::now();
    let miri = if vcommon::is_thorough() && std::env::var("C07_NO_MIRI").is_err() { Some(spawn_miri()) } else { None };

    let mut jobs = Vec::new();
    for s in Storage::ALL {
        for k in 0..SHARDS {
            jobs.push(format!("{}:{k}", s.name()));
        }
    }
    let timeout = Duration::from_secs(if vcommon::is_thorough() { 2400 } else { 240 });
    // The event captures a backtrace at every poll in debug builds when backtraces are enabled; that is
    // diagnostic-only work which would dominate the run time (and Miri's), so it is switched off.
    let no_bt: Vec<(String, String)> =
        vec![("RUST_BACKTRACE".into(), "0".into()), ("RUST_LIB_BACKTRACE".into(), "0".into())];
    let results = vcommon::run_jobs_env(&jobs, vcommon::default_parallelism(), timeout, &no_bt);

    let mut by_devs: Vec<u64> = Vec::new();
    let mut dev_stats: BTreeMap<String, u64> = BTreeMap::new();
    let mut per_storage: BTreeMap<String, u64> = BTreeMap::new();
    let mut max_depth = 0u64;
    let mut max_devs_used = 0u64;
    let mut abandoned = 0u64;
    let mut choice_points = 0u64;
    let mut viol: BTreeMap<String, (u64, u64, String, Value)> = BTreeMap::new();
    for r in &results {
        if r.timed_out {
            c.engine_failure(&format!("job {} timed out after {:?}", r.job, timeout));
        }
        let Some(v) = r.result_json() else {
            // A child that dies without a result while running safe-API programs on one thread is a
            // memory-safety / abort verdict of the code under test. Find the program.
            let again = vcommon::run_jobs_env(&[r.job.clone()], 1, timeout, &[("C07_TRACE".into(), "1".into()), ("RUST_BACKTRACE".into(), "0".into()), ("RUST_LIB_BACKTRACE".into(), "0".into())]);
            let cur = again[0].stdout.lines().rev().find_map(|l| l.strip_prefix("@@CUR ")).unwrap_or("?").to_string();
            let tail: String = r.stderr.chars().rev().take(800).collect::<String>().chars().rev().collect();
            if cur == "?" {
                c.engine_failure(&format!("job {} died (exit {:?}) and the failing program could not be located: {tail}", r.job, r.exit_code));
            }
            let shape = cur.splitn(2, '|').nth(1).unwrap_or(&cur).to_string();
            viol.entry(format!("process-abort@{shape}")).or_insert((
                1,
                0,
                format!("the process died (exit {:?}) while executing program {cur}", r.exit_code),
                json!({"program": cur, "exit_code": r.exit_code, "stderr_tail": tail}),
            ));
            continue;
        };
        if let Some(e) = v.get("engine_failure").and_then(Value::as_str) {
            c.engine_failure(e);
        }
        let g = |k: &str| v.get(k).and_then(Value::as_u64).unwrap_or(0);
        c.evaluations += g("evaluations");
        c.states += g("distinct");
        c.traces_validated += g("programs");
        c.transitions += g("transitions");
        c.distinct_add(g("nontrivial"));
        abandoned += g("abandoned");
        choice_points += g("choice_points");
        max_depth = max_depth.max(g("max_depth"));
        max_devs_used = max_devs_used.max(g("max_devs_used"));
        *per_storage.entry(r.job.split(':').next().unwrap().to_string()).or_insert(0) += g("programs");
        if g("distinct") != g("programs") {
            c.engine_failure(&format!("job {}: {} programs but {} distinct descriptors", r.job, g("programs"), g("distinct")));
        }
        if let Some(a) = v.get("by_devs").and_then(Value::as_array) {
            for (i, n) in a.iter().enumerate() {
                if by_devs.len() <= i {
                    by_devs.resize(i + 1, 0);
                }
                by_devs[i] += n.as_u64().unwrap_or(0);
            }
        }
        if let Some(o) = v.get("outcomes").and_then(Value::as_object) {
            for (k, n) in o {
                c.outcome_n(k, n.as_u64().unwrap_or(0));
            }
        }
        if let Some(o) = v.get("dev_stats").and_then(Value::as_object) {
            for (k, n) in o {
                *dev_stats.entry(k.clone()).or_insert(0) += n.as_u64().unwrap_or(0);
            }
        }
        if let Some(a) = v.get("violations").and_then(Value::as_array) {
            for x in a {
                let key = x["key"].as_str().unwrap_or("?").to_string();
                let size = x["size"].as_u64().unwrap_or(u64::MAX);
                let n = x["n"].as_u64().unwrap_or(1);
                let fresh = (0, size, x["summary"].as_str().unwrap_or("").to_string(), x["replay"].clone());
                let e = viol.entry(key).or_insert_with(|| fresh.clone());
                if size < e.1 {
                    let had = e.0;
                    *e = fresh;
                    e.0 = had;
                }
                e.0 += n;
            }
        }
        if let Some(a) = v.get("samples").and_then(Value::as_array) {
            if r.job.ends_with(":3") {
                for s in a.iter().take(1) {
                    c.sample(s.clone());
                }
            }
        }
    }
    for (k, (n, _, s, r)) in &viol {
        c.violation(k, &format!("{s} ({n} programs hit this clause at this call site)"), r.clone());
    }

    c.extra.insert("programs_by_deviation_count".into(), json!(by_devs));
    c.extra.insert("programs_per_storage".into(), json!(per_storage));
    c.extra.insert("deviations_executed_by_callback_action_depth".into(), json!(dev_stats));
    c.extra.insert("max_nesting_depth_observed".into(), json!(max_depth));
    c.extra.insert("max_deviations_in_one_program".into(), json!(max_devs_used));
    c.extra.insert("choice_points_visited".into(), json!(choice_points));
    c.extra.insert("executions_abandoned_as_illegal".into(), json!(abandoned));
    c.extra.insert("main_sequences".into(), json!(main_sequences(b.main_len).len()));
    c.assumptions.push(
        "callback actions are limited to operations on an endpoint that is in its slot, i.e. never the endpoint whose own \
         method is on the stack (Rust ownership forbids that); operations on a receiver that already returned Ready are \
         documented to panic and are not generated; payload destructors are passive"
            .into(),
    );

    // Anti-vacuity: the enumeration must have exercised every callback kind with the actions the
    // documentation names, reached nesting depth 2, and produced many outcome classes.
    let need = [
        "clone/send/d1",
        "clone/dropS/d1",
        "wake/pollrx/d1",
        "wake/dropR/d1",
        "wake/is_ready/d1",
        "drop/send/d1",
        "drop/dropS/d1",
    ];
    for n in need {
        if !dev_stats.contains_key(n) {
            c.engine_failure(&format!("anti-vacuity: no program executed deviation class {n}"));
        }
    }
    if max_depth < 2 {
        c.engine_failure("anti-vacuity: nesting depth 2 was never reached");
    }
    if c.outcomes().len() < 12 {
        c.engine_failure(&format!("anti-vacuity: only {} outcome classes", c.outcomes().len()));
    }
    if per_storage.len() != 4 || per_storage.values().any(|n| *n == 0) {
        c.engine_failure("anti-vacuity: a storage strategy ran no program");
    }

    if let Some(children) = miri {
        collect_miri(&mut c, children, miri_start);
    }
    c.finish();
}

//! C03 stage 2 — the Send/Sync discipline of every `infinity_pool` handle type, decided by rustc.
//!
//! The finite matrix {12 handle types} x {payload auto-trait class: Send+Sync, Send+!Sync,
//! !Send+Sync, !Send+!Sync} x {form: sized `T`, erased `()`, `dyn Trait`} x {Send, Sync} is
//! enumerated completely. For every cell a one-function probe module is generated
//! (`need_send::<Handle<Payload>>()`), and for every (handle, form, class) a set of *inhabitation*
//! probes (safe functions that construct such a handle through the public API, one per pool
//! route / concrete source type). All probes are compiled by one `cargo build` of a generated
//! crate; rustc's errors are attributed to probe modules by file name. A second generated crate
//! holding exactly the probes that produced no error must compile cleanly (so an unreported error
//! cannot pass as "admitted"), and control probes with known answers guard the attribution.
//!
//! Reference rule (what would let a *safe* program break the property statement, given that the
//! thread-safe pools only accept `T: Send` at insertion, so every pooled object may be moved to
//! and destroyed on another thread):
//!   * shared cloneable handle (`Pooled`, `BlindPooled`) — like `Arc<T>`: `Send` or `Sync` on the
//!     handle lets two threads hold `&T` at once, so both are FORBIDDEN unless `T: Sync`;
//!   * unique handle (`PooledMut`, `BlindPooledMut`) — like `Box<T>`: `Sync` lets two threads hold
//!     `&T`, FORBIDDEN unless `T: Sync`; `Send` moves exclusive ownership of an object that is
//!     `Send` by the insertion bound: never forbidden;
//!   * `Local*` handles hold `Rc<RefCell<pool>>`: `Send` and `Sync` always FORBIDDEN;
//!   * `Raw*` handles: every payload access is `unsafe` and the documentation promises "always
//!     `Sync`, `Send` if `T` is `Send`": nothing a safe program can do depends on these cells; they
//!     are recorded as outcome classes (promise kept / broken / unconstrained), not judged;
//!   * erased `Handle<()>` cannot reach the payload; its type-level `T` is `()`.
//! The plain std rule (`Arc<T>: Send/Sync iff T: Send + Sync`, `Box<T>: Send iff T: Send`) is
//! evaluated alongside; cells it forbids but the rule above permits (the `T: Send` leg, discharged
//! by `insert<T: Send>`) are listed as an outcome class.
//!
//! A cell is a VIOLATION iff rustc admits the auto trait, the rule forbids it, and the cell is
//! inhabited by safe code (some inhabitation probe compiles). Key:
//! `unsound-auto-trait:<Handle>[<dyn>|<()>]:<payload class>:<Send|Sync>`. For every violation of a
//! managed handle a `#![forbid(unsafe_code)]` witness program is generated, built and run a
//! bounded number of times (two threads bump a `Cell<u64>` through the handle; lost updates are
//! the demonstration). The witness illustrates the violation; the deciding step is the matrix.

use std::collections::{BTreeMap, BTreeSet};
use std::fmt::Write as _;
use std::path::{Path, PathBuf};
use std::process::Command;

use vcommon::serde_json::{Value, json};
use vcommon::{Check, repo_root, verif_root};

#[derive(Clone, Copy, PartialEq, Eq, Debug)]
enum Family {
    ManagedShared,
    ManagedUnique,
    Raw,
    Local,
}

struct Handle {
    name: &'static str,
    family: Family,
    /// Expressions producing the *unique* handle of this handle's pool family from `{T}` / `{v}`.
    routes: &'static [(&'static str, &'static str)],
    shared: bool,
}

// Every safe way of putting a value into a pool: each constructor of the pool x `insert` (the
// `insert_with*` / `*_unchecked` variants are unsafe fns and outside "safe code").
const R_MANAGED: &[(&str, &str)] = &[
    ("opaque", "OpaquePool::with_layout_of::<{T}>().insert({v})"),
    ("opaque-with-layout", "OpaquePool::with_layout(std::alloc::Layout::new::<{T}>()).insert({v})"),
    ("pinned", "PinnedPool::<{T}>::new().insert({v})"),
    ("pinned-default", "PinnedPool::<{T}>::default().insert({v})"),
];
const R_BLIND: &[(&str, &str)] = &[("blind", "BlindPool::new().insert({v})"), ("blind-default", "BlindPool::default().insert({v})")];
const R_RAW: &[(&str, &str)] = &[
    ("rawopaque", "RawOpaquePool::with_layout_of::<{T}>().insert({v})"),
    ("rawpinned", "RawPinnedPool::<{T}>::new().insert({v})"),
];
const R_RAWBLIND: &[(&str, &str)] = &[("rawblind", "RawBlindPool::new().insert({v})")];
const R_LOCAL: &[(&str, &str)] = &[
    ("localopaque", "LocalOpaquePool::with_layout_of::<{T}>().insert({v})"),
    ("localpinned", "LocalPinnedPool::<{T}>::new().insert({v})"),
];
const R_LOCALBLIND: &[(&str, &str)] = &[("localblind", "LocalBlindPool::new().insert({v})")];

const HANDLES: &[Handle] = &[
    Handle { name: "Pooled", family: Family::ManagedShared, routes: R_MANAGED, shared: true },
    Handle { name: "PooledMut", family: Family::ManagedUnique, routes: R_MANAGED, shared: false },
    Handle { name: "BlindPooled", family: Family::ManagedShared, routes: R_BLIND, shared: true },
    Handle { name: "BlindPooledMut", family: Family::ManagedUnique, routes: R_BLIND, shared: false },
    Handle { name: "RawPooled", family: Family::Raw, routes: R_RAW, shared: true },
    Handle { name: "RawPooledMut", family: Family::Raw, routes: R_RAW, shared: false },
    Handle { name: "RawBlindPooled", family: Family::Raw, routes: R_RAWBLIND, shared: true },
    Handle { name: "RawBlindPooledMut", family: Family::Raw, routes: R_RAWBLIND, shared: false },
    Handle { name: "LocalPooled", family: Family::Local, routes: R_LOCAL, shared: true },
    Handle { name: "LocalPooledMut", family: Family::Local, routes: R_LOCAL, shared: false },
    Handle { name: "LocalBlindPooled", family: Family::Local, routes: R_LOCALBLIND, shared: true },
    Handle { name: "LocalBlindPooledMut", family: Family::Local, routes: R_LOCALBLIND, shared: false },
];

/// Payload classes: (label, is Send, is Sync, concrete type, dyn trait, cast method).
struct Class {
    label: &'static str,
    send: bool,
    sync: bool,
    ty: &'static str,
    dyn_trait: &'static str,
    cast: &'static str,
}

const CLASSES: &[Class] = &[
    Class { label: "Send+Sync", send: true, sync: true, ty: "PSS", dyn_trait: "Alpha", cast: "cast_alpha" },
    Class { label: "Send+!Sync", send: true, sync: false, ty: "PSN", dyn_trait: "Bravo", cast: "cast_bravo" },
    Class { label: "!Send+Sync", send: false, sync: true, ty: "PNS", dyn_trait: "Charlie", cast: "cast_charlie" },
    Class { label: "!Send+!Sync", send: false, sync: false, ty: "PNN", dyn_trait: "Delta", cast: "cast_delta" },
];

const FORMS: &[&str] = &["sized", "erased", "dyn"];
const TRAITS: &[&str] = &["Send", "Sync"];

const LIB_PRELUDE: &str = r#"//! Generated by the C03 trait-matrix check. Do not edit.
#![allow(unused, unused_must_use, dead_code, trivial_casts)]
use std::cell::Cell;
use std::marker::PhantomData;
use std::rc::Rc;

pub use infinity_pool::*;

pub fn need_send<T: ?Sized + Send>() {}
pub fn need_sync<T: ?Sized + Sync>() {}

/// Send + Sync
pub struct PSS(pub u64);
/// Send + !Sync
pub struct PSN(pub Cell<u64>);
/// !Send + Sync
pub struct PNS(pub u64, pub PhantomData<*const ()>);
// SAFETY: matrix probe type; never instantiated at run time.
unsafe impl Sync for PNS {}
/// !Send + !Sync
pub struct PNN(pub Rc<u64>);

impl PSS { pub fn new() -> Self { PSS(0) } }
impl PSN { pub fn new() -> Self { PSN(Cell::new(0)) } }
impl PNS { pub fn new() -> Self { PNS(0, PhantomData) } }
impl PNN { pub fn new() -> Self { PNN(Rc::new(0)) } }

/// dyn Alpha: Send + Sync
pub trait Alpha: Send + Sync { fn v(&self) -> u64; }
/// dyn Bravo: Send + !Sync
pub trait Bravo: Send { fn v(&self) -> u64; }
/// dyn Charlie: !Send + Sync
pub trait Charlie: Sync { fn v(&self) -> u64; }
/// dyn Delta: !Send + !Sync
pub trait Delta { fn v(&self) -> u64; }

impl Alpha for PSS { fn v(&self) -> u64 { self.0 } }
impl Bravo for PSS { fn v(&self) -> u64 { self.0 } }
impl Bravo for PSN { fn v(&self) -> u64 { self.0.get() } }
impl Charlie for PSS { fn v(&self) -> u64 { self.0 } }
impl Charlie for PNS { fn v(&self) -> u64 { self.0 } }
impl Delta for PSS { fn v(&self) -> u64 { self.0 } }
impl Delta for PSN { fn v(&self) -> u64 { self.0.get() } }
impl Delta for PNS { fn v(&self) -> u64 { self.0 } }
impl Delta for PNN { fn v(&self) -> u64 { *self.0 } }

define_pooled_dyn_cast!(Alpha);
define_pooled_dyn_cast!(Bravo);
define_pooled_dyn_cast!(Charlie);
define_pooled_dyn_cast!(Delta);
"#;

#[derive(Clone, Debug)]
enum ProbeKind {
    /// Known answer: must (not) compile.
    Control { expect_ok: bool },
    /// `need_<trait>::<type>()`; shared by every cell with that type.
    Trait { ty: String, tr: &'static str },
    /// Safe constructor for (handle, form, class) via `route` from concrete class `src`.
    Inhabit { handle: usize, form: &'static str, class: usize, route: &'static str, src: usize },
}

#[derive(Clone, Debug)]
struct Probe {
    name: String,
    kind: ProbeKind,
    body: String,
}

fn type_of(h: &Handle, form: &str, class: &Class) -> String {
    match form {
        "sized" => format!("{}<{}>", h.name, class.ty),
        "erased" => format!("{}<()>", h.name),
        "dyn" => format!("{}<dyn {}>", h.name, class.dyn_trait),
        _ => unreachable!(),
    }
}

fn build_probes() -> Vec<Probe> {
    let mut probes: Vec<Probe> = Vec::new();
    let mut n = 0_usize;
    let mut next = |prefix: &str| {
        n += 1;
        format!("{prefix}{n:04}")
    };
    // Controls: first modules.
    for (expr, ok) in [
        ("need_send::<u32>()", true),
        ("need_send::<std::rc::Rc<u32>>()", false),
        ("need_sync::<std::cell::Cell<u32>>()", false),
        ("need_sync::<std::sync::Arc<u32>>()", true),
    ] {
        probes.push(Probe { name: next("ctl"), kind: ProbeKind::Control { expect_ok: ok }, body: format!("pub fn probe() {{ {expr}; }}") });
    }
    // The payload classes are what they are labelled (decided by rustc, too).
    for c in CLASSES {
        for (tr, has) in [("Send", c.send), ("Sync", c.sync)] {
            let f = if tr == "Send" { "need_send" } else { "need_sync" };
            probes.push(Probe { name: next("ctl"), kind: ProbeKind::Control { expect_ok: has }, body: format!("pub fn probe() {{ {f}::<{}>(); }}", c.ty) });
            probes.push(Probe { name: next("ctl"), kind: ProbeKind::Control { expect_ok: has }, body: format!("pub fn probe() {{ {f}::<dyn {}>(); }}", c.dyn_trait) });
        }
    }
    // Trait probes, one per distinct (type, trait).
    let mut seen: BTreeSet<(String, &str)> = BTreeSet::new();
    for h in HANDLES {
        for form in FORMS {
            for c in CLASSES {
                for tr in TRAITS {
                    let ty = type_of(h, form, c);
                    if seen.insert((ty.clone(), tr)) {
                        let f = if *tr == "Send" { "need_send" } else { "need_sync" };
                        probes.push(Probe { name: next("t"), kind: ProbeKind::Trait { ty: ty.clone(), tr }, body: format!("pub fn probe() {{ {f}::<{ty}>(); }}") });
                    }
                }
            }
        }
    }
    // Inhabitation probes.
    for (hi, h) in HANDLES.iter().enumerate() {
        for form in FORMS {
            for (ci, c) in CLASSES.iter().enumerate() {
                // sized / erased: the concrete source is the class itself; dyn: any concrete class.
                let sources: Vec<usize> = if *form == "dyn" { (0..CLASSES.len()).collect() } else { vec![ci] };
                for src in sources {
                    let s = &CLASSES[src];
                    for (route, expr) in h.routes {
                        let mut e = expr.replace("{T}", s.ty).replace("{v}", &format!("{}::new()", s.ty));
                        if h.shared {
                            e.push_str(".into_shared()");
                        }
                        match *form {
                            "erased" => e.push_str(".erase()"),
                            "dyn" => {
                                let _ = write!(e, ".{}()", c.cast);
                            }
                            _ => {}
                        }
                        let ty = type_of(h, form, c);
                        probes.push(Probe {
                            name: next("i"),
                            kind: ProbeKind::Inhabit { handle: hi, form, class: ci, route, src },
                            body: format!("pub fn make() -> {ty} {{ {e} }}"),
                        });
                    }
                }
            }
        }
    }
    // Controls: last modules (an error cap in rustc would show here).
    probes.push(Probe { name: next("ctl"), kind: ProbeKind::Control { expect_ok: false }, body: "pub fn probe() { need_send::<std::rc::Rc<u8>>(); }".into() });
    probes.push(Probe { name: next("ctl"), kind: ProbeKind::Control { expect_ok: true }, body: "pub fn probe() { need_sync::<u8>(); }".into() });
    probes
}

/// Writes `content` only when it differs (keeps mtimes stable so cargo can reuse its cache).
fn write_if_changed(path: &Path, content: &str) {
    if std::fs::read_to_string(path).ok().as_deref() != Some(content) {
        std::fs::write(path, content).unwrap_or_else(|e| panic!("write {}: {e}", path.display()));
    }
}

/// Removes every `*.rs` in `dir` that is not in `keep`.
fn prune_dir(dir: &Path, keep: &BTreeSet<String>) {
    if let Ok(rd) = std::fs::read_dir(dir) {
        for e in rd.flatten() {
            let n = e.file_name().to_string_lossy().into_owned();
            if !keep.contains(&n) {
                let _ = std::fs::remove_file(e.path());
            }
        }
    }
}

fn write_crate(dir: &Path, name: &str, probes: &[&Probe]) {
    let src = dir.join("src");
    let p = src.join("p");
    std::fs::create_dir_all(&p).expect("mkdir probes");
    let mut lib = String::from(LIB_PRELUDE);
    lib.push_str("\npub mod p {\n");
    let mut keep = BTreeSet::new();
    for pr in probes {
        let _ = writeln!(lib, "    pub mod {};", pr.name);
        write_if_changed(&p.join(format!("{}.rs", pr.name)), &format!("use crate::*;\n{}\n", pr.body));
        keep.insert(format!("{}.rs", pr.name));
    }
    prune_dir(&p, &keep);
    lib.push_str("}\n");
    write_if_changed(&src.join("lib.rs"), &lib);
    write_if_changed(
        &dir.join("Cargo.toml"),
        &format!("[package]\nname = \"{name}\"\nversion = \"0.0.0\"\nedition = \"2024\"\npublish = false\n\n[lib]\npath = \"src/lib.rs\"\n\n[dependencies]\ninfinity_pool = {{ workspace = true }}\n"),
    );
}

struct BuildResult {
    ok: bool,
    /// probe module -> error codes
    errors: BTreeMap<String, Vec<String>>,
    unattributed: Vec<String>,
    raw_tail: String,
}

fn cargo_build(ws: &Path, package: &str, extra: &[&str]) -> BuildResult {
    let mut cmd = Command::new("cargo");
    cmd.current_dir(ws)
        .args(["build", "--offline", "--message-format=json", "-p", package])
        .args(extra)
        .env("CARGO_TARGET_DIR", ws.join("target"))
        .env("CARGO_NET_OFFLINE", "true")
        .env_remove("CARGO_ENCODED_RUSTFLAGS");
    let out = cmd.output().expect("run cargo");
    let stdout = String::from_utf8_lossy(&out.stdout).into_owned();
    let stderr = String::from_utf8_lossy(&out.stderr).into_owned();
    let mut errors: BTreeMap<String, Vec<String>> = BTreeMap::new();
    let mut unattributed = Vec::new();
    for line in stdout.lines() {
        let Ok(v) = vcommon::serde_json::from_str::<Value>(line) else { continue };
        if v["reason"] != "compiler-message" {
            continue;
        }
        let m = &v["message"];
        if m["level"] != "error" {
            continue;
        }
        let text = m["message"].as_str().unwrap_or("");
        if text.starts_with("aborting due to") || text.starts_with("could not compile") {
            continue;
        }
        let code = m["code"]["code"].as_str().unwrap_or("none").to_string();
        // Find a span (or macro expansion call site) inside src/p/<probe>.rs.
        fn find(span: &Value) -> Option<String> {
            let f = span["file_name"].as_str().unwrap_or("");
            if let Some(i) = f.find("src/p/") {
                return Some(f[i + 6..].trim_end_matches(".rs").to_string());
            }
            let exp = &span["expansion"];
            if exp.is_object() { find(&exp["span"]) } else { None }
        }
        let mut owner = None;
        for sp in m["spans"].as_array().into_iter().flatten() {
            if let Some(o) = find(sp) {
                owner = Some(o);
                if sp["is_primary"] == true {
                    break;
                }
            }
        }
        match owner {
            Some(o) => errors.entry(o).or_default().push(code),
            None => unattributed.push(format!("[{code}] {text} @ {}", v["target"]["name"])),
        }
    }
    let tail: String = stderr.lines().rev().take(12).collect::<Vec<_>>().into_iter().rev().collect::<Vec<_>>().join("\n");
    BuildResult { ok: out.status.success(), errors, unattributed, raw_tail: tail }
}

// ---------------------------------------------------------------------------------------------
// Reference rule.
// ---------------------------------------------------------------------------------------------

/// (forbidden by the rule used for the verdict, forbidden by the plain std Arc/Box rule)
fn reference(h: &Handle, form: &str, t_send: bool, t_sync: bool, tr: &str) -> (Option<bool>, Option<bool>) {
    if form == "erased" {
        // An erased handle gives no access to the payload; what it can still do is move the
        // payload's destruction to another thread: by being sent there (Send), or - shared
        // handles only - by being cloned there through a shared reference (Sync). Both need a
        // payload that permits sending; here t_send / t_sync describe the PAYLOAD that was erased.
        let moves_destruction = tr == "Send" || h.family == Family::ManagedShared;
        return match h.family {
            Family::Local => (Some(true), Some(true)),
            Family::Raw => (None, None),
            Family::ManagedShared | Family::ManagedUnique => (Some(moves_destruction && !t_send), Some(moves_destruction && !t_send)),
        };
    }
    match h.family {
        Family::Local => (Some(true), Some(true)),
        Family::Raw => (None, None),
        Family::ManagedShared => (Some(!t_sync), Some(!(t_send && t_sync))),
        Family::ManagedUnique => {
            if tr == "Send" { (Some(false), Some(!t_send)) } else { (Some(!t_sync), Some(!t_sync)) }
        }
    }
}

// ---------------------------------------------------------------------------------------------
// Witness programs (safe code only).
// ---------------------------------------------------------------------------------------------

fn witness_source(h: &Handle, form: &str, class: &Class, tr: &str) -> Option<String> {
    if !matches!(h.family, Family::ManagedShared | Family::ManagedUnique) || form == "erased" {
        return None;
    }
    // The concrete object is always a Cell<u64> (Send, !Sync): insertable into every thread-safe
    // pool and coercible to `dyn Bump` / `dyn Bump + Send`-like traits without Sync.
    let pool = if h.name.starts_with("Blind") { "BlindPool::new()" } else { "OpaquePool::with_layout_of::<Cell<u64>>()" };
    let mut make = String::from("pool.insert(Cell::new(0_u64))");
    if h.shared {
        make.push_str(".into_shared()");
    }
    let (decl, bump, get) = if form == "dyn" {
        make.push_str(".cast_bump()");
        let sup = match (class.send, class.sync) {
            (true, false) => ": Send",
            (false, false) => "",
            _ => return None, // a Sync trait object cannot be made from a Cell
        };
        (
            format!("pub(crate) trait Bump{sup} {{ fn bump(&self); fn value(&self) -> u64; }}\nimpl Bump for Cell<u64> {{ fn bump(&self) {{ self.set(self.get() + 1); }} fn value(&self) -> u64 {{ self.get() }} }}\ndefine_pooled_dyn_cast!(Bump);\n"),
            "bump()",
            "value()",
        )
    } else {
        if !(class.send && !class.sync) {
            return None;
        }
        (String::new(), "set(r.get() + 1)", "get()")
    };
    let body = if tr == "Sync" {
        // Share &Handle between two scoped threads.
        format!(
            "    let r = &h;\n    std::thread::scope(|s| {{\n        for _ in 0..2 {{\n            s.spawn(move || {{\n                for _ in 0..N {{\n                    r.{bump};\n                }}\n            }});\n        }}\n    }});\n"
        )
    } else {
        if !h.shared {
            return None;
        }
        // Move a clone of the shared handle to another thread.
        format!(
            "    let h2 = h.clone();\n    let t = std::thread::spawn(move || {{\n        let r = &h2;\n        for _ in 0..N {{\n            r.{bump};\n        }}\n    }});\n    {{\n        let r = &h;\n        for _ in 0..N {{\n            r.{bump};\n        }}\n    }}\n    t.join().unwrap();\n"
        )
    };
    Some(format!(
        "//! Generated witness: {}<{}> is {tr} although the payload is not Sync. Safe code only.\n#![forbid(unsafe_code)]\n#![allow(unused)]\nuse std::cell::Cell;\nuse infinity_pool::*;\n{decl}const N: u64 = 2_000_000;\nfn main() {{\n    let pool = {pool};\n    let h = {make};\n{body}    let got = h.{get};\n    println!(\"WITNESS expected={{}} got={{}} lost={{}}\", 2 * N, got, 2 * N - got);\n    std::process::exit(if got != 2 * N {{ 3 }} else {{ 0 }});\n}}\n",
        h.name,
        if form == "dyn" { format!("dyn Bump{}", if class.send { " (Send)" } else { "" }) } else { "Cell<u64>".to_string() },
    ))
}

fn sanitize(s: &str) -> String {
    s.chars().map(|c| if c.is_ascii_alphanumeric() { c.to_ascii_lowercase() } else { '_' }).collect()
}

fn main() {
    let mut c = Check::new("C03", "model_checking");
    if let Ok(path) = std::env::var("VERIF_REPLAY") {
        let v: Value = vcommon::serde_json::from_str(&std::fs::read_to_string(&path).expect("replay file")).expect("json");
        if v["replay"]["stage"] != "c03t" {
            println!("replay file is not a trait-matrix witness; skipping stage c03t");
            std::process::exit(0);
        }
        println!("cell: {}\nprobe: {}\nwitness source: {}", v["replay"]["cell"], v["replay"]["probe_source"], v["replay"]["witness"]["source_path"]);
        println!("(re-running the check recompiles every probe; the witness binary can be run directly)");
    }
    let root = verif_root();
    let repo = repo_root();
    let ws = root.join("target").join("c03t-probes");
    std::fs::create_dir_all(&ws).expect("mkdir workspace");
    let ip = repo.join("packages").join("infinity_pool");
    if !ip.join("Cargo.toml").exists() {
        c.engine_failure(&format!("{} not found", ip.display()));
    }
    write_if_changed(
        &ws.join("Cargo.toml"),
        &format!(
            "# Generated by the C03 trait-matrix check.\n[workspace]\nresolver = \"3\"\nmembers = [\"matrix\", \"matrix_ok\", \"witness\"]\n\n[workspace.dependencies]\ninfinity_pool = {{ path = {:?} }}\n\n[profile.dev]\nopt-level = 0\ndebug = 0\nincremental = false\n",
            ip.display().to_string()
        ),
    );
    if let Ok(t) = std::fs::read_to_string(root.join("harness").join("rust-toolchain.toml")) {
        write_if_changed(&ws.join("rust-toolchain.toml"), &t);
    }

    // ----- pass 1: every probe ---------------------------------------------------------------
    let probes = build_probes();
    let all: Vec<&Probe> = probes.iter().collect();
    write_crate(&ws.join("matrix"), "matrix", &all);
    // Placeholders so that the workspace loads (kept from the previous run when present).
    if !ws.join("matrix_ok").join("src").join("lib.rs").exists() {
        write_crate(&ws.join("matrix_ok"), "matrix_ok", &[]);
    }
    let wdir = ws.join("witness");
    std::fs::create_dir_all(wdir.join("src").join("bin")).expect("mkdir witness");
    write_if_changed(&wdir.join("Cargo.toml"), "[package]\nname = \"witness\"\nversion = \"0.0.0\"\nedition = \"2024\"\npublish = false\n\n[dependencies]\ninfinity_pool = { workspace = true }\n");
    write_if_changed(&wdir.join("src").join("bin").join("w_none.rs"), "fn main() {}\n");

    let t0 = std::time::Instant::now();
    let r1 = cargo_build(&ws, "matrix", &["--lib"]);
    let t_pass1 = t0.elapsed().as_secs_f64();
    if !r1.unattributed.is_empty() {
        c.engine_failure(&format!("compiler errors outside the probe modules: {:?}\n{}", &r1.unattributed[..r1.unattributed.len().min(4)], r1.raw_tail));
    }
    if r1.ok || r1.errors.is_empty() {
        c.engine_failure(&format!("the probe crate compiled without errors although it contains probes that must not compile\n{}", r1.raw_tail));
    }
    let compiles = |p: &Probe| !r1.errors.contains_key(&p.name);
    for p in &probes {
        c.evaluations += 1;
        if let ProbeKind::Control { expect_ok } = p.kind {
            if compiles(p) != expect_ok {
                c.engine_failure(&format!("control probe {} `{}` {} (expected the opposite): error attribution is broken", p.name, p.body, if compiles(p) { "compiled" } else { "did not compile" }));
            }
        }
        if let (ProbeKind::Trait { tr, .. }, Some(codes)) = (&p.kind, r1.errors.get(&p.name)) {
            if codes.iter().any(|k| k != "E0277") {
                c.engine_failure(&format!("trait probe {} `{}` failed with {codes:?}, expected only E0277 (unsatisfied `{tr}` bound)", p.name, p.body));
            }
        }
    }
    // ----- pass 2: the probes that produced no error must compile cleanly together -------------
    let ok_probes: Vec<&Probe> = probes.iter().filter(|p| compiles(p)).collect();
    write_crate(&ws.join("matrix_ok"), "matrix_ok", &ok_probes);
    let r2 = cargo_build(&ws, "matrix_ok", &["--lib"]);
    if !r2.ok {
        c.engine_failure(&format!("probes without attributed errors do not compile on their own: {:?} {:?}\n{}", r2.errors.keys().take(5).collect::<Vec<_>>(), r2.unattributed.iter().take(3).collect::<Vec<_>>(), r2.raw_tail));
    }

    // ----- judge the cells ---------------------------------------------------------------------
    let trait_answer: BTreeMap<(String, &str), (bool, String)> = probes
        .iter()
        .filter_map(|p| match &p.kind {
            ProbeKind::Trait { ty, tr } => Some(((ty.clone(), *tr), (compiles(p), p.name.clone()))),
            _ => None,
        })
        .collect();
    let mut inhabit: BTreeMap<(usize, &str, usize), Vec<(String, bool, String)>> = BTreeMap::new();
    for p in &probes {
        if let ProbeKind::Inhabit { handle, form, class, route, src } = &p.kind {
            let codes = r1.errors.get(&p.name).map(|v| v.join(",")).unwrap_or_default();
            inhabit.entry((*handle, form, *class)).or_default().push((format!("{route} from {}", CLASSES[*src].label), compiles(p), codes));
        }
    }

    struct Fired {
        key: String,
        summary: String,
        cell: Value,
        handle: usize,
        form: &'static str,
        class: usize,
        tr: &'static str,
        probe: String,
    }
    let mut fired: Vec<Fired> = Vec::new();
    let mut matrix_rows = Vec::new();
    let mut cells = 0_u64;
    for (hi, h) in HANDLES.iter().enumerate() {
        for form in FORMS {
            for (ci, cl) in CLASSES.iter().enumerate() {
                let ty = type_of(h, form, cl);
                // Auto traits of the payload (for the erased form: of the payload that was erased;
                // the type-level parameter `()` says nothing).
                let (t_send, t_sync) = (cl.send, cl.sync);
                let routes = inhabit.get(&(hi, *form, ci)).cloned().unwrap_or_default();
                let inhabited = routes.iter().any(|r| r.1);
                let via: Vec<String> = routes.iter().filter(|r| r.1).map(|r| r.0.clone()).collect();
                for tr in TRAITS {
                    cells += 1;
                    let (admitted, probe) = trait_answer.get(&(ty.clone(), *tr)).cloned().expect("trait probe");
                    let (forbidden, std_forbidden) = reference(h, form, t_send, t_sync, tr);
                    let cell = json!({"handle": h.name, "form": form, "payload_class": cl.label, "type": ty, "trait": tr, "rustc_admits": admitted, "rule_forbids": forbidden, "std_rule_forbids": std_forbidden, "inhabited_by_safe_code": inhabited, "inhabited_via": via, "trait_probe": probe});
                    c.distinct_hash(vcommon::hash_str(&format!("{}|{form}|{}|{tr}", h.name, cl.label)));
                    let fam = format!("{:?}", h.family);
                    let class = match (forbidden, admitted, inhabited) {
                        (None, a, _) => {
                            // Raw handles: documentation = "always Sync; Send if T is Send".
                            let promised = *tr == "Sync" || t_send;
                            match (promised, a) {
                                (true, true) => "raw:doc-promise-kept(admitted)".to_string(),
                                (true, false) => "raw:doc-promise-broken(refused)".to_string(),
                                (false, a) => format!("raw:unconstrained({})", if a { "admitted" } else { "refused" }),
                            }
                        }
                        (Some(true), true, true) => "VIOLATION:admitted+forbidden+inhabited".to_string(),
                        (Some(true), true, false) => format!("{fam}:admitted+forbidden-but-uninhabited-in-safe-code"),
                        (Some(true), false, _) => format!("{fam}:refused(forbidden)"),
                        (Some(false), true, _) => {
                            if std_forbidden == Some(true) {
                                format!("{fam}:admitted(permitted; std rule stricter: T:Send leg discharged by insert<T: Send>)")
                            } else {
                                format!("{fam}:admitted(permitted)")
                            }
                        }
                        (Some(false), false, _) => format!("{fam}:refused(permitted: conservative)"),
                    };
                    c.outcome(&class);
                    matrix_rows.push(json!({"cell": format!("{ty}: {tr}"), "class": cl.label, "result": class}));
                    if class.starts_with("VIOLATION") {
                        let hname = match *form {
                            "sized" => h.name.to_string(),
                            "erased" => format!("{}<()>", h.name),
                            _ => format!("{}<dyn>", h.name),
                        };
                        fired.push(Fired {
                            key: format!("unsound-auto-trait:{hname}:{}:{tr}", cl.label),
                            summary: format!("`{ty}: {tr}` is accepted by rustc although the payload type is {}; such a handle can be built by safe code ({})", cl.label, via.join("; ")),
                            cell,
                            handle: hi,
                            form,
                            class: ci,
                            tr,
                            probe,
                        });
                    }
                }
            }
        }
    }
    c.states = cells;
    c.transitions = cells;
    c.traces_validated = probes.len() as u64;

    // ----- witnesses for the fired cells -------------------------------------------------------
    let mut wsrc: BTreeMap<String, String> = BTreeMap::new();
    for f in &fired {
        if let Some(src) = witness_source(&HANDLES[f.handle], f.form, &CLASSES[f.class], f.tr) {
            wsrc.insert(format!("w_{}", sanitize(f.key.trim_start_matches("unsound-auto-trait:"))), src);
        }
    }
    let mut wres: BTreeMap<String, Value> = BTreeMap::new();
    if !wsrc.is_empty() {
        let mut keep: BTreeSet<String> = wsrc.keys().map(|n| format!("{n}.rs")).collect();
        keep.insert("w_none.rs".to_string());
        prune_dir(&wdir.join("src").join("bin"), &keep);
        for (name, src) in &wsrc {
            write_if_changed(&wdir.join("src").join("bin").join(format!("{name}.rs")), src);
        }
        let rb = cargo_build(&ws, "witness", &["--bins"]);
        for (name, _) in &wsrc {
            let bin: PathBuf = ws.join("target").join("debug").join(name);
            let src_path = wdir.join("src").join("bin").join(format!("{name}.rs"));
            if rb.errors.contains_key(name) || !bin.exists() || !rb.ok {
                wres.insert(name.clone(), json!({"source_path": src_path, "built": false, "note": format!("witness did not build: {:?} {:?}", rb.errors.get(name), rb.unattributed.iter().take(2).collect::<Vec<_>>())}));
                continue;
            }
            // Bounded number of runs; stop at the first run that loses updates.
            let mut runs = 0;
            let mut best = String::new();
            let mut lost = false;
            while runs < 25 && !lost {
                runs += 1;
                if let Ok(o) = Command::new(&bin).output() {
                    let so = String::from_utf8_lossy(&o.stdout);
                    best = so.lines().find(|l| l.starts_with("WITNESS")).unwrap_or("").to_string();
                    lost = o.status.code() == Some(3);
                }
            }
            wres.insert(name.clone(), json!({"source_path": src_path, "built": true, "runs": runs, "updates_lost": lost, "last_output": best, "forbid_unsafe_code": true}));
        }
    }
    let mut reproduced = 0;
    for f in fired {
        let wname = format!("w_{}", sanitize(f.key.trim_start_matches("unsound-auto-trait:")));
        let w = wres.get(&wname).cloned().unwrap_or(json!({"note": "no witness template for this handle family / form"}));
        if w["updates_lost"] == true {
            reproduced += 1;
        }
        let summary = format!(
            "{}; witness: {}",
            f.summary,
            if w["updates_lost"] == true {
                format!("safe program lost updates ({}) in run {} of <=25", w["last_output"].as_str().unwrap_or(""), w["runs"])
            } else {
                w["note"].as_str().map(str::to_string).unwrap_or_else(|| "built, no lost update observed in 25 runs".to_string())
            }
        );
        let probe_body = probes.iter().find(|p| p.name == f.probe).map(|p| p.body.clone()).unwrap_or_default();
        c.violation(&f.key, &summary, json!({"stage": "c03t", "cell": f.cell, "probe_source": probe_body, "witness": w}));
    }

    // ----- evidence ------------------------------------------------------------------------------
    for row in matrix_rows.iter().filter(|r| r["result"].as_str().is_some_and(|s| s.starts_with("VIOLATION"))).take(2) {
        c.sample(row.clone());
    }
    for row in matrix_rows.iter().step_by(37).take(4) {
        c.sample(row.clone());
    }
    c.rule = format!(
        "complete enumeration of {} handle types x {} payload auto-trait classes x {} forms x {{Send, Sync}} = {cells} cells; each decided by rustc trait resolution on a generated probe ({} probe modules incl. {} inhabitation probes and controls, compiled in one crate; error-free probes re-compiled together as a second crate that must build); distinct = cell; a cell is a violation iff admitted by rustc, forbidden by the reference rule (shared handle: Send/Sync need T: Sync; unique handle: Sync needs T: Sync; Local*: never; Raw*: recorded only) and inhabited by safe code",
        HANDLES.len(),
        CLASSES.len(),
        FORMS.len(),
        probes.len(),
        probes.iter().filter(|p| matches!(p.kind, ProbeKind::Inhabit { .. })).count(),
    );
    c.extra.insert("matrix".into(), json!(matrix_rows));
    c.extra.insert("probe_modules".into(), json!(probes.len()));
    c.extra.insert("seconds_pass1_all_probes".into(), json!(t_pass1));
    c.extra.insert("probes_refused_by_rustc".into(), json!(r1.errors.len()));
    c.extra.insert("witness_programs".into(), json!(wres));
    c.extra.insert("witnesses_that_lost_updates".into(), json!(reproduced));
    c.assumptions.push("rustc's trait resolution is the decision procedure for the matrix; the reference rule is stated in the harness header (std's Arc/Box rule minus the T: Send leg that insert<T: Send> discharges)".into());
    c.assumptions.push("dynamic witnesses are demonstrations (bounded number of native runs), not the deciding step".into());
    // Anti-vacuity: both answers must occur for managed and local/raw families alike.
    let outs = c.outcomes().clone();
    let has = |needle: &str| outs.keys().any(|k| k.contains(needle));
    if !(has("refused") && has("admitted") && has("Local:refused") && has("raw:")) || outs.len() < 4 {
        c.engine_failure(&format!("trait matrix produced too few outcome classes: {:?}", outs.keys().collect::<Vec<_>>()));
    }
    c.finish();
}

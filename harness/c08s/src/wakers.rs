//! Counting wakers with an optional re-entrant callback. Single-threaded (thread-local state).
//!
//! A waker's data pointer is its id. Every handle creation (`mk` + every `clone`) and every handle
//! consumption (`drop` + `wake` by value) is counted per id, so "dropped exactly once" is
//! `born == gone` for every id once everything has been torn down, and "live handles right now" is
//! `born - gone`.

use std::cell::{Cell, RefCell};
use std::task::{RawWaker, RawWakerVTable, Waker};

pub trait WakeHook {
    fn on_wake(&self, waker: usize);
}

thread_local! {
    static BORN: RefCell<Vec<u32>> = const { RefCell::new(Vec::new()) };
    static GONE: RefCell<Vec<u32>> = const { RefCell::new(Vec::new()) };
    static WOKEN: RefCell<Vec<u32>> = const { RefCell::new(Vec::new()) };
    static HOOK: Cell<Option<*const dyn WakeHook>> = const { Cell::new(None) };
}

fn bump(v: &'static std::thread::LocalKey<RefCell<Vec<u32>>>, id: usize) {
    v.with(|b| b.borrow_mut()[id] += 1);
}

fn fire(id: usize) {
    if let Some(h) = HOOK.with(Cell::get) {
        // SAFETY: the hook pointer is installed by `with_hook` for the duration of a call during
        // which the pointee is alive and not moved; it is cleared before the pointee is dropped.
        unsafe { (*h).on_wake(id) };
    }
}

static VTABLE: RawWakerVTable = RawWakerVTable::new(
    |d| {
        bump(&BORN, d as usize);
        RawWaker::new(d, &VTABLE)
    },
    |d| {
        bump(&WOKEN, d as usize);
        bump(&GONE, d as usize);
        fire(d as usize);
    },
    |d| {
        bump(&WOKEN, d as usize);
        fire(d as usize);
    },
    |d| bump(&GONE, d as usize),
);

pub fn reset() {
    BORN.with(|b| b.borrow_mut().clear());
    GONE.with(|b| b.borrow_mut().clear());
    WOKEN.with(|b| b.borrow_mut().clear());
    HOOK.with(|h| h.set(None));
}

pub fn mk() -> (usize, Waker) {
    let id = BORN.with(|b| {
        let mut b = b.borrow_mut();
        b.push(1);
        b.len() - 1
    });
    GONE.with(|b| b.borrow_mut().push(0));
    WOKEN.with(|b| b.borrow_mut().push(0));
    // SAFETY: the vtable functions only use the data pointer as an integer id.
    (id, unsafe { Waker::from_raw(RawWaker::new(id as *const (), &VTABLE)) })
}

pub fn id_of(w: &Waker) -> usize {
    w.data() as usize
}

pub fn count() -> usize {
    BORN.with(|b| b.borrow().len())
}

/// Live handles of waker `id` (created + cloned - dropped - consumed).
pub fn live(id: usize) -> i64 {
    let b = BORN.with(|b| b.borrow()[id]);
    let g = GONE.with(|b| b.borrow()[id]);
    i64::from(b) - i64::from(g)
}

#[allow(dead_code)]
pub fn woken(id: usize) -> u32 {
    WOKEN.with(|b| b.borrow()[id])
}

/// First waker whose handles are not balanced, as (id, born, gone).
pub fn imbalance() -> Option<(usize, u32, u32)> {
    BORN.with(|b| {
        GONE.with(|g| {
            let (b, g) = (b.borrow(), g.borrow());
            (0..b.len()).find(|&i| b[i] != g[i]).map(|i| (i, b[i], g[i]))
        })
    })
}

pub fn set_hook(h: Option<*const dyn WakeHook>) {
    HOOK.with(|c| c.set(h));
}

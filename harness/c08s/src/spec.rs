//! Sequential specification of the reset events (the same semantics as the loom half,
//! `/verif/harness-loom/c08/src/main.rs::apply`) and a brute-force linearizability search over a
//! single-threaded history with *nesting*: a call made from inside a `wake` callback lies inside
//! the interval of the call that fired the waker, so the two overlap and may be ordered either way;
//! calls whose intervals are disjoint keep their order. Without re-entrant calls all intervals are
//! disjoint and the history IS the sequential order.

use std::collections::HashSet;

pub const MAXF: usize = 5;

#[derive(Clone, Debug, PartialEq, Eq)]
pub enum Call {
    Set,
    Reset,
    TryWait(bool),
    /// waiter, ready?, id of the waker passed to this poll
    Poll(usize, bool, usize),
    Drop(usize),
}

#[derive(Clone, Debug)]
pub struct Rec {
    pub call: Call,
    pub start: u32,
    pub end: u32,
    /// depth of nesting (0 = top-level operation of the history)
    pub depth: u8,
    /// part of the closing probe (poll every pending waiter, drop everything, try_wait)
    pub post: bool,
}

#[derive(Clone, Copy, PartialEq, Eq, Debug, Hash)]
pub enum WSt {
    Idle,
    Registered,
    Released,
}

#[derive(Clone, PartialEq, Eq, Hash, Debug)]
pub struct Spec {
    pub flag: bool,
    pub w: [WSt; MAXF],
    /// waker of the latest Pending poll of each waiter (usize::MAX = none)
    pub latest: [usize; MAXF],
}

#[derive(Clone, Copy, PartialEq, Eq, Debug)]
enum Kind {
    Whole,
    /// two-phase diagnosis of manual set: raise the flag ...
    SetFlag,
    /// ... and, later, release every registered waiter
    SetRelease,
}

struct Item {
    rec: usize,
    kind: Kind,
    /// item index that must precede this one (SetFlag before SetRelease)
    after: Option<usize>,
}

/// All (state, released waiters) reachable by applying `call` with its observed result; empty = the
/// result is impossible in `s`.
fn apply(manual: bool, kind: Kind, s: &Spec, call: &Call) -> Vec<(Spec, Vec<usize>)> {
    let mut out = Vec::new();
    let regs = |s: &Spec| -> Vec<usize> { (0..MAXF).filter(|&i| s.w[i] == WSt::Registered).collect() };
    match *call {
        Call::Set => {
            if manual {
                let mut n = s.clone();
                let mut rel = Vec::new();
                if kind != Kind::SetRelease {
                    n.flag = true;
                }
                if kind != Kind::SetFlag {
                    for i in regs(s) {
                        n.w[i] = WSt::Released;
                        rel.push(i);
                    }
                }
                out.push((n, rel));
            } else {
                let r = regs(s);
                if s.flag {
                    out.push((s.clone(), vec![])); // idempotent while a signal is stored
                } else if r.is_empty() {
                    let mut n = s.clone();
                    n.flag = true;
                    out.push((n, vec![]));
                } else {
                    for i in r {
                        let mut n = s.clone();
                        n.w[i] = WSt::Released;
                        out.push((n, vec![i]));
                    }
                }
            }
        }
        Call::Reset => {
            let mut n = s.clone();
            n.flag = false;
            out.push((n, vec![]));
        }
        Call::TryWait(b) => {
            if b == s.flag {
                let mut n = s.clone();
                if !manual {
                    n.flag = false;
                }
                out.push((n, vec![]));
            }
        }
        Call::Poll(w, ready, waker) => {
            if ready {
                if s.flag {
                    let mut n = s.clone();
                    if !manual {
                        n.flag = false;
                    }
                    out.push((n, vec![]));
                }
                if s.w[w] == WSt::Released {
                    let mut n = s.clone();
                    n.w[w] = WSt::Idle;
                    out.push((n, vec![]));
                }
            } else if !s.flag && s.w[w] != WSt::Released {
                let mut n = s.clone();
                n.w[w] = WSt::Registered;
                n.latest[w] = waker;
                out.push((n, vec![]));
            }
        }
        Call::Drop(w) => {
            let mut n = s.clone();
            let was = n.w[w];
            n.w[w] = WSt::Idle;
            if !manual && was == WSt::Released {
                // cancelling a notified wait passes the signal on
                let r = regs(&n);
                if r.is_empty() {
                    n.flag = true;
                    out.push((n, vec![]));
                } else {
                    for i in r {
                        let mut m = n.clone();
                        m.w[i] = WSt::Released;
                        out.push((m, vec![i]));
                    }
                }
            } else {
                out.push((n, vec![]));
            }
        }
    }
    out
}

pub struct Search<'a> {
    pub manual: bool,
    pub recs: &'a [Rec],
    /// (waker id, time) of every waker invocation
    pub wakes: &'a [(usize, u32)],
}

impl Search<'_> {
    /// Is there an order of all calls that respects interval precedence and is accepted by the
    /// spec? With `check_wake`, every release of a waiter additionally requires that the waker of
    /// its latest Pending poll (latest in that order) was invoked inside the releasing call.
    pub fn linearizable(&self, check_wake: bool, two_phase: bool) -> bool {
        let mut items: Vec<Item> = Vec::new();
        for (i, r) in self.recs.iter().enumerate() {
            if two_phase && self.manual && r.call == Call::Set {
                items.push(Item { rec: i, kind: Kind::SetFlag, after: None });
                let f = items.len() - 1;
                items.push(Item { rec: i, kind: Kind::SetRelease, after: Some(f) });
            } else {
                items.push(Item { rec: i, kind: Kind::Whole, after: None });
            }
        }
        let n = items.len();
        assert!(n < 63);
        // preds[b] = bitmask of items that must be placed before b
        let mut preds = vec![0_u64; n];
        for b in 0..n {
            for a in 0..n {
                if a == b {
                    continue;
                }
                let (ra, rb) = (&self.recs[items[a].rec], &self.recs[items[b].rec]);
                if (items[a].rec != items[b].rec && ra.end < rb.start) || items[b].after == Some(a) {
                    preds[b] |= 1 << a;
                }
            }
        }
        let init = Spec { flag: false, w: [WSt::Idle; MAXF], latest: [usize::MAX; MAXF] };
        let full = if n == 0 { 0 } else { (1_u64 << n) - 1 };
        let mut seen: HashSet<(u64, Spec)> = HashSet::new();
        let mut stack = vec![(0_u64, init)];
        while let Some((mask, s)) = stack.pop() {
            if mask == full {
                return true;
            }
            if !seen.insert((mask, s.clone())) {
                continue;
            }
            for b in 0..n {
                if mask & (1 << b) != 0 || preds[b] & !mask != 0 {
                    continue;
                }
                let r = &self.recs[items[b].rec];
                for (ns, released) in apply(self.manual, items[b].kind, &s, &r.call) {
                    if check_wake && !released.iter().all(|&j| self.woken_inside(s.latest[j], r) || self.dropped_inside(j, r)) {
                        continue;
                    }
                    stack.push((mask | (1 << b), ns));
                }
            }
        }
        false
    }

    /// A waiter that is cancelled from inside a wake callback of the releasing call, before its own
    /// waker was reached, has nobody left to wake: the obligation is void.
    fn dropped_inside(&self, j: usize, r: &Rec) -> bool {
        self.recs.iter().any(|d| d.call == Call::Drop(j) && r.start < d.start && d.end < r.end)
    }

    fn woken_inside(&self, waker: usize, r: &Rec) -> bool {
        waker != usize::MAX && self.wakes.iter().any(|&(w, t)| w == waker && r.start < t && t < r.end)
    }
}

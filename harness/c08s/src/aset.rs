//! Part 1: every contract-legal history of bounded length on a real `AwaiterSet` with three
//! awaiters, compared after every step with a reference model.
//!
//! Model: a `VecDeque` of registered awaiter ids in registration order, each with the generation of
//! the set at the time it entered the set and the id of the latest waker registered for it; a
//! lifecycle (idle / waiting / notified) per awaiter; the set's generation counter.

use std::collections::{BTreeMap, VecDeque};
use std::panic::{AssertUnwindSafe, catch_unwind};
use std::pin::Pin;

use awaiter_set::{Awaiter, AwaiterSet};

use crate::wakers;

pub const N: usize = 3;

#[derive(Clone, Copy, PartialEq, Eq, Debug)]
pub enum Op {
    /// register awaiter i with a fresh waker (first registration or waker replacement)
    Reg(u8),
    Unreg(u8),
    Take(u8),
    Notify,
    Advance,
    NotifyPrior,
}

impl Op {
    pub fn enc(self) -> String {
        match self {
            Op::Reg(i) => format!("r{i}"),
            Op::Unreg(i) => format!("u{i}"),
            Op::Take(i) => format!("t{i}"),
            Op::Notify => "N".into(),
            Op::Advance => "A".into(),
            Op::NotifyPrior => "P".into(),
        }
    }
    pub fn dec(s: &str) -> Op {
        let b = s.as_bytes();
        let d = || b[1] - b'0';
        match b[0] {
            b'r' => Op::Reg(d()),
            b'u' => Op::Unreg(d()),
            b't' => Op::Take(d()),
            b'N' => Op::Notify,
            b'A' => Op::Advance,
            b'P' => Op::NotifyPrior,
            _ => panic!("bad op {s}"),
        }
    }
}

pub fn enc_hist(h: &[Op]) -> String {
    h.iter().map(|o| o.enc()).collect::<Vec<_>>().join(".")
}

pub fn dec_hist(s: &str) -> Vec<Op> {
    s.split('.').filter(|x| !x.is_empty()).map(Op::dec).collect()
}

const IDLE: u8 = 0;
const WAITING: u8 = 1;
const NOTIFIED: u8 = 2;

#[derive(Clone, Debug)]
struct Entry {
    id: u8,
    generation: u64,
    waker: usize,
}

#[derive(Clone, Debug)]
struct Model {
    q: VecDeque<Entry>,
    generation: u64,
    life: [u8; N],
}

impl Model {
    fn enabled(&self) -> Vec<Op> {
        let mut v = Vec::new();
        for i in 0..N as u8 {
            // contract: a notified awaiter must consume its notification before re-registering
            if self.life[i as usize] != NOTIFIED {
                v.push(Op::Reg(i));
            }
        }
        v.extend([Op::Notify, Op::Advance, Op::NotifyPrior]);
        for i in 0..N as u8 {
            // contract: unregister only a registered (or already notified) awaiter
            if self.life[i as usize] != IDLE {
                v.push(Op::Unreg(i));
            }
        }
        for i in 0..N as u8 {
            v.push(Op::Take(i));
        }
        v
    }
}

pub struct Violation {
    pub class: String,
    pub msg: String,
}

fn viol<T>(class: &str, msg: String) -> Result<T, Violation> {
    Err(Violation { class: class.to_string(), msg })
}

#[derive(Default)]
pub struct Acc {
    pub histories: u64,
    pub steps: u64,
    pub outcomes: BTreeMap<&'static str, u64>,
    pub violations: Vec<(String, String, String)>, // class, history, message
    pub max_len: usize,
}

impl Acc {
    fn out(&mut self, c: &'static str) {
        *self.outcomes.entry(c).or_insert(0) += 1;
    }
}

struct Real {
    set: AwaiterSet,
    base: *mut Awaiter,
    /// logical awaiter i lives at index `slot[i]` of the allocation (address order = slot order)
    slot: [usize; N],
}

impl Real {
    fn new(reversed: bool) -> Real {
        let b: Box<[Awaiter; N]> = Box::new([Awaiter::new(), Awaiter::new(), Awaiter::new()]);
        let base = Box::into_raw(b).cast::<Awaiter>();
        let slot = if reversed { [2, 1, 0] } else { [0, 1, 2] };
        Real { set: AwaiterSet::new(), base, slot }
    }
    fn aw(&self, i: usize) -> &Awaiter {
        // SAFETY: in-bounds element of the live allocation; `Awaiter`'s public API is `&self`.
        unsafe { &*self.base.add(self.slot[i]) }
    }
    fn pin<'a>(&self, i: usize) -> Pin<&'a mut Awaiter> {
        // SAFETY: the allocation is never moved or freed while any awaiter is registered (see
        // `teardown`), which is the pinning contract of `register`.
        unsafe { Pin::new_unchecked(&mut *self.base.add(self.slot[i])) }
    }
    fn addr(&self, i: usize) -> usize {
        self.base as usize + self.slot[i] * std::mem::size_of::<Awaiter>()
    }
    fn life(&self, i: usize) -> u8 {
        let a = self.aw(i);
        match (a.is_registered(), a.is_notified()) {
            (false, false) => IDLE,
            (true, false) => WAITING,
            (true, true) => NOTIFIED,
            (false, true) => 99,
        }
    }
    /// Contract-respecting teardown: unregister what waits, consume what is notified, then drop the
    /// set and free the awaiters.
    fn teardown(mut self) {
        for i in 0..N {
            if self.aw(i).is_registered() && !self.aw(i).is_notified() {
                let p = self.pin(i);
                // SAFETY: registered in this set.
                unsafe { self.set.unregister(p) };
            }
            let _ = self.aw(i).take_notification();
        }
        let Real { set, base, .. } = self;
        drop(set);
        // SAFETY: allocated by Box<[Awaiter; N]> in `new`; nothing is registered any more.
        drop(unsafe { Box::from_raw(base.cast::<[Awaiter; N]>()) });
    }
}

/// Replays `hist` on a fresh real set + model, checking the oracle after every step. Returns the
/// operations enabled afterwards.
fn replay(hist: &[Op], reversed: bool, acc: &mut Acc) -> Result<Vec<Op>, Violation> {
    wakers::reset();
    let mut real = Real::new(reversed);
    let mut m = Model { q: VecDeque::new(), generation: 1, life: [IDLE; N] };
    let last = hist.len().saturating_sub(1);
    for (step, &op) in hist.iter().enumerate() {
        acc.steps += 1;
        // outcome classes are counted for the last step only (earlier steps were counted when
        // the prefix was replayed)
        let count = step == last;
        let r = step_one(&mut real, &mut m, op, acc, count);
        if let Err(v) = r {
            std::mem::forget(real); // state may be corrupt: leak rather than tear down
            return Err(v);
        }
        // ---- after every step: lifecycle bytes, emptiness, waker handle accounting ----
        for i in 0..N {
            let l = real.life(i);
            if l != m.life[i] {
                let v = viol("awaiter-set:lifecycle", format!("after step {step} ({}): awaiter {i} lifecycle is {l}, model says {}", op.enc(), m.life[i]));
                std::mem::forget(real);
                return v;
            }
        }
        if real.set.is_empty() != m.q.is_empty() {
            let v = viol("awaiter-set:is-empty", format!("after step {step} ({}): is_empty()={} but the model holds {} registered awaiters", op.enc(), real.set.is_empty(), m.q.len()));
            std::mem::forget(real);
            return v;
        }
        for w in 0..wakers::count() {
            let expect = i64::from(m.q.iter().any(|e| e.waker == w));
            if wakers::live(w) != expect {
                let v = viol(
                    if wakers::live(w) > expect { "awaiter-set:waker-not-dropped" } else { "awaiter-set:waker-dropped-twice" },
                    format!("after step {step} ({}): waker {w} has {} live handles, expected {expect}", op.enc(), wakers::live(w)),
                );
                std::mem::forget(real);
                return v;
            }
        }
    }
    let enabled = m.enabled();
    real.teardown();
    if let Some((w, b, g)) = wakers::imbalance() {
        return viol("awaiter-set:waker-balance-at-teardown", format!("waker {w}: created+cloned={b}, dropped+consumed={g} after unregister-all + drop"));
    }
    Ok(enabled)
}

fn step_one(real: &mut Real, m: &mut Model, op: Op, acc: &mut Acc, count: bool) -> Result<(), Violation> {
    match op {
        Op::Reg(i) => {
            let i = i as usize;
            let (wid, w) = wakers::mk();
            let p = real.pin(i);
            // SAFETY: the awaiter stays pinned and valid until removed (see `Real`); it is not
            // NOTIFIED (enabledness).
            unsafe { real.set.register(p, w) };
            if m.life[i] == WAITING {
                // re-registration: only the waker is replaced; position and generation are kept
                m.q.iter_mut().find(|e| e.id as usize == i).expect("model entry").waker = wid;
                if count {
                    acc.out("re-register-replaces-waker");
                }
            } else {
                m.q.push_back(Entry { id: i as u8, generation: m.generation, waker: wid });
                m.life[i] = WAITING;
                if count {
                    acc.out("register");
                }
            }
        }
        Op::Unreg(i) => {
            let i = i as usize;
            let p = real.pin(i);
            // SAFETY: registered with this set or already notified by it (enabledness).
            unsafe { real.set.unregister(p) };
            if m.life[i] == WAITING {
                let pos = m.q.iter().position(|e| e.id as usize == i).expect("model entry");
                if count {
                    acc.out(if m.q.len() == 1 {
                        "unregister-only"
                    } else if pos == 0 {
                        "unregister-head"
                    } else if pos == m.q.len() - 1 {
                        "unregister-tail"
                    } else {
                        "unregister-middle"
                    });
                }
                m.q.remove(pos);
                m.life[i] = IDLE;
            } else if count {
                acc.out("unregister-notified-is-noop");
            }
        }
        Op::Take(i) => {
            let i = i as usize;
            let got = real.aw(i).take_notification();
            let expect = m.life[i] == NOTIFIED;
            if got != expect {
                return viol("awaiter-set:take-notification", format!("take_notification({i}) = {got}, model lifecycle {}", m.life[i]));
            }
            if got {
                m.life[i] = IDLE;
            }
            if count {
                acc.out(if got { "take-notification-true" } else { "take-notification-false" });
            }
        }
        Op::Advance => {
            real.set.advance_generation();
            m.generation += 1;
            if count {
                acc.out("advance-generation");
            }
        }
        Op::Notify | Op::NotifyPrior => {
            let prior = op == Op::NotifyPrior;
            let before: Vec<u8> = (0..N).map(|i| real.life(i)).collect();
            let got = if prior { real.set.notify_one_prior_generation() } else { real.set.notify_one() };
            let got_id = got.as_ref().map(wakers::id_of);
            drop(got);
            // Which awaiter became NOTIFIED?
            let changed: Vec<usize> = (0..N).filter(|&i| before[i] != real.life(i)).collect();
            // Eligible awaiters per the model.
            let eligible: Vec<usize> = if prior {
                // registered before the last advance_generation; which of them is unspecified
                m.q.iter().filter(|e| e.generation < m.generation).map(|e| e.id as usize).collect()
            } else if m.q.is_empty() {
                vec![]
            } else if cfg!(debug_assertions) {
                // debug builds: head or tail depending on their addresses (documented as "may pick
                // head or tail"); the oracle accepts either and records which one it was
                let (h, t) = (m.q.front().unwrap().id as usize, m.q.back().unwrap().id as usize);
                let _ = real.addr(h);
                if h == t { vec![h] } else { vec![h, t] }
            } else {
                vec![m.q.front().unwrap().id as usize]
            };
            let name = if prior { "notify_one_prior_generation" } else { "notify_one" };
            match got_id {
                None => {
                    if !changed.is_empty() {
                        return viol("awaiter-set:notify-none-but-lifecycle-changed", format!("{name} returned None but awaiters {changed:?} changed lifecycle"));
                    }
                    if !eligible.is_empty() {
                        return viol(
                            if prior { "awaiter-set:prior-generation-filter" } else { "awaiter-set:notify-order" },
                            format!("{name} returned None although awaiters {eligible:?} are eligible (model queue {:?}, generation {})", m.q, m.generation),
                        );
                    }
                    if count {
                        acc.out(if !prior {
                            "notify-one-none"
                        } else if m.q.is_empty() {
                            "notify-prior-none-empty"
                        } else {
                            "notify-prior-none-all-current-generation"
                        });
                    }
                }
                Some(wid) => {
                    if changed.len() != 1 || real.life(changed[0]) != NOTIFIED || before[changed[0]] != WAITING {
                        return viol("awaiter-set:notify-lifecycle", format!("{name} returned a waker but the lifecycle changes are {changed:?} (before {before:?})"));
                    }
                    let who = changed[0];
                    if !eligible.contains(&who) {
                        return viol(
                            if prior { "awaiter-set:prior-generation-filter" } else { "awaiter-set:notify-order" },
                            format!("{name} notified awaiter {who}; eligible per model: {eligible:?} (queue {:?}, set generation {})", m.q, m.generation),
                        );
                    }
                    let pos = m.q.iter().position(|e| e.id as usize == who).expect("model entry");
                    let e = m.q.remove(pos).unwrap();
                    if e.waker != wid {
                        return viol("awaiter-set:stale-waker", format!("{name} notified awaiter {who} and returned waker {wid}; the latest waker registered for it is {}", e.waker));
                    }
                    m.life[who] = NOTIFIED;
                    if count {
                        acc.out(match (prior, pos == 0, m.q.is_empty()) {
                            (true, _, _) => "notify-prior-some",
                            (false, _, true) => "notify-one-single",
                            (false, true, false) => "notify-one-picked-head",
                            (false, false, false) => "notify-one-picked-tail",
                        });
                    }
                }
            }
        }
    }
    Ok(())
}

fn run_node(hist: &[Op], reversed: bool, acc: &mut Acc) -> Option<Vec<Op>> {
    acc.histories += 1;
    acc.max_len = acc.max_len.max(hist.len());
    let r = catch_unwind(AssertUnwindSafe(|| replay(hist, reversed, acc)));
    match r {
        Ok(Ok(enabled)) => Some(enabled),
        Ok(Err(v)) => {
            acc.violations.push((v.class, enc_hist(hist), v.msg));
            None
        }
        Err(p) => {
            acc.violations.push(("awaiter-set:panic".into(), enc_hist(hist), vcommon::panic_message(&*p)));
            None
        }
    }
}

/// Explores the subtree rooted at `hist` (inclusive) down to length `max_len`.
pub fn explore(hist: &mut Vec<Op>, reversed: bool, max_len: usize, acc: &mut Acc) {
    let Some(enabled) = run_node(hist, reversed, acc) else { return };
    if hist.len() >= max_len {
        return;
    }
    for op in enabled {
        hist.push(op);
        explore(hist, reversed, max_len, acc);
        hist.pop();
    }
}

/// Parent side: runs every node of length < `split` and returns the nodes of length == `split`
/// (to be explored by children).
pub fn shallow(hist: &mut Vec<Op>, reversed: bool, split: usize, acc: &mut Acc, out: &mut Vec<String>) {
    if hist.len() == split {
        out.push(enc_hist(hist));
        return;
    }
    let Some(enabled) = run_node(hist, reversed, acc) else { return };
    for op in enabled {
        hist.push(op);
        shallow(hist, reversed, split, acc, out);
        hist.pop();
    }
}

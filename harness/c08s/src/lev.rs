//! Part 2: every bounded history on the single-threaded events (`LocalAutoResetEvent`,
//! `LocalManualResetEvent`, boxed and embedded), including re-entrant wakers, checked against the
//! sequential specification in `spec.rs`.
//!
//! A *program* is a sequence of top-level operations plus a set of *deviations* `(n, action)`: the
//! n-th waker invocation of the (deterministic) execution performs `action` from inside `wake`;
//! every other invocation does nothing.

use std::cell::{Cell, RefCell, UnsafeCell};
use std::collections::BTreeMap;
use std::future::Future;
use std::mem::MaybeUninit;
use std::panic::{AssertUnwindSafe, catch_unwind};
use std::pin::Pin;
use std::task::{Context, Poll};

use events::{
    EmbeddedLocalAutoResetEvent, EmbeddedLocalAutoResetEventRef, EmbeddedLocalManualResetEvent, EmbeddedLocalManualResetEventRef,
    LocalAutoResetEvent, LocalManualResetEvent,
};

use crate::spec::{Call, MAXF, Rec, Search};
use crate::wakers::{self, WakeHook};

/// Wait futures the top-level history may create (callbacks may create up to MAXF in total).
pub const TOP_FUTS: usize = 3;

#[derive(Clone, Copy, PartialEq, Eq, Debug)]
pub enum Op {
    Set,
    Reset,
    TryWait,
    /// create the next wait future and poll it once
    PollNew,
    /// re-poll an existing, not yet completed wait future with a fresh waker
    Poll(u8),
    Drop(u8),
}

impl Op {
    pub fn enc(self) -> String {
        match self {
            Op::Set => "S".into(),
            Op::Reset => "R".into(),
            Op::TryWait => "T".into(),
            Op::PollNew => "n".into(),
            Op::Poll(j) => format!("p{j}"),
            Op::Drop(j) => format!("d{j}"),
        }
    }
    pub fn dec(s: &str) -> Op {
        let b = s.as_bytes();
        match b[0] {
            b'S' => Op::Set,
            b'R' => Op::Reset,
            b'T' => Op::TryWait,
            b'n' => Op::PollNew,
            b'p' => Op::Poll(b[1] - b'0'),
            b'd' => Op::Drop(b[1] - b'0'),
            _ => panic!("bad op {s}"),
        }
    }
}

pub type Dev = (u32, Op);

pub fn enc_prog(h: &[Op], d: &[Dev]) -> String {
    let mut s = h.iter().map(|o| o.enc()).collect::<Vec<_>>().join(".");
    for (n, a) in d {
        s.push_str(&format!("@{n}={}", a.enc()));
    }
    s
}

pub fn dec_prog(s: &str) -> (Vec<Op>, Vec<Dev>) {
    let mut parts = s.split('@');
    let h = parts.next().unwrap_or("").split('.').filter(|x| !x.is_empty()).map(Op::dec).collect();
    let d = parts
        .map(|p| {
            let (n, a) = p.split_once('=').expect("dev");
            (n.parse().expect("dev index"), Op::dec(a))
        })
        .collect();
    (h, d)
}

// ------------------------------------------------------------------------------------------
// Event abstraction (static dispatch: futures are stored in place in a fixed arena so that their
// addresses -- which steer the debug-build `pick_one` -- are a function of the program only)
// ------------------------------------------------------------------------------------------

pub trait Ev: 'static {
    type Fut: Future<Output = ()> + 'static;
    const MANUAL: bool;
    fn set(&self);
    fn reset(&self);
    fn try_wait(&self) -> bool;
    fn wait(&self) -> Self::Fut;
}

macro_rules! impl_ev {
    ($t:ty, $f:ty, $manual:expr, $reset:expr) => {
        impl Ev for $t {
            type Fut = $f;
            const MANUAL: bool = $manual;
            fn set(&self) {
                <$t>::set(self)
            }
            fn reset(&self) {
                #[allow(clippy::redundant_closure_call)]
                ($reset)(self)
            }
            fn try_wait(&self) -> bool {
                <$t>::try_wait(self)
            }
            fn wait(&self) -> $f {
                <$t>::wait(self)
            }
        }
    };
}

impl_ev!(LocalAutoResetEvent, events::futures::LocalAutoResetWaitFuture, false, |_e: &LocalAutoResetEvent| unreachable!("reset on auto"));
impl_ev!(EmbeddedLocalAutoResetEventRef, events::futures::EmbeddedLocalAutoResetWaitFuture, false, |_e: &EmbeddedLocalAutoResetEventRef| unreachable!("reset on auto"));
impl_ev!(LocalManualResetEvent, events::futures::LocalManualResetWaitFuture, true, |e: &LocalManualResetEvent| e.reset());
impl_ev!(EmbeddedLocalManualResetEventRef, events::futures::EmbeddedLocalManualResetWaitFuture, true, |e: &EmbeddedLocalManualResetEventRef| e.reset());

#[derive(Clone, Copy, PartialEq, Eq, Debug)]
pub struct Variant {
    pub manual: bool,
    pub embedded: bool,
    /// wait future i lives in arena cell MAXF-1-i instead of i (reverses the address order)
    pub reversed: bool,
}

impl Variant {
    pub fn name(self) -> String {
        format!("{}-{}-{}", if self.manual { "manual" } else { "auto" }, if self.embedded { "embedded" } else { "boxed" }, if self.reversed { "desc" } else { "asc" })
    }
    pub fn parse(s: &str) -> Variant {
        let p: Vec<&str> = s.split('-').collect();
        Variant { manual: p[0] == "manual", embedded: p[1] == "embedded", reversed: p[2] == "desc" }
    }
    pub fn kind(self) -> &'static str {
        if self.manual { "local-manual" } else { "local-auto" }
    }
    pub fn all() -> Vec<Variant> {
        let mut v = Vec::new();
        for manual in [false, true] {
            for embedded in [false, true] {
                for reversed in [false, true] {
                    v.push(Variant { manual, embedded, reversed });
                }
            }
        }
        v
    }
}

#[derive(Clone, Copy, PartialEq, Eq, Debug)]
enum SlotSt {
    Empty,
    Live,
    /// returned Ready; never polled again
    Done,
    /// being polled right now
    Busy,
    Dropped,
}

struct World<E: Ev> {
    ev: E,
    arena: [UnsafeCell<MaybeUninit<E::Fut>>; MAXF],
    st: [Cell<SlotSt>; MAXF],
    created: Cell<usize>,
    reversed: bool,
    clock: Cell<u32>,
    depth: Cell<u8>,
    post: Cell<bool>,
    recs: RefCell<Vec<Rec>>,
    wakes: RefCell<Vec<(usize, u32)>>,
    /// owner (wait future index) of every waker, by waker id
    owner: RefCell<Vec<usize>>,
    invocations: Cell<u32>,
    devs: Vec<Dev>,
    devs_fired: Cell<usize>,
    inapplicable: Cell<bool>,
}

impl<E: Ev> World<E> {
    fn tick(&self) -> u32 {
        let t = self.clock.get() + 1;
        self.clock.set(t);
        t
    }
    fn cell(&self, j: usize) -> *mut E::Fut {
        let k = if self.reversed { MAXF - 1 - j } else { j };
        self.arena[k].get().cast::<E::Fut>()
    }
    fn begin(&self, call: Call) -> usize {
        let t = self.tick();
        let mut r = self.recs.borrow_mut();
        r.push(Rec { call, start: t, end: 0, depth: self.depth.get(), post: self.post.get() });
        r.len() - 1
    }
    fn end(&self, idx: usize, call: Call) {
        let t = self.tick();
        let mut r = self.recs.borrow_mut();
        r[idx].call = call;
        r[idx].end = t;
    }

    /// Executes one operation (top-level or from inside a wake callback). Returns false when the
    /// operation is not applicable in the current state.
    fn do_op(&self, op: Op) -> bool {
        match op {
            Op::Set => {
                let i = self.begin(Call::Set);
                self.ev.set();
                self.end(i, Call::Set);
            }
            Op::Reset => {
                if !E::MANUAL {
                    return false;
                }
                let i = self.begin(Call::Reset);
                self.ev.reset();
                self.end(i, Call::Reset);
            }
            Op::TryWait => {
                let i = self.begin(Call::TryWait(false));
                let r = self.ev.try_wait();
                self.end(i, Call::TryWait(r));
            }
            Op::PollNew => {
                let j = self.created.get();
                if j >= MAXF {
                    return false;
                }
                // SAFETY: cell j is Empty (never written); it is not aliased.
                unsafe { self.cell(j).write(self.ev.wait()) };
                self.st[j].set(SlotSt::Live);
                self.created.set(j + 1);
                self.poll(j);
            }
            Op::Poll(j) => {
                let j = j as usize;
                if j >= MAXF || self.st[j].get() != SlotSt::Live {
                    return false;
                }
                self.poll(j);
            }
            Op::Drop(j) => {
                let j = j as usize;
                if j >= MAXF || !matches!(self.st[j].get(), SlotSt::Live | SlotSt::Done) {
                    return false;
                }
                // Marked first: a waker fired by this drop must not touch the dying future.
                self.st[j].set(SlotSt::Dropped);
                let i = self.begin(Call::Drop(j));
                // SAFETY: the cell holds an initialised future that nobody is borrowing (it is not
                // Busy) and that is never touched again (state Dropped).
                unsafe { std::ptr::drop_in_place(self.cell(j)) };
                self.end(i, Call::Drop(j));
            }
        }
        true
    }

    fn poll(&self, j: usize) {
        self.st[j].set(SlotSt::Busy);
        let (wid, waker) = wakers::mk();
        {
            let mut o = self.owner.borrow_mut();
            debug_assert_eq!(o.len(), wid);
            o.push(j);
        }
        let i = self.begin(Call::Poll(j, false, wid));
        let mut cx = Context::from_waker(&waker);
        // SAFETY: the future is initialised, lives in the arena of the boxed (never moved) world
        // until it is dropped in place, and is not borrowed by anyone else (state was Live).
        let r = unsafe { Pin::new_unchecked(&mut *self.cell(j)) }.poll(&mut cx);
        drop(waker);
        let ready = matches!(r, Poll::Ready(()));
        self.end(i, Call::Poll(j, ready, wid));
        self.st[j].set(if ready { SlotSt::Done } else { SlotSt::Live });
    }

    fn enabled(&self) -> Vec<Op> {
        let mut v = vec![Op::Set];
        if E::MANUAL {
            v.push(Op::Reset);
        }
        v.push(Op::TryWait);
        if self.created.get() < TOP_FUTS {
            v.push(Op::PollNew);
        }
        for j in 0..self.created.get() {
            if self.st[j].get() == SlotSt::Live {
                v.push(Op::Poll(j as u8));
            }
        }
        for j in 0..self.created.get() {
            if matches!(self.st[j].get(), SlotSt::Live | SlotSt::Done) {
                v.push(Op::Drop(j as u8));
            }
        }
        v
    }
}

impl<E: Ev> WakeHook for World<E> {
    fn on_wake(&self, waker: usize) {
        let t = self.tick();
        self.wakes.borrow_mut().push((waker, t));
        let n = self.invocations.get();
        self.invocations.set(n + 1);
        let Some(&(_, act)) = self.devs.iter().find(|d| d.0 == n) else { return };
        self.devs_fired.set(self.devs_fired.get() + 1);
        let owner = self.owner.borrow()[waker];
        // The documented re-entrancy contract speaks of *another* in-flight future.
        if matches!(act, Op::Poll(j) | Op::Drop(j) if j as usize == owner) {
            self.inapplicable.set(true);
            return;
        }
        self.depth.set(self.depth.get() + 1);
        if !self.do_op(act) {
            self.inapplicable.set(true);
        }
        self.depth.set(self.depth.get() - 1);
    }
}

pub struct RunOut {
    pub recs: Vec<Rec>,
    pub wakes: Vec<(usize, u32)>,
    /// waker invocations before / after the last top-level operation of the history
    pub inv_before_last: u32,
    pub inv_after_last: u32,
    pub enabled: Vec<Op>,
    pub inapplicable: bool,
    pub waker_imbalance: Option<(usize, u32, u32)>,
    pub nested_calls: usize,
}

fn run_on<E: Ev>(ev: E, reversed: bool, hist: &[Op], devs: &[Dev]) -> RunOut {
    wakers::reset();
    let world: Box<World<E>> = Box::new(World {
        ev,
        arena: std::array::from_fn(|_| UnsafeCell::new(MaybeUninit::uninit())),
        st: std::array::from_fn(|_| Cell::new(SlotSt::Empty)),
        created: Cell::new(0),
        reversed,
        clock: Cell::new(0),
        depth: Cell::new(0),
        post: Cell::new(false),
        recs: RefCell::new(Vec::new()),
        wakes: RefCell::new(Vec::new()),
        owner: RefCell::new(Vec::new()),
        invocations: Cell::new(0),
        devs: devs.to_vec(),
        devs_fired: Cell::new(0),
        inapplicable: Cell::new(false),
    });
    // Leaked for the duration of the run: after a panic inside the real code nothing is torn down.
    let w: &'static World<E> = Box::leak(world);
    wakers::set_hook(Some(w as *const World<E> as *const dyn WakeHook));
    let mut inv_before_last = 0;
    for (i, &op) in hist.iter().enumerate() {
        if i + 1 == hist.len() {
            inv_before_last = w.invocations.get();
        }
        assert!(w.do_op(op), "engine: top-level op {op:?} not applicable");
    }
    let inv_after_last = w.invocations.get();
    let enabled = w.enabled();
    // Closing probe: poll every pending waiter, drop every future (lowest index first), read the
    // event. Part of the checked history.
    w.post.set(true);
    for j in 0..w.created.get() {
        if w.st[j].get() == SlotSt::Live {
            w.do_op(Op::Poll(j as u8));
        }
    }
    for j in 0..w.created.get() {
        if matches!(w.st[j].get(), SlotSt::Live | SlotSt::Done) {
            w.do_op(Op::Drop(j as u8));
        }
    }
    w.do_op(Op::TryWait);
    wakers::set_hook(None);
    // A deviation that never fired belongs to a different (shorter) program.
    let inapplicable = w.inapplicable.get() || w.devs_fired.get() != devs.len();
    // SAFETY: created by Box::leak above; no reference escapes.
    let world = unsafe { Box::from_raw(w as *const World<E> as *mut World<E>) };
    let World { ev, recs, wakes, .. } = *world;
    drop(ev);
    let recs = recs.into_inner();
    let nested_calls = recs.iter().filter(|r| r.depth > 0).count();
    RunOut {
        recs,
        wakes: wakes.into_inner(),
        inv_before_last,
        inv_after_last,
        enabled,
        inapplicable,
        waker_imbalance: wakers::imbalance(),
        nested_calls,
    }
}

pub fn run(v: Variant, hist: &[Op], devs: &[Dev]) -> Result<RunOut, String> {
    let r = catch_unwind(AssertUnwindSafe(|| match (v.manual, v.embedded) {
        (false, false) => run_on(LocalAutoResetEvent::boxed(), v.reversed, hist, devs),
        (true, false) => run_on(LocalManualResetEvent::boxed(), v.reversed, hist, devs),
        (false, true) => {
            let place = Box::pin(EmbeddedLocalAutoResetEvent::new());
            // SAFETY: `run_on` drops the handle and every wait future before it returns; the
            // container is dropped afterwards (and leaked if `run_on` unwinds).
            let ev = unsafe { LocalAutoResetEvent::embedded(place.as_ref()) };
            let place = std::mem::ManuallyDrop::new(place);
            let out = run_on(ev, v.reversed, hist, devs);
            drop(std::mem::ManuallyDrop::into_inner(place));
            out
        }
        (true, true) => {
            let place = Box::pin(EmbeddedLocalManualResetEvent::new());
            // SAFETY: as above.
            let ev = unsafe { LocalManualResetEvent::embedded(place.as_ref()) };
            let place = std::mem::ManuallyDrop::new(place);
            let out = run_on(ev, v.reversed, hist, devs);
            drop(std::mem::ManuallyDrop::into_inner(place));
            out
        }
    }));
    wakers::set_hook(None);
    r.map_err(|p| vcommon::panic_message(&*p))
}

// ------------------------------------------------------------------------------------------
// Oracle
// ------------------------------------------------------------------------------------------

/// `Err((class, message))` when the observed history is not allowed.
pub fn judge(v: Variant, out: &RunOut) -> Result<(), (String, String)> {
    let s = Search { manual: v.manual, recs: &out.recs, wakes: &out.wakes };
    let describe = || {
        let calls: Vec<String> = out
            .recs
            .iter()
            .map(|r| format!("{}{:?}[{}..{}]{}", "  ".repeat(r.depth as usize).replace("  ", ">"), r.call, r.start, r.end, if r.post { "*" } else { "" }))
            .collect();
        format!("calls (>=nested in wake, *=closing probe; Poll(waiter, ready, waker)): {} ; waker invocations (waker, time): {:?}", calls.join(" "), out.wakes)
    };
    if !s.linearizable(false, false) {
        // Diagnose the witness class.
        let sets = out.recs.iter().filter(|r| r.call == Call::Set).count();
        let consumed = out.recs.iter().filter(|r| matches!(r.call, Call::Poll(_, true, _) | Call::TryWait(true))).count();
        let pending_at_end = out.recs.iter().any(|r| r.post && matches!(r.call, Call::Poll(_, false, _)));
        let class = if v.manual {
            if s.linearizable(false, true) {
                "set-not-atomic"
            } else if pending_at_end {
                "waiter-not-released"
            } else {
                "nonlinearizable"
            }
        } else if consumed > sets {
            "signal-duplicated"
        } else if consumed < sets && pending_at_end {
            "signal-lost"
        } else if consumed < sets {
            "signal-lost-or-misrouted"
        } else {
            "nonlinearizable"
        };
        return Err((class.to_string(), format!("no order of the calls is accepted by the sequential spec: {}", describe())));
    }
    if !s.linearizable(true, false) {
        return Err(("latest-waker-not-invoked".to_string(), format!("every accepted order releases a waiter whose latest waker was not invoked inside the releasing call: {}", describe())));
    }
    if !v.manual {
        // Explicit conservation law (implied by the spec; kept as an independent check): every
        // completed wait / successful try_wait consumed a distinct set(). The closing probe turns
        // a stored signal into a successful try_wait.
        let sets = out.recs.iter().filter(|r| r.call == Call::Set).count();
        let consumed = out.recs.iter().filter(|r| matches!(r.call, Call::Poll(_, true, _) | Call::TryWait(true))).count();
        if consumed > sets {
            return Err(("signal-duplicated".to_string(), format!("{consumed} completions from {sets} set() calls: {}", describe())));
        }
    }
    if let Some((w, b, g)) = out.waker_imbalance {
        return Err(("waker-balance".to_string(), format!("waker {w}: created+cloned={b}, dropped+consumed={g} after everything was dropped: {}", describe())));
    }
    Ok(())
}

// ------------------------------------------------------------------------------------------
// Enumeration
// ------------------------------------------------------------------------------------------

#[derive(Default)]
pub struct Acc {
    pub programs: u64,
    pub programs_with_deviation: u64,
    pub inapplicable: u64,
    pub calls: u64,
    pub nested_calls: u64,
    pub outcomes: BTreeMap<String, u64>,
    pub violations: Vec<(String, String, String)>, // class, program, message
    pub max_len: usize,
}

impl Acc {
    fn out(&mut self, c: &str) {
        *self.outcomes.entry(c.to_string()).or_insert(0) += 1;
    }
}

fn actions(manual: bool) -> Vec<Op> {
    let mut v = vec![Op::Set];
    if manual {
        v.push(Op::Reset);
    }
    v.push(Op::TryWait);
    v.push(Op::PollNew);
    for j in 0..MAXF as u8 {
        v.push(Op::Poll(j));
    }
    for j in 0..MAXF as u8 {
        v.push(Op::Drop(j));
    }
    v
}

fn classify_outcomes(v: Variant, out: &RunOut, devs: &[Dev], acc: &mut Acc) {
    // Outcome classes of the last top-level call and of nested calls (anti-vacuity).
    let Some(last) = out.recs.iter().rev().find(|r| !r.post && r.depth == 0) else {
        acc.out("empty-history");
        return;
    };
    let woke = out.wakes.iter().filter(|&&(_, t)| last.start < t && t < last.end).count();
    let c = match &last.call {
        Call::Set => match woke {
            0 => "set-no-waiter",
            1 => "set-woke-one",
            _ => "set-woke-several",
        },
        Call::Reset => "reset",
        Call::TryWait(true) => "try_wait-true",
        Call::TryWait(false) => "try_wait-false",
        Call::Poll(_, true, _) => "poll-ready",
        Call::Poll(_, false, _) => "poll-pending",
        Call::Drop(_) => {
            if woke > 0 {
                "drop-forwarded-to-waiter"
            } else {
                "drop-no-wake"
            }
        }
    };
    acc.out(c);
    if !devs.is_empty() {
        for r in out.recs.iter().filter(|r| r.depth > 0) {
            let c = match &r.call {
                Call::Set => "in-wake:set",
                Call::Reset => "in-wake:reset",
                Call::TryWait(true) => "in-wake:try_wait-true",
                Call::TryWait(false) => "in-wake:try_wait-false",
                Call::Poll(_, true, _) => "in-wake:poll-ready",
                Call::Poll(_, false, _) => "in-wake:poll-pending",
                Call::Drop(_) => "in-wake:drop-other",
            };
            acc.out(c);
        }
        if out.recs.iter().any(|r| r.depth > 1) {
            acc.out("in-wake:nested-twice");
        }
    }
    let _ = v;
}

/// Explores the subtree rooted at (hist, devs), inclusive.
pub fn explore(v: Variant, hist: &mut Vec<Op>, devs: &mut Vec<Dev>, max_len: usize, max_dev: usize, acc: &mut Acc) {
    let out = match run(v, hist, devs) {
        Ok(o) => o,
        Err(p) => {
            acc.programs += 1;
            acc.violations.push(("panic".into(), enc_prog(hist, devs), p));
            return;
        }
    };
    if out.inapplicable {
        acc.inapplicable += 1;
        return;
    }
    acc.programs += 1;
    if !devs.is_empty() {
        acc.programs_with_deviation += 1;
    }
    acc.calls += out.recs.len() as u64;
    acc.nested_calls += out.nested_calls as u64;
    acc.max_len = acc.max_len.max(hist.len());
    if let Err((class, msg)) = judge(v, &out) {
        acc.violations.push((class, enc_prog(hist, devs), msg));
        return;
    }
    classify_outcomes(v, &out, devs, acc);
    // (b) one more deviation at a waker invocation of the last top-level operation, later than
    // every deviation already present: each (history, deviation set) is generated exactly once.
    if devs.len() < max_dev && !hist.is_empty() {
        let lo = out.inv_before_last.max(devs.last().map_or(0, |d| d.0 + 1));
        for n in lo..out.inv_after_last {
            for a in actions(v.manual) {
                devs.push((n, a));
                explore_dev_only(v, hist, devs, max_len, max_dev, acc);
                devs.pop();
            }
        }
    }
    // (a) extend the history
    if hist.len() < max_len {
        for op in out.enabled {
            hist.push(op);
            explore(v, hist, devs, max_len, max_dev, acc);
            hist.pop();
        }
    }
}

fn explore_dev_only(v: Variant, hist: &mut Vec<Op>, devs: &mut Vec<Dev>, max_len: usize, max_dev: usize, acc: &mut Acc) {
    explore(v, hist, devs, max_len, max_dev, acc);
}

/// Parent side: runs every node of length < `split` (these must not invoke any waker, so they have
/// no deviation children) and returns the histories of length == `split`.
pub fn shallow(v: Variant, hist: &mut Vec<Op>, split: usize, acc: &mut Acc, jobs: &mut Vec<String>) -> Result<(), String> {
    if hist.len() == split {
        jobs.push(enc_prog(hist, &[]));
        return Ok(());
    }
    let mut sub = Acc::default();
    let mut d = Vec::new();
    explore(v, hist, &mut d, hist.len(), 0, &mut sub);
    let out = run(v, hist, &[]).map_err(|p| format!("panic in shallow node: {p}"))?;
    if out.inv_after_last != 0 {
        return Err(format!("shallow node {} already invokes wakers; raise the job split handling", enc_prog(hist, &[])));
    }
    acc.programs += sub.programs;
    acc.calls += sub.calls;
    for (k, n) in sub.outcomes {
        *acc.outcomes.entry(k).or_insert(0) += n;
    }
    acc.violations.extend(sub.violations);
    for op in out.enabled {
        hist.push(op);
        shallow(v, hist, split, acc, jobs)?;
        hist.pop();
    }
    Ok(())
}

//! C08 (sequential half) — bounded exhaustive history exploration on real code:
//!  1. `AwaiterSet` alone against a VecDeque model (aset.rs);
//!  2. `LocalAutoResetEvent` / `LocalManualResetEvent` (boxed + embedded) including re-entrant
//!     wakers against the sequential specification shared with the loom half (lev.rs, spec.rs).
//! Work is split by history prefix over child processes (`vcommon::run_jobs`).

mod aset;
mod lev;
mod spec;
mod wakers;

use std::collections::BTreeMap;
use std::time::Duration;

use vcommon::serde_json::{Value, json};
use vcommon::{Check, child_job, child_result};

fn env_usize(name: &str, default: usize) -> usize {
    std::env::var(name).ok().and_then(|s| s.parse().ok()).unwrap_or(default)
}

fn child(job: &str) {
    let p: Vec<&str> = job.split('|').collect();
    match p[0] {
        "aset" => {
            let reversed = p[1] == "1";
            let max_len: usize = p[2].parse().unwrap();
            let mut acc = aset::Acc::default();
            for h in p[3].split(';').filter(|s| !s.is_empty()) {
                let mut hist = aset::dec_hist(h);
                aset::explore(&mut hist, reversed, max_len, &mut acc);
            }
            keep_shortest(&mut acc.violations);
            child_result(&json!({
                "histories": acc.histories, "steps": acc.steps, "max_len": acc.max_len,
                "outcomes": acc.outcomes.iter().map(|(k, v)| (k.to_string(), json!(v))).collect::<vcommon::serde_json::Map<String, Value>>(),
                "violations": acc.violations.iter().map(|(c, h, m)| json!([c, h, m])).collect::<Vec<_>>(),
            }));
        }
        "lev" => {
            let v = lev::Variant::parse(p[1]);
            let max_len: usize = p[2].parse().unwrap();
            let max_dev: usize = p[3].parse().unwrap();
            let mut acc = lev::Acc::default();
            for h in p[4].split(';').filter(|s| !s.is_empty()) {
                let (mut hist, mut devs) = lev::dec_prog(h);
                lev::explore(v, &mut hist, &mut devs, max_len, max_dev, &mut acc);
            }
            keep_shortest(&mut acc.violations);
            child_result(&json!({
                "programs": acc.programs, "with_deviation": acc.programs_with_deviation, "inapplicable": acc.inapplicable,
                "calls": acc.calls, "nested_calls": acc.nested_calls, "max_len": acc.max_len,
                "outcomes": acc.outcomes.iter().map(|(k, v)| (k.clone(), json!(v))).collect::<vcommon::serde_json::Map<String, Value>>(),
                "violations": acc.violations.iter().map(|(c, h, m)| json!([c, h, m])).collect::<Vec<_>>(),
            }));
        }
        _ => panic!("bad job {job}"),
    }
}

fn size(s: &str) -> usize {
    s.split(['.', '@']).filter(|x| !x.is_empty()).count()
}

/// Children report at most 40 witnesses per class, shortest first.
fn keep_shortest(v: &mut Vec<(String, String, String)>) {
    v.sort_by(|a, b| (&a.0, size(&a.1), &a.1).cmp(&(&b.0, size(&b.1), &b.1)));
    let mut per: BTreeMap<String, usize> = BTreeMap::new();
    v.retain(|x| {
        let n = per.entry(x.0.clone()).or_insert(0);
        *n += 1;
        *n <= 40
    });
}

/// Sorted set of the kinds of actions performed from inside wake, e.g. "R+p".
fn in_wake_signature(prog: &str) -> String {
    let mut k: Vec<String> = prog.split('@').skip(1).filter_map(|d| d.split_once('=')).map(|(_, a)| a[..1].to_string()).collect();
    k.sort();
    k.dedup();
    if k.is_empty() { "none".to_string() } else { k.join("+") }
}

fn buckets(prefixes: &[String], n: usize) -> Vec<String> {
    let n = n.max(1).min(prefixes.len().max(1));
    let mut b = vec![Vec::new(); n];
    for (i, p) in prefixes.iter().enumerate() {
        b[i % n].push(p.clone());
    }
    b.into_iter().filter(|v| !v.is_empty()).map(|v| v.join(";")).collect()
}

fn replay(path: &str) {
    let v: Value = vcommon::serde_json::from_str(&std::fs::read_to_string(path).expect("replay file")).expect("json");
    let r = &v["replay"];
    match r["part"].as_str() {
        Some("aset") => {
            let mut hist = aset::dec_hist(r["history"].as_str().unwrap());
            let n = hist.len();
            let mut acc = aset::Acc::default();
            aset::explore(&mut hist, r["reversed"].as_bool().unwrap_or(false), n, &mut acc);
            println!("history {} -> {:?}", r["history"], acc.violations);
        }
        Some("lev") => {
            let var = lev::Variant::parse(r["variant"].as_str().unwrap());
            let (hist, devs) = lev::dec_prog(r["program"].as_str().unwrap());
            match lev::run(var, &hist, &devs) {
                Ok(out) => {
                    for rec in &out.recs {
                        println!("{}{:?} [{}..{}]{}", "    ".repeat(rec.depth as usize), rec.call, rec.start, rec.end, if rec.post { "  (closing probe)" } else { "" });
                    }
                    println!("waker invocations (waker, time): {:?}", out.wakes);
                    println!("verdict: {:?}", lev::judge(var, &out));
                }
                Err(p) => println!("panic: {p}"),
            }
        }
        _ => println!("not a c08s replay file"),
    }
}

fn main() {
    vcommon::quiet_panics();
    if let Some(job) = child_job() {
        child(&job);
        return;
    }
    if let Ok(path) = std::env::var("VERIF_REPLAY") {
        replay(&path);
        std::process::exit(0);
    }
    let thorough = vcommon::is_thorough();
    let mut c = Check::new("C08", "model_checking");
    let par = vcommon::default_parallelism();
    let aset_len = env_usize("C08S_ASET_LEN", if thorough { 9 } else { 6 });
    let lev_len = env_usize("C08S_LEV_LEN", if thorough { 7 } else { 6 });
    let lev_dev = env_usize("C08S_LEV_DEV", if thorough { 2 } else { 1 });
    let timeout = Duration::from_secs(if thorough { 3600 } else { 120 });

    // ---------------- jobs ----------------
    let mut jobs: Vec<String> = Vec::new();
    let mut aset_parent = aset::Acc::default();
    let aset_split = if aset_len >= 8 { 3 } else { 2 }.min(aset_len);
    for reversed in [false, true] {
        let mut prefixes = Vec::new();
        aset::shallow(&mut Vec::new(), reversed, aset_split, &mut aset_parent, &mut prefixes);
        for b in buckets(&prefixes, par * 4) {
            jobs.push(format!("aset|{}|{aset_len}|{b}", u8::from(reversed)));
        }
    }
    let mut lev_parent: BTreeMap<String, lev::Acc> = BTreeMap::new();
    let lev_split = 2.min(lev_len);
    for v in lev::Variant::all() {
        let mut prefixes = Vec::new();
        let acc = lev_parent.entry(v.name()).or_default();
        if let Err(e) = lev::shallow(v, &mut Vec::new(), lev_split, acc, &mut prefixes) {
            c.engine_failure(&e);
        }
        for b in buckets(&prefixes, par * 2) {
            jobs.push(format!("lev|{}|{lev_len}|{lev_dev}|{b}", v.name()));
        }
    }
    let results = vcommon::run_jobs(&jobs, par, timeout);

    // ---------------- aggregate ----------------
    let mut aset_hist = aset_parent.histories;
    let mut aset_steps = aset_parent.steps;
    let mut aset_out: BTreeMap<String, u64> = aset_parent.outcomes.iter().map(|(k, v)| (k.to_string(), *v)).collect();
    // (class, witness, message, context)
    let mut aset_viol: Vec<(String, String, String, String)> = aset_parent.violations.iter().map(|(a, b, m)| (a.clone(), b.clone(), m.clone(), "parent".to_string())).collect();
    let mut lev_prog = 0_u64;
    let mut lev_dev_prog = 0_u64;
    let mut lev_inapp = 0_u64;
    let mut lev_calls = 0_u64;
    let mut lev_nested = 0_u64;
    let mut lev_out: BTreeMap<String, u64> = BTreeMap::new();
    let mut lev_viol: Vec<(String, String, String, String)> = Vec::new();
    let mut per_variant: BTreeMap<String, u64> = BTreeMap::new();
    for (name, a) in &lev_parent {
        lev_prog += a.programs;
        lev_calls += a.calls;
        *per_variant.entry(name.clone()).or_insert(0) += a.programs;
        for (k, n) in &a.outcomes {
            *lev_out.entry(format!("{}:{k}", lev::Variant::parse(name).kind())).or_insert(0) += n;
        }
        for (cl, p, m) in &a.violations {
            lev_viol.push((cl.clone(), p.clone(), m.clone(), name.clone()));
        }
    }
    for (job, r) in jobs.iter().zip(&results) {
        let Some(d) = r.result_json() else {
            if r.timed_out {
                c.cap_hit(&format!("job {} did not finish within {}s", &job[..job.len().min(60)], timeout.as_secs()));
                continue;
            }
            let tail: String = r.stderr.lines().rev().take(5).collect::<Vec<_>>().join(" | ");
            c.engine_failure(&format!("child for job {} produced no result (exit {:?}): {tail}", &job[..job.len().min(80)], r.exit_code));
        };
        let p: Vec<&str> = job.split('|').collect();
        let outs = d["outcomes"].as_object().cloned().unwrap_or_default();
        if p[0] == "aset" {
            aset_hist += d["histories"].as_u64().unwrap_or(0);
            aset_steps += d["steps"].as_u64().unwrap_or(0);
            for (k, n) in outs {
                *aset_out.entry(k).or_insert(0) += n.as_u64().unwrap_or(0);
            }
            for v in d["violations"].as_array().cloned().unwrap_or_default() {
                aset_viol.push((v[0].as_str().unwrap().into(), v[1].as_str().unwrap().into(), v[2].as_str().unwrap().into(), format!("reversed={}", p[1])));
            }
        } else {
            let kind = lev::Variant::parse(p[1]).kind();
            lev_prog += d["programs"].as_u64().unwrap_or(0);
            *per_variant.entry(p[1].to_string()).or_insert(0) += d["programs"].as_u64().unwrap_or(0);
            lev_dev_prog += d["with_deviation"].as_u64().unwrap_or(0);
            lev_inapp += d["inapplicable"].as_u64().unwrap_or(0);
            lev_calls += d["calls"].as_u64().unwrap_or(0);
            lev_nested += d["nested_calls"].as_u64().unwrap_or(0);
            for (k, n) in outs {
                *lev_out.entry(format!("{kind}:{k}")).or_insert(0) += n.as_u64().unwrap_or(0);
            }
            for v in d["violations"].as_array().cloned().unwrap_or_default() {
                lev_viol.push((v[0].as_str().unwrap().into(), v[1].as_str().unwrap().into(), v[2].as_str().unwrap().into(), p[1].to_string()));
            }
        }
    }

    // ---------------- violations: one key per witness class, shortest witness first ----------------
    aset_viol.sort_by(|a, b| (size(&a.1), &a.1, &a.3).cmp(&(size(&b.1), &b.1, &b.3)));
    for (class, hist, msg, ctx) in &aset_viol {
        c.violation(class, &format!("history {hist} ({ctx}): {msg}"), json!({"part": "aset", "history": hist, "reversed": ctx.ends_with('1'), "message": msg}));
    }
    lev_viol.sort_by(|a, b| (size(&a.1), &a.1, &a.3).cmp(&(size(&b.1), &b.1, &b.3)));
    let mut min_shape: BTreeMap<(String, String), String> = BTreeMap::new();
    for (class, prog, _, variant) in &lev_viol {
        let kind = lev::Variant::parse(variant).kind().to_string();
        min_shape.entry((kind, class.clone())).or_insert_with(|| prog.clone());
    }
    for (class, prog, msg, variant) in &lev_viol {
        let kind = lev::Variant::parse(variant).kind().to_string();
        let shape = &min_shape[&(kind.clone(), class.clone())];
        // The non-atomicity of manual set() (flag first, release later) is one witness class per
        // *set of re-entrant actions that expose it* (e.g. "R+p" = reset and re-poll of another
        // pending future from inside wake), whatever the surrounding program; everything else is
        // keyed by the shape of its shortest witness.
        let key = if class == "set-not-atomic" { format!("{kind}:{class}:in-wake={}", in_wake_signature(prog)) } else { format!("{kind}:{class}:{shape}") };
        c.violation(&key, &format!("{variant} program {prog}: {msg}"), json!({"part": "lev", "variant": variant, "program": prog, "message": msg}));
    }

    // ---------------- evidence ----------------
    for (k, n) in &aset_out {
        c.outcome_n(&format!("awaiter-set:{k}"), *n);
    }
    for (k, n) in &lev_out {
        c.outcome_n(k, *n);
    }
    c.evaluations = aset_hist + lev_prog;
    c.distinct_add(aset_hist + lev_prog);
    c.states = aset_hist + lev_prog;
    c.transitions = aset_steps + lev_calls;
    c.traces_validated = aset_hist + lev_prog;
    c.rule = format!(
        "(1) AwaiterSet: every contract-legal history of length <= {aset_len} over {{register(i, fresh waker) incl. waker replacement of a waiting awaiter, unregister(i), take_notification(i), notify_one, advance_generation, notify_one_prior_generation}} on 3 awaiters in one pinned allocation, in both address orders (ascending/descending), each replayed from scratch on the real set and compared with a VecDeque model after every step; \
         (2) Local{{Auto,Manual}}ResetEvent x {{boxed,embedded}} x {{ascending,descending future addresses}}: every history of length <= {lev_len} over {{set, reset (manual), try_wait, create+poll a wait future (<= {} top-level futures), re-poll W_j with a fresh waker, drop W_j}} followed by a closing probe (poll every pending waiter, drop all, try_wait), times every set of <= {lev_dev} deviations (n-th waker invocation performs one of set/reset/try_wait/create+poll new future/re-poll another future/drop another future from inside wake), checked by exhaustive linearizability search (nested calls overlap their enclosing call) against the sequential spec of the loom half; \
         distinct = one history resp. one (history, deviation set); no state merging",
        lev::TOP_FUTS
    );
    c.extra.insert("awaiter_set_histories".into(), json!(aset_hist));
    c.extra.insert("awaiter_set_operations_executed".into(), json!(aset_steps));
    c.extra.insert("awaiter_set_max_history_length".into(), json!(aset_len));
    c.extra.insert("local_event_programs".into(), json!(lev_prog));
    c.extra.insert("local_event_programs_with_reentrant_action".into(), json!(lev_dev_prog));
    c.extra.insert("local_event_candidate_deviations_not_applicable".into(), json!(lev_inapp));
    c.extra.insert("local_event_calls_executed".into(), json!(lev_calls));
    c.extra.insert("local_event_calls_from_inside_wake".into(), json!(lev_nested));
    c.extra.insert("local_event_programs_per_variant".into(), json!(per_variant));
    c.extra.insert("local_event_bounds".into(), json!({"history_length": lev_len, "deviations": lev_dev}));
    c.extra.insert("debug_assertions".into(), json!(cfg!(debug_assertions)));
    c.assumptions.push(format!(
        "sequential half built with debug_assertions={}: notify_one then picks head or tail by address (oracle accepts either, both address orders are enumerated) and the crates' debug_assert!s are live (a failing one is a panic violation)",
        cfg!(debug_assertions)
    ));
    c.assumptions.push("inside wake only the operations listed in the events' '# Reentrancy' docs plus re-polling ANOTHER pending future are exercised; polling/dropping the future that owns the firing waker is excluded".into());
    c.sample(json!({"awaiter_set_history": "r0.r1.A.r2.P.P", "meaning": "register 0,1; advance; register 2; two prior-generation notifies -> exactly awaiters 0 and 1"}));
    c.sample(json!({"local_event_program": "n.n.S@0=d1", "meaning": "two waiters pending; set(); the woken waiter's wake() drops the other waiter"}));

    // ---------------- anti-vacuity ----------------
    if c.violation_count() == 0 {
        let need_aset = ["re-register-replaces-waker", "unregister-middle", "unregister-notified-is-noop", "notify-one-none", "notify-prior-some", "notify-prior-none-all-current-generation", "take-notification-true"];
        for n in need_aset {
            if !aset_out.contains_key(n) {
                c.engine_failure(&format!("vacuous: AwaiterSet outcome class {n} never observed"));
            }
        }
        if !(aset_out.contains_key("notify-one-picked-head") && (aset_out.contains_key("notify-one-picked-tail") || !cfg!(debug_assertions))) {
            c.engine_failure("vacuous: notify_one never had a choice between head and tail");
        }
        let mut need_lev = vec!["local-auto:set-woke-one", "local-auto:drop-forwarded-to-waiter", "local-auto:try_wait-true", "local-auto:poll-ready", "local-manual:set-woke-several", "local-manual:poll-ready", "local-manual:reset"];
        if lev_dev > 0 {
            need_lev.extend(["local-auto:in-wake:set", "local-auto:in-wake:drop-other", "local-auto:in-wake:poll-pending", "local-manual:in-wake:reset", "local-manual:in-wake:poll-ready", "local-manual:in-wake:drop-other"]);
        }
        if lev_dev > 1 {
            // needs reset and poll from two different wake callbacks of one set()
            need_lev.extend(["local-manual:in-wake:poll-pending", "local-auto:in-wake:nested-twice"]);
        }
        for n in need_lev {
            if !lev_out.contains_key(n) {
                c.engine_failure(&format!("vacuous: local event outcome class {n} never observed"));
            }
        }
    }
    c.finish();
}

//! C11 - Linux hardware inventory equals what the kernel's text interfaces describe.
//!
//! Exhaustive enumeration (no sampling) of four finite families, every element judged by an
//! independent oracle:
//!   1. generated machine descriptions -> kernel text files -> real Linux platform code,
//!   2. every subset of an 11-element id set through cpulist emit -> parse,
//!   3. every short string over `0 1 9 , - :` through cpulist parse vs. an independent grammar,
//!   4. every short insert/contains/iterate history of the affinity mask vs. `BTreeSet`.

mod codec;
mod machine;
mod mask;

use std::collections::{BTreeMap, HashSet};
use std::sync::Arc;
use std::sync::Mutex;
use std::sync::atomic::{AtomicUsize, Ordering};

use machine::{Cgroup, Desc, MAX_N, TextVariant};
use vcommon::serde_json::{Value, json};

/// Per-worker accumulator, merged at the end.
#[derive(Default)]
pub struct Acc {
    pub evaluations: u64,
    /// Hashes of distinct non-trivial cases of the small parts (codec, mask).
    pub distinct: HashSet<u64>,
    /// Distinct non-trivial machine descriptions (measured per work unit, units are disjoint).
    pub distinct_machines: u64,
    pub outcomes: BTreeMap<String, u64>,
    /// key -> (first summary, first replay, witness count)
    pub violations: BTreeMap<String, (String, Value, u64)>,
    pub samples: Vec<Value>,
    pub skipped_no_runnable: u64,
    pub skipped_same_text: u64,
    pub hw_evaluations: u64,
    /// Machine outcome classes, counted by index (see `MACHINE_FLAGS`) to keep the hot loop cheap.
    pub flags: [u64; MACHINE_FLAGS.len()],
    /// [n][reported count]
    pub reported: [[u64; MAX_N + 1]; MAX_N + 1],
    /// variant name -> evaluations that produced a distinct file set
    pub variants: BTreeMap<String, u64>,
}

pub const MACHINE_FLAGS: [&str; 10] = [
    "machine:cpuinfo-lists-an-offline-processor",
    "machine:online-processor-excluded-by-allowed-list",
    "machine:some-processor-outside-region-0",
    "machine:reported-processor-claimed-by-no-node",
    "machine:node-names-id-cpuinfo-lacks",
    "machine:quota-below-processor-count",
    "machine:quota-equals-processor-count",
    "machine:some-efficiency-class-processor",
    "machine:id-space-larger-than-reported-set",
    "machine:systemhardware-layer-checked",
];

impl Acc {
    pub fn outcome(&mut self, class: &str) {
        if let Some(v) = self.outcomes.get_mut(class) {
            *v += 1;
        } else {
            self.outcomes.insert(class.to_string(), 1);
        }
    }
    pub fn violation(&mut self, key: &str, summary: &str, replay: Value) {
        if let Some(v) = self.violations.get_mut(key) {
            v.2 += 1;
            // Keep the smallest witness seen (work units run largest-first and in parallel).
            if summary.len() < v.0.len() {
                v.0 = summary.to_string();
                v.1 = replay;
            }
        } else {
            self.violations.insert(key.to_string(), (summary.to_string(), replay, 1));
        }
    }
    pub fn sample(&mut self, v: Value) {
        if self.samples.len() < 64 {
            self.samples.push(v);
        }
    }
    fn merge(&mut self, o: Acc) {
        self.evaluations += o.evaluations;
        self.distinct.extend(o.distinct);
        self.distinct_machines += o.distinct_machines;
        for (k, v) in o.outcomes {
            *self.outcomes.entry(k).or_insert(0) += v;
        }
        for (k, v) in o.violations {
            match self.violations.get_mut(&k) {
                Some(e) => {
                    e.2 += v.2;
                    if v.0.len() < e.0.len() {
                        e.0 = v.0;
                        e.1 = v.1;
                    }
                }
                None => {
                    self.violations.insert(k, v);
                }
            }
        }
        self.samples.extend(o.samples);
        self.skipped_no_runnable += o.skipped_no_runnable;
        self.skipped_same_text += o.skipped_same_text;
        self.hw_evaluations += o.hw_evaluations;
        for (a, b) in self.flags.iter_mut().zip(o.flags) {
            *a += b;
        }
        for (ra, rb) in self.reported.iter_mut().zip(o.reported) {
            for (a, b) in ra.iter_mut().zip(rb) {
                *a += b;
            }
        }
        for (k, v) in o.variants {
            *self.variants.entry(k).or_insert(0) += v;
        }
    }

    /// Fold the indexed counters into the named outcome classes.
    fn fold_counters(&mut self) {
        for (i, name) in MACHINE_FLAGS.iter().enumerate() {
            if self.flags[i] > 0 {
                *self.outcomes.entry((*name).to_string()).or_insert(0) += self.flags[i];
            }
        }
        for n in 0..=MAX_N {
            for r in 0..=MAX_N {
                if self.reported[n][r] > 0 {
                    *self.outcomes.entry(format!("machine:reported-{r}-of-{n}-possible")).or_insert(0) +=
                        self.reported[n][r];
                }
            }
        }
        for (k, v) in std::mem::take(&mut self.variants) {
            *self.outcomes.entry(format!("machine:variant:{k}")).or_insert(0) += v;
        }
    }
}

#[derive(Clone, Debug)]
enum Unit {
    /// Full core product for one (n, status vector); `variants` = text variants to apply.
    Machine { n: usize, status: [u8; MAX_N], all_text_variants: bool, hw: bool },
    /// All cgroup layouts for one (n, status vector), no node directory, default text.
    Cgroups { n: usize, status: [u8; MAX_N], hw: bool },
    CodecSubsets,
    Strings { len: usize, first: Option<u8> },
    Mask { width: usize, first: usize, depth: usize },
}

struct Bounds {
    n_core: usize,
    n_text: usize,
    n_cgroup: usize,
    n_hw: usize,
    max_nodes: usize,
    string_len: usize,
    mask_depth: usize,
}

const MAIN_CGROUP: Cgroup = Cgroup::V2(150_000, 100_000);

fn status_vectors(n: usize) -> Vec<[u8; MAX_N]> {
    let mut out = Vec::new();
    for mut code in 0..3usize.pow(n as u32) {
        let mut s = [0u8; MAX_N];
        for slot in s.iter_mut().take(n) {
            *slot = (code % 3) as u8;
            code /= 3;
        }
        // At least one processor must be online and listed, or nothing could be running this code.
        if s[..n].contains(&machine::ON_LISTED) {
            out.push(s);
        }
    }
    out
}

fn evaluate(acc: &mut Acc, d: &Desc, variant_name: &str, hw: bool, seen: &mut Vec<u64>, unit_distinct: &mut HashSet<u64>) {
    let fs = Arc::new(machine::build_fs(d));
    let h = fs.text_hash();
    if seen.contains(&h) {
        // This variant does not change a single byte relative to a variant already evaluated for
        // the same ground truth (e.g. "empty node has no file" when no node is empty).
        acc.skipped_same_text += 1;
        return;
    }
    seen.push(h);
    acc.evaluations += 1;
    if !d.is_trivial() {
        unit_distinct.insert(h);
    }
    let e = machine::oracle(d);
    let mut found: Vec<(String, String)> = Vec::new();
    match machine::run_platform(&fs) {
        Err(msg) => {
            acc.outcome("machine:panic");
            found.push(machine::panic_violation("platform", &msg));
        }
        Ok(inv) => {
            let procs: Vec<(u32, u32)> =
                inv.processors.iter().map(|p| (p.id, p.memory_region_id)).collect();
            found.extend(machine::judge(
                d,
                &e,
                &procs,
                true,
                inv.max_processor_id,
                inv.max_memory_region_id,
                inv.max_processor_time,
                "platform",
            ));
            // Outcome classes (anti-vacuity).
            let listed_on = (0..d.n).filter(|i| d.status[*i] == machine::ON_LISTED).count();
            let listed = (0..d.n).filter(|i| d.status[*i] != machine::OFF_UNLISTED).count();
            // Situation classes are derived from the expectation (not from what the code under
            // test answered), so that a wrong answer is a verdict and never an anti-vacuity failure.
            let exp = &e.processors;
            acc.reported[d.n][exp.len().min(MAX_N)] += 1;
            if listed > listed_on {
                acc.flags[0] += 1;
            }
            if exp.len() < listed_on {
                acc.flags[1] += 1;
            }
            if exp.iter().any(|p| p.1 > 0) {
                acc.flags[2] += 1;
            }
            if d.k > 0 && (0..d.n).any(|i| d.member[i] == 0 && exp.iter().any(|p| p.0 == i as u32)) {
                acc.flags[3] += 1;
            }
            if d.k > 0
                && (0..d.n).any(|i| d.member[i] != 0 && d.status[i] == machine::OFF_UNLISTED)
            {
                acc.flags[4] += 1;
            }
            match e.quota {
                machine::QuotaExpect::Exactly(q) if q < exp.len() as f64 => acc.flags[5] += 1,
                _ => acc.flags[6] += 1,
            }
            if inv
                .processors
                .iter()
                .any(|p| p.efficiency_class == many_cpus_impl::EfficiencyClass::Efficiency)
            {
                acc.flags[7] += 1;
            }
            if d.n > exp.len() {
                acc.flags[8] += 1;
            }
            match acc.variants.get_mut(variant_name) {
                Some(v) => *v += 1,
                None => {
                    acc.variants.insert(variant_name.to_string(), 1);
                }
            }
            if acc.samples.len() < 40
                && !d.is_trivial()
                && (acc.evaluations % 50_021 == 7 || (acc.evaluations < 4000 && acc.evaluations % 997 == 3))
            {
                acc.sample(json!({
                    "part": "machine",
                    "description": d.to_json(),
                    "files": fs.to_json(),
                    "reported": procs,
                    "max_processor_id": inv.max_processor_id,
                    "max_memory_region_id": inv.max_memory_region_id,
                    "max_processor_time": inv.max_processor_time,
                    "active_processor_count": inv.active_processor_count,
                }));
            }
        }
    }
    if hw {
        acc.hw_evaluations += 1;
        acc.flags[9] += 1;
        match machine::run_system_hardware(&fs) {
            Err(msg) => found.push(machine::panic_violation("systemhardware", &msg)),
            Ok(v) => {
                found.extend(machine::judge(
                    d,
                    &e,
                    &v.processors,
                    false,
                    v.max_processor_id,
                    v.max_memory_region_id,
                    v.max_processor_time,
                    "systemhardware",
                ));
            }
        }
    }
    for (key, summary) in found {
        let replay = json!({"part": "machine", "description": d.to_json(), "files": fs.to_json()});
        acc.violation(&key, &summary, replay);
    }
}

fn for_each_membership(n: usize, k: usize, mut f: impl FnMut(&[u8; MAX_N])) {
    let base = k + 1;
    let total = if k == 0 { 1 } else { base.pow(n as u32) };
    for mut code in 0..total {
        let mut m = [0u8; MAX_N];
        if k > 0 {
            for slot in m.iter_mut().take(n) {
                *slot = (code % base) as u8;
                code /= base;
            }
        }
        f(&m);
    }
}

fn run_unit(unit: &Unit, acc: &mut Acc, b: &Bounds, family: &[(String, TextVariant)]) {
    match unit {
        Unit::Machine { n, status, all_text_variants, hw } => {
            let n = *n;
            let mut unit_distinct = HashSet::new();
            for allowed in 1u32..(1 << n) {
                let runnable = (0..n)
                    .any(|i| status[i] == machine::ON_LISTED && allowed & (1 << i) != 0);
                if !runnable {
                    // A process allowed on no online processor cannot exist.
                    acc.skipped_no_runnable += 1;
                    continue;
                }
                for k in 0..=b.max_nodes {
                    for_each_membership(n, k, |member| {
                        let mut seen = Vec::with_capacity(20);
                        let variants = if *all_text_variants { family } else { &family[..1] };
                        for (idx, (name, tv)) in variants.iter().enumerate() {
                            let d = Desc {
                                n,
                                status: *status,
                                allowed,
                                k,
                                member: *member,
                                cgroup: MAIN_CGROUP,
                                tv: *tv,
                            };
                            evaluate(acc, &d, name, *hw && idx == 0, &mut seen, &mut unit_distinct);
                        }
                    });
                }
            }
            acc.distinct_machines += unit_distinct.len() as u64;
        }
        Unit::Cgroups { n, status, hw } => {
            let n = *n;
            let mut unit_distinct = HashSet::new();
            let layouts = machine::all_cgroups();
            for allowed in 1u32..(1 << n) {
                let runnable = (0..n)
                    .any(|i| status[i] == machine::ON_LISTED && allowed & (1 << i) != 0);
                if !runnable {
                    continue; // counted by the Machine unit of the same (n, status)
                }
                for cg in &layouts {
                    if *cg == MAIN_CGROUP {
                        continue; // that file set is the Machine unit's K=0 case
                    }
                    let d = Desc {
                        n,
                        status: *status,
                        allowed,
                        k: 0,
                        member: [0; MAX_N],
                        cgroup: *cg,
                        tv: TextVariant::default(),
                    };
                    let mut seen = Vec::with_capacity(20);
                    let name = format!("cgroup:{}", format!("{cg:?}").split('(').next().unwrap_or(""));
                    evaluate(acc, &d, &name, *hw, &mut seen, &mut unit_distinct);
                }
            }
            acc.distinct_machines += unit_distinct.len() as u64;
        }
        Unit::CodecSubsets => codec::subsets(acc),
        Unit::Strings { len, first } => codec::strings(acc, *len, *first),
        Unit::Mask { width, first, depth } => mask::histories(acc, *width, *first, *depth),
    }
}

/// `--replay <file>`: run the one case of a replay file on the real code, without the explorer.
fn replay(path: &str) -> ! {
    let text = std::fs::read_to_string(path).unwrap_or_else(|e| {
        println!("ENGINE-FAILURE property=C11 cannot read replay {path}: {e}");
        std::process::exit(2)
    });
    let v: Value = vcommon::serde_json::from_str(&text).unwrap_or(Value::Null);
    let r = if v["replay"].is_object() { &v["replay"] } else { &v };
    let mut acc = Acc::default();
    match r["part"].as_str() {
        Some("codec-subsets") => {
            let input: Vec<u32> = r["emit_input"].as_array().map(|a| a.iter().filter_map(|x| x.as_u64().map(|x| x as u32)).collect()).unwrap_or_default();
            codec::one_emit(&mut acc, &input, false);
        }
        Some("codec-strings") => codec::one_string(&mut acc, r["parse_input"].as_str().unwrap_or("")),
        Some("cpumask") => {
            let names: Vec<String> = (0..mask::OPS).map(mask::op_name).collect();
            let ops: Vec<usize> = r["history"].as_array().map(|a| a.iter().filter_map(|x| names.iter().position(|n| Some(n.as_str()) == x.as_str())).collect()).unwrap_or_default();
            mask::run_history(&mut acc, r["initial_width_words"].as_u64().unwrap_or(1) as usize, &ops);
        }
        Some("machine") => match Desc::from_raw(&r["description"]["raw"]) {
            Some(d) => evaluate(&mut acc, &d, "replay", d.n <= 3, &mut Vec::new(), &mut HashSet::new()),
            None => {
                println!("ENGINE-FAILURE property=C11 replay file has no usable description.raw");
                std::process::exit(2)
            }
        },
        _ => {
            println!("ENGINE-FAILURE property=C11 replay file has no known 'part'");
            std::process::exit(2)
        }
    }
    if acc.violations.is_empty() {
        println!("REPLAY property=C11 the case holds on the current tree");
        std::process::exit(0);
    }
    for (key, (summary, _, _)) in &acc.violations {
        println!("VIOLATION property=C11 replay={path} key={key} :: {summary}");
    }
    std::process::exit(1)
}

fn main() {
    vcommon::quiet_panics();
    if let Ok(path) = std::env::var("VERIF_REPLAY") {
        replay(&path);
    }
    let thorough = vcommon::is_thorough();
    let b = if thorough {
        Bounds { n_core: 6, n_text: 5, n_cgroup: 6, n_hw: 3, max_nodes: 3, string_len: 7, mask_depth: 5 }
    } else {
        Bounds { n_core: 4, n_text: 4, n_cgroup: 4, n_hw: 3, max_nodes: 3, string_len: 5, mask_depth: 4 }
    };
    let mut c = vcommon::Check::new("C11", "exploration");
    let family = TextVariant::one_factor_family();
    let cgroup_layouts = machine::all_cgroups().len();

    // Work units, biggest first.
    let mut units = Vec::new();
    for n in (1..=b.n_core).rev() {
        for status in status_vectors(n) {
            units.push(Unit::Machine { n, status, all_text_variants: n <= b.n_text, hw: n <= b.n_hw });
        }
    }
    for len in (0..=b.string_len).rev() {
        if len == 0 {
            units.push(Unit::Strings { len, first: None });
        } else {
            for a in codec::ALPHABET {
                units.push(Unit::Strings { len, first: Some(a) });
            }
        }
    }
    for width in mask::WIDTHS {
        for first in 0..mask::OPS {
            units.push(Unit::Mask { width, first, depth: b.mask_depth });
        }
    }
    for n in (1..=b.n_cgroup).rev() {
        for status in status_vectors(n) {
            units.push(Unit::Cgroups { n, status, hw: n <= b.n_hw });
        }
    }
    units.push(Unit::CodecSubsets);

    let next = AtomicUsize::new(0);
    let total = Mutex::new(Acc::default());
    let threads = vcommon::default_parallelism();
    std::thread::scope(|s| {
        for _ in 0..threads {
            s.spawn(|| {
                let mut acc = Acc::default();
                loop {
                    let i = next.fetch_add(1, Ordering::SeqCst);
                    if i >= units.len() {
                        break;
                    }
                    run_unit(&units[i], &mut acc, &b, &family);
                }
                total.lock().unwrap().merge(acc);
            });
        }
    });
    let mut acc = total.into_inner().unwrap();
    acc.fold_counters();

    c.evaluations = acc.evaluations;
    for h in &acc.distinct {
        c.distinct_hash(*h);
    }
    c.distinct_add(acc.distinct_machines);
    for (k, v) in &acc.outcomes {
        c.outcome_n(k, *v);
    }
    c.max_samples = 12;
    // A few samples of every part.
    for part in ["machine", "codec-subsets", "codec-strings", "cpumask"] {
        for s in acc.samples.iter().filter(|s| s["part"] == part).take(3) {
            c.sample(s.clone());
        }
    }
    let mut witness_counts = serde_map();
    for (key, (summary, replay, n)) in &acc.violations {
        c.violation(key, summary, replay.clone());
        witness_counts.insert(key.clone(), json!(n));
    }
    c.extra.insert("violation_witness_counts".into(), Value::Object(witness_counts));
    c.extra.insert("machine_cases_skipped_because_no_allowed_processor_is_online".into(), json!(acc.skipped_no_runnable));
    c.extra.insert("text_variants_skipped_because_byte_identical_to_an_evaluated_variant".into(), json!(acc.skipped_same_text));
    c.extra.insert("systemhardware_layer_evaluations".into(), json!(acc.hw_evaluations));
    c.extra.insert("work_units".into(), json!(units.len()));
    c.extra.insert("text_variant_family".into(), json!(family.iter().map(|f| f.0.clone()).collect::<Vec<_>>()));
    c.extra.insert("cgroup_layouts".into(), json!(machine::all_cgroups().iter().map(|c| format!("{c:?}")).collect::<Vec<_>>()));

    c.rule = format!(
        "Exhaustive, no sampling. (1) MACHINES: possible ids 0..N-1; full product of: per-id state in \
{{online+in cpuinfo, offline+absent from cpuinfo, offline+still in cpuinfo with cpuN/online=0}} (>=1 online) x every \
non-empty Cpus_allowed_list subset (cases where no allowed id is online are skipped and counted: no such process can \
exist) x node count K in 0..={mn} (0 = no node directory) x every membership function id -> {{no node, node 0..K-1}} \
(so nodes naming ids cpuinfo lacks, ids no node names, empty nodes), cgroup v2 quota 1.5 cpus; for N<={nc} with the \
default text rendering and for N<={nt} additionally with each of {fam} single-axis deviations from the default \
(one factor at a time, not their product): bogomips absent / highest listed id slower, key casing x2, trailing \
machine block / doubled blank lines / no final newline, ARM identity fields / no model, cpu/possible and cpu/online \
present-absent (3 combos), cpuN/online absent-for-all / present-for-all, empty node without cpulist file, no trailing \
newline in sysfs files, id lists without ranges, minimal /proc/self/status; a deviation that changes no byte for a \
given ground truth is skipped. Cgroup sub-space: N<={ncg}, every state vector x allowed subset, no node directory, \
default text x {ncl} layouts (no file, v2 max, v2/v1 six quota:period pairs on both sides of the count, v1 -1, v2 \
root, pure-v1 without 0:: line [lenient oracle], 5 malformed v2, 3 malformed v1). N<={nhw}: the same files are also \
read through the public SystemHardware handle. Oracle: reported = listed&online&allowed ascending, region = the one \
listing node else 0, ids<=max id (= end of cpu/possible when published), regions<=max region (= K-1 / 0), quota = \
min(count, quota/period), no panic. (2) CODEC: all 2^11 subsets of {{0,1,2,3,5,6,7,MAX-3..MAX}} in 3 input orders: \
emit must not panic, parse(emit(S)) == sorted S, emitted text denotes S under an independent grammar. (3) all strings \
of length <={sl} over '0 1 9 , - :' : parse never panics and accept => value equals the independent grammar's. (4) \
CPUMASK: all histories of length <={md} over insert/contains of {{0,63,64,65,1023,1024}} + iterate (13 ops), at initial \
widths 1,2,16,17 words, vs BTreeSet after every step, plus equality across widths. A machine case is non-trivial \
unless all ids are online, allowed, in node 0 (or no nodes) with default text; distinct = distinct bytes of all files \
(hashed per work unit; units differ in cpuinfo). A string is non-trivial if it is in the language; a mask history if \
it has an insert and an observation.",
        mn = b.max_nodes, nc = b.n_core, nt = b.n_text, fam = family.len() - 1, ncg = b.n_cgroup,
        ncl = cgroup_layouts, nhw = b.n_hw, sl = b.string_len, md = b.mask_depth,
    );
    c.assumptions.push("Kernel-legal = consistent with one ground truth: cpu/possible = 0..N-1, cpu/online = the online ids, Cpus_allowed_list within the possible ids, each id in at most one node list, cpuN/online = 0 for every offline id; a cpuinfo that lists an offline id is allowed only together with cpuN/online = 0.".into());
    c.assumptions.push("A pure cgroup-v1 machine (no 0:: line) is documented by the code as unsupported; for it only 'no panic and 0 < quota <= count' is demanded.".into());
    c.assumptions.push("Efficiency class, relative speed, model and active_processor_count are observed (outcome classes) but not judged: the property statement does not constrain them.".into());
    c.assumptions.push("The SystemHardware layer goes through ProcessorSetBuilder::take_all(); building the inventory issues no system call, so the real bindings are passed.".into());

    // Anti-vacuity: the enumeration must have reached the situations it claims to cover.
    let need = [
        "machine:cpuinfo-lists-an-offline-processor",
        "machine:online-processor-excluded-by-allowed-list",
        "machine:some-processor-outside-region-0",
        "machine:reported-processor-claimed-by-no-node",
        "machine:node-names-id-cpuinfo-lacks",
        "machine:quota-below-processor-count",
        "machine:quota-equals-processor-count",
        "machine:some-efficiency-class-processor",
        "machine:id-space-larger-than-reported-set",
        "machine:systemhardware-layer-checked",
        "codec:emitted-with-range",
        "codec:emitted-singles-only",
        "codec:rejected-by-both",
        "codec:accepted-with-stride",
        "codec:accepted-with-range",
        "codec:accepted-singles",
        "codec:accepted-empty-set",
        "cpumask:mask-widened",
        "cpumask:mask-kept-width",
    ];
    let have_panics = acc.outcomes.contains_key("machine:panic");
    for n in need {
        // The efficiency class is only observed on the implementation's answer.
        if n == "machine:some-efficiency-class-processor" && !acc.violations.is_empty() {
            continue;
        }
        if !c.outcomes().contains_key(n) && !(have_panics && n.starts_with("machine:")) {
            c.engine_failure(&format!("anti-vacuity: outcome class {n} was never observed"));
        }
    }
    for (name, _) in &family {
        if !c.outcomes().contains_key(&format!("machine:variant:{name}")) && !have_panics {
            c.engine_failure(&format!("anti-vacuity: text variant {name} never produced a distinct file set"));
        }
    }
    c.finish();
}

fn serde_map() -> vcommon::serde_json::Map<String, Value> {
    vcommon::serde_json::Map::new()
}

//! Generated machine descriptions: ground truth -> kernel text files -> real platform code, and an
//! independent straight-line interpretation of the same ground truth.

use std::fmt::Write as _;
use std::panic::{AssertUnwindSafe, catch_unwind};
use std::sync::Arc;

use many_cpus_impl::SystemHardware;
use many_cpus_impl::pal::linux_verif::{VerifFilesystem, VerifInventory, VerifPlatform};
use vcommon::serde_json::{Value, json};

pub const MAX_N: usize = 8;

/// Per-processor ground truth.
pub const ON_LISTED: u8 = 0; // online, described by /proc/cpuinfo
pub const OFF_UNLISTED: u8 = 1; // offline, absent from /proc/cpuinfo (mainstream kernels)
pub const OFF_LISTED: u8 = 2; // offline but still described by /proc/cpuinfo; cpuN/online says 0

/// cgroup layouts.
#[derive(Clone, Copy, Debug, PartialEq)]
pub enum Cgroup {
    /// /proc/self/cgroup does not exist.
    NoFile,
    /// Pure v1 machine: no `0::` line. Documented as unsupported by the code under test (the limit
    /// is not found); only "no panic, quota within (0, count]" is demanded.
    V1OnlyNoUnifiedLine(u64, u64),
    /// v2, `cpu.max` = "max <period>".
    V2Max,
    /// v2, `cpu.max` = "<quota> <period>".
    V2(u64, u64),
    /// hybrid: name published through the `0::` line, limit through the v1 cpu controller files.
    V1(u64, u64),
    /// hybrid, `cpu.cfs_quota_us` = -1.
    V1Unlimited,
    /// v2 `cpu.max` with contents that are not "<n> <n>".
    V2Malformed(u8),
    /// v1 files with contents that are not numbers.
    V1Malformed(u8),
    /// v2 root cgroup (`0::/`), which has no `cpu.max`.
    V2RootNoFile,
}

pub const QUOTAS: [(u64, u64); 6] = [
    (50_000, 100_000),  // 0.5
    (100_000, 100_000), // 1.0
    (150_000, 100_000), // 1.5
    (250_000, 100_000), // 2.5
    (900_000, 100_000), // 9.0 - above every processor count enumerated
    (1_000, 3_000),     // 0.333..
];

pub const V2_MALFORMED: [&str; 5] = ["garbage\n", "100000\n", "max\n", "", "abc def\n"];
pub const V1_MALFORMED: [(&str, &str); 3] =
    [("abc\n", "100000\n"), ("100000\n", "xyz\n"), ("", "")];

pub fn all_cgroups() -> Vec<Cgroup> {
    let mut v = vec![Cgroup::NoFile, Cgroup::V2Max, Cgroup::V1Unlimited, Cgroup::V2RootNoFile];
    for (q, p) in QUOTAS {
        v.push(Cgroup::V2(q, p));
        v.push(Cgroup::V1(q, p));
    }
    v.push(Cgroup::V1OnlyNoUnifiedLine(50_000, 100_000));
    for i in 0..V2_MALFORMED.len() {
        v.push(Cgroup::V2Malformed(i as u8));
    }
    for i in 0..V1_MALFORMED.len() {
        v.push(Cgroup::V1Malformed(i as u8));
    }
    v
}

/// Text-format / optional-file axes. All zero = the default (mainstream x86 kernel).
#[derive(Clone, Copy, Debug, Default, PartialEq, Eq, Hash)]
pub struct TextVariant {
    /// 0 = every processor the same bogomips, 1 = no bogomips line, 2 = highest listed id slower.
    pub bogo: u8,
    /// 0 = "processor\t: n" / "bogomips", 1 = "Processor" / "BogoMIPS", 2 = "PROCESSOR   : n".
    pub casing: u8,
    /// 0 = blocks each closed by one blank line, 1 = trailing machine block (Hardware/Revision/Serial),
    /// 2 = doubled blank separators and extra blank lines at the end, 3 = no final newline at all.
    pub trailing: u8,
    /// 0 = "model name", 1 = ARM "CPU implementer" + "CPU part", 2 = no identifying field.
    pub model: u8,
    /// 0 = cpu/possible and cpu/online present, 1 = only possible, 2 = only online, 3 = neither.
    pub idmask: u8,
    /// cpuN/online of online processors: 0 = absent for cpu0 and "1" for the rest, 1 = absent for
    /// all, 2 = "1" for all. (Offline processors always say "0".)
    pub cpu_online: u8,
    /// A node with no member: 0 = empty cpulist file, 1 = no cpulist file (node never onlined).
    pub empty_node: u8,
    /// 0 = sysfs files end with "\n", 1 = no trailing newline.
    pub newline: u8,
    /// 0 = lists as the kernel prints them (a-b for >= 2 consecutive), 1 = every id on its own.
    pub listfmt: u8,
    /// 0 = realistic /proc/self/status, 1 = only the Cpus_allowed_list line.
    pub status: u8,
}

impl TextVariant {
    /// The default plus every single-axis deviation from it.
    pub fn one_factor_family() -> Vec<(String, TextVariant)> {
        let d = TextVariant::default();
        let mut v = vec![("default".to_string(), d)];
        for x in 1..=2 {
            v.push((format!("bogo={x}"), TextVariant { bogo: x, ..d }));
        }
        for x in 1..=2 {
            v.push((format!("casing={x}"), TextVariant { casing: x, ..d }));
        }
        for x in 1..=3 {
            v.push((format!("trailing={x}"), TextVariant { trailing: x, ..d }));
        }
        for x in 1..=2 {
            v.push((format!("model={x}"), TextVariant { model: x, ..d }));
        }
        for x in 1..=3 {
            v.push((format!("idmask={x}"), TextVariant { idmask: x, ..d }));
        }
        for x in 1..=2 {
            v.push((format!("cpu_online={x}"), TextVariant { cpu_online: x, ..d }));
        }
        v.push(("empty_node=1".into(), TextVariant { empty_node: 1, ..d }));
        v.push(("newline=1".into(), TextVariant { newline: 1, ..d }));
        v.push(("listfmt=1".into(), TextVariant { listfmt: 1, ..d }));
        v.push(("status=1".into(), TextVariant { status: 1, ..d }));
        v
    }
}

/// Ground truth of one machine as seen by one process.
#[derive(Clone, Debug)]
pub struct Desc {
    /// Possible processor ids are 0..n.
    pub n: usize,
    pub status: [u8; MAX_N],
    /// Bit i = processor i is in Cpus_allowed_list.
    pub allowed: u32,
    /// Number of possible NUMA nodes; 0 = the kernel publishes no node directory at all.
    pub k: usize,
    /// 0 = no node lists processor i, j+1 = node j lists it.
    pub member: [u8; MAX_N],
    pub cgroup: Cgroup,
    pub tv: TextVariant,
}

impl Desc {
    pub fn from_raw(raw: &Value) -> Option<Desc> {
        let n = raw["n"].as_u64()? as usize;
        let arr = |k: &str| -> Option<Vec<u8>> {
            Some(raw[k].as_array()?.iter().filter_map(|x| x.as_u64().map(|x| x as u8)).collect())
        };
        let mut status = [0u8; MAX_N];
        let mut member = [0u8; MAX_N];
        status[..n].copy_from_slice(&arr("status")?);
        member[..n].copy_from_slice(&arr("member")?);
        let t = arr("tv")?;
        Some(Desc {
            n,
            status,
            allowed: raw["allowed"].as_u64()? as u32,
            k: raw["k"].as_u64()? as usize,
            member,
            cgroup: *all_cgroups().get(raw["cgroup"].as_u64()? as usize)?,
            tv: TextVariant {
                bogo: t[0], casing: t[1], trailing: t[2], model: t[3], idmask: t[4],
                cpu_online: t[5], empty_node: t[6], newline: t[7], listfmt: t[8], status: t[9],
            },
        })
    }

    pub fn to_json(&self) -> Value {
        json!({
            "possible_ids": format!("0..{}", self.n),
            "status(0=online+listed,1=offline+unlisted,2=offline+listed)": self.status[..self.n].to_vec(),
            "allowed_bits": format!("{:0w$b}", self.allowed, w = self.n),
            "node_count": self.k,
            "member(0=none,j+1=node j)": self.member[..self.n].to_vec(),
            "cgroup": format!("{:?}", self.cgroup),
            "text_variant": format!("{:?}", self.tv),
            // Machine-readable form, used by `--replay`.
            "raw": {
                "n": self.n, "status": self.status[..self.n].to_vec(), "allowed": self.allowed,
                "k": self.k, "member": self.member[..self.n].to_vec(),
                "cgroup": all_cgroups().iter().position(|c| *c == self.cgroup),
                "tv": [self.tv.bogo, self.tv.casing, self.tv.trailing, self.tv.model, self.tv.idmask,
                       self.tv.cpu_online, self.tv.empty_node, self.tv.newline, self.tv.listfmt, self.tv.status],
            },
        })
    }

    /// "Plain" machine: nothing for the code to filter, join or fall back on.
    pub fn is_trivial(&self) -> bool {
        let all_on = self.status[..self.n].iter().all(|s| *s == ON_LISTED);
        let all_allowed = self.allowed == (1u32 << self.n) - 1;
        let flat = self.k == 0 || (self.k == 1 && self.member[..self.n].iter().all(|m| *m == 1));
        all_on
            && all_allowed
            && flat
            && self.tv == TextVariant::default()
            && matches!(self.cgroup, Cgroup::NoFile | Cgroup::V2(150_000, 100_000))
    }
}

// ---------------------------------------------------------------------------------------------
// In-memory kernel text interface.
// ---------------------------------------------------------------------------------------------

pub const CGROUP_NAME: &str = "/docker/0a1b2c";

#[derive(Debug, Default, Clone)]
pub struct MemFs {
    pub cpuinfo: String,
    pub possible: Option<String>,
    pub online: Option<String>,
    pub node_possible: Option<String>,
    pub node_cpulist: Vec<Option<String>>,
    pub cpu_online: Vec<Option<String>>,
    pub status: String,
    pub cgroup: Option<String>,
    pub cgroup_name: String,
    pub v2_cpu_max: Option<String>,
    pub v1_quota: Option<String>,
    pub v1_period: Option<String>,
}

impl VerifFilesystem for MemFs {
    fn get_cpuinfo_contents(&self) -> String {
        self.cpuinfo.clone()
    }
    fn get_possible_cpus_contents(&self) -> Option<String> {
        self.possible.clone()
    }
    fn get_online_cpus_contents(&self) -> Option<String> {
        self.online.clone()
    }
    fn get_numa_node_possible_contents(&self) -> Option<String> {
        self.node_possible.clone()
    }
    fn get_numa_node_cpulist_contents(&self, node_index: u32) -> Option<String> {
        self.node_cpulist.get(node_index as usize).cloned().flatten()
    }
    fn get_cpu_online_contents(&self, cpu_index: u32) -> Option<String> {
        self.cpu_online.get(cpu_index as usize).cloned().flatten()
    }
    fn get_proc_self_status_contents(&self) -> String {
        self.status.clone()
    }
    fn get_proc_self_cgroup(&self) -> Option<String> {
        self.cgroup.clone()
    }
    fn get_v1_cgroup_cpu_quota(&self, cgroup_name: &str) -> Option<String> {
        if cgroup_name == self.cgroup_name { self.v1_quota.clone() } else { None }
    }
    fn get_v1_cgroup_cpu_period(&self, cgroup_name: &str) -> Option<String> {
        if cgroup_name == self.cgroup_name { self.v1_period.clone() } else { None }
    }
    fn get_v2_cgroup_cpu_quota_and_period(&self, cgroup_name: &str) -> Option<String> {
        if cgroup_name == self.cgroup_name { self.v2_cpu_max.clone() } else { None }
    }
}

impl MemFs {
    pub fn to_json(&self) -> Value {
        json!({
            "/proc/cpuinfo": self.cpuinfo,
            "/sys/devices/system/cpu/possible": self.possible,
            "/sys/devices/system/cpu/online": self.online,
            "/sys/devices/system/node/possible": self.node_possible,
            "/sys/devices/system/node/node{i}/cpulist": self.node_cpulist,
            "/sys/devices/system/cpu/cpu{i}/online": self.cpu_online,
            "/proc/self/status": self.status,
            "/proc/self/cgroup": self.cgroup,
            "cgroup_name_of_the_limit_files": self.cgroup_name,
            "cpu.max": self.v2_cpu_max,
            "cpu.cfs_quota_us": self.v1_quota,
            "cpu.cfs_period_us": self.v1_period,
        })
    }

    /// Hash of every byte the code under test can read.
    pub fn text_hash(&self) -> u64 {
        let mut h = Fnv::new();
        h.s(&self.cpuinfo);
        h.o(&self.possible);
        h.o(&self.online);
        h.o(&self.node_possible);
        for x in &self.node_cpulist {
            h.o(x);
        }
        h.b(0xfe);
        for x in &self.cpu_online {
            h.o(x);
        }
        h.b(0xfd);
        h.s(&self.status);
        h.o(&self.cgroup);
        h.s(&self.cgroup_name);
        h.o(&self.v2_cpu_max);
        h.o(&self.v1_quota);
        h.o(&self.v1_period);
        h.0
    }
}

struct Fnv(u64);
impl Fnv {
    fn new() -> Self {
        Fnv(0xcbf2_9ce4_8422_2325)
    }
    fn b(&mut self, b: u8) {
        self.0 ^= u64::from(b);
        self.0 = self.0.wrapping_mul(0x0000_0100_0000_01b3);
    }
    fn s(&mut self, s: &str) {
        for b in s.bytes() {
            self.b(b);
        }
        self.b(0xff);
    }
    fn o(&mut self, s: &Option<String>) {
        match s {
            None => self.b(0xfc),
            Some(s) => {
                self.b(0xfb);
                self.s(s);
            }
        }
    }
}

/// A list of ascending ids the way the kernel prints a bitmap ("%*pbl"): a-b for a run of two or
/// more, otherwise the id; or, for the `listfmt=1` variant, every id on its own.
fn id_list(ids: &[u32], singles: bool) -> String {
    let mut out = String::new();
    let mut i = 0;
    while i < ids.len() {
        let mut j = i;
        if !singles {
            while j + 1 < ids.len() && ids[j + 1] == ids[j] + 1 {
                j += 1;
            }
        }
        if !out.is_empty() {
            out.push(',');
        }
        if j > i {
            let _ = write!(out, "{}-{}", ids[i], ids[j]);
        } else {
            let _ = write!(out, "{}", ids[i]);
        }
        i = j + 1;
    }
    out
}

pub fn build_fs(d: &Desc) -> MemFs {
    let tv = &d.tv;
    let nl = if tv.newline == 0 { "\n" } else { "" };
    let singles = tv.listfmt == 1;
    let ids = |pred: &dyn Fn(usize) -> bool| -> Vec<u32> {
        (0..d.n).filter(|i| pred(*i)).map(|i| i as u32).collect()
    };

    // /proc/cpuinfo
    let listed = ids(&|i| d.status[i] != OFF_UNLISTED);
    let slow = if tv.bogo == 2 { listed.last().copied() } else { None };
    let mut cpuinfo = String::new();
    let (k_proc, k_bogo, sep) = match tv.casing {
        0 => ("processor", "bogomips", "\t: "),
        1 => ("Processor", "BogoMIPS", "\t: "),
        _ => ("PROCESSOR", "BOGOMIPS", "       : "),
    };
    for (pos, id) in listed.iter().enumerate() {
        let _ = writeln!(cpuinfo, "{k_proc}{sep}{id}");
        match tv.model {
            0 => {
                cpuinfo.push_str("vendor_id\t: GenuineIntel\n");
                cpuinfo.push_str("model name\t: Verif(R) CPU @ 2.40GHz\n");
            }
            1 => {
                cpuinfo.push_str("CPU implementer\t: 0x41\n");
                cpuinfo.push_str("CPU architecture: 8\n");
                cpuinfo.push_str("CPU part\t: 0xd0c\n");
            }
            _ => {}
        }
        cpuinfo.push_str("cpu MHz\t\t: 2394.454\n");
        cpuinfo.push_str("flags\t\t: fpu vme de pse\n");
        if tv.bogo != 1 {
            let b = if slow == Some(*id) { "2000.00" } else { "4788.90" };
            let _ = writeln!(cpuinfo, "{k_bogo}{sep}{b}");
        }
        // x86 kernels end every block with a key that has no value at all.
        cpuinfo.push_str("power management:\n");
        let last = pos + 1 == listed.len();
        match tv.trailing {
            2 => cpuinfo.push_str("\n\n"),
            3 if last => {
                // No blank line and no newline after the very last line.
                cpuinfo.pop();
            }
            _ => cpuinfo.push('\n'),
        }
    }
    match tv.trailing {
        1 => cpuinfo.push_str("Hardware\t: BCM2835\nRevision\t: a02082\nSerial\t\t: 00000000a1b2c3d4\nModel\t\t: Verif Board Rev 1.2\n"),
        2 => cpuinfo.push_str("\n\n\n"),
        _ => {}
    }

    // ID space masks.
    let possible_ids = ids(&|_| true);
    let online_ids = ids(&|i| d.status[i] == ON_LISTED);
    let possible = (tv.idmask == 0 || tv.idmask == 1)
        .then(|| format!("{}{nl}", id_list(&possible_ids, singles)));
    let online =
        (tv.idmask == 0 || tv.idmask == 2).then(|| format!("{}{nl}", id_list(&online_ids, singles)));

    // NUMA nodes.
    let (node_possible, node_cpulist) = if d.k == 0 {
        (None, Vec::new())
    } else {
        let nodes: Vec<u32> = (0..d.k as u32).collect();
        let lists = (0..d.k)
            .map(|j| {
                let members = ids(&|i| d.member[i] as usize == j + 1);
                if members.is_empty() && tv.empty_node == 1 {
                    None
                } else {
                    Some(format!("{}{nl}", id_list(&members, singles)))
                }
            })
            .collect();
        (Some(format!("{}{nl}", id_list(&nodes, singles))), lists)
    };

    // cpuN/online
    let cpu_online = (0..d.n)
        .map(|i| match d.status[i] {
            ON_LISTED => match tv.cpu_online {
                0 => (i != 0).then(|| format!("1{nl}")),
                1 => None,
                _ => Some(format!("1{nl}")),
            },
            _ => Some(format!("0{nl}")),
        })
        .collect();

    // /proc/self/status
    let allowed_ids = ids(&|i| d.allowed & (1 << i) != 0);
    let allowed_list = id_list(&allowed_ids, singles);
    let status = if tv.status == 0 {
        format!(
            "Name:\tverif\nUmask:\t0022\nState:\tR (running)\nTgid:\t4242\nPid:\t4242\nUid:\t0\t0\t0\t0\nGroups:\t \nVmPeak:\t    5808 kB\nThreads:\t1\nSigQ:\t0/63432\nSeccomp:\t0\nSpeculation_Store_Bypass:\tthread vulnerable\nCpus_allowed:\t{:x}\nCpus_allowed_list:\t{}\nMems_allowed:\t00000001\nMems_allowed_list:\t0\nvoluntary_ctxt_switches:\t3\nnonvoluntary_ctxt_switches:\t0\n",
            d.allowed, allowed_list
        )
    } else {
        format!("Cpus_allowed_list: {allowed_list}")
    };

    // cgroups
    let name = CGROUP_NAME.to_string();
    let hybrid = format!("12:cpu,cpuacct:{name}\n11:memory:{name}\n0::{name}\n");
    let v2only = format!("0::{name}\n");
    let v1only = format!("12:cpu,cpuacct:{name}\n11:memory:{name}\n1:name=systemd:{name}\n");
    let mut fs = MemFs {
        cpuinfo,
        possible,
        online,
        node_possible,
        node_cpulist,
        cpu_online,
        status,
        cgroup: None,
        cgroup_name: name,
        v2_cpu_max: None,
        v1_quota: None,
        v1_period: None,
    };
    match d.cgroup {
        Cgroup::NoFile => {}
        Cgroup::V1OnlyNoUnifiedLine(q, p) => {
            fs.cgroup = Some(v1only);
            fs.v1_quota = Some(format!("{q}\n"));
            fs.v1_period = Some(format!("{p}\n"));
        }
        Cgroup::V2Max => {
            fs.cgroup = Some(v2only);
            fs.v2_cpu_max = Some("max 100000\n".into());
        }
        Cgroup::V2(q, p) => {
            fs.cgroup = Some(v2only);
            fs.v2_cpu_max = Some(format!("{q} {p}\n"));
        }
        Cgroup::V1(q, p) => {
            fs.cgroup = Some(hybrid);
            fs.v1_quota = Some(format!("{q}\n"));
            fs.v1_period = Some(format!("{p}\n"));
        }
        Cgroup::V1Unlimited => {
            fs.cgroup = Some(hybrid);
            fs.v1_quota = Some("-1\n".into());
            fs.v1_period = Some("100000\n".into());
        }
        Cgroup::V2Malformed(i) => {
            fs.cgroup = Some(v2only);
            fs.v2_cpu_max = Some(V2_MALFORMED[i as usize].into());
        }
        Cgroup::V1Malformed(i) => {
            fs.cgroup = Some(hybrid);
            fs.v1_quota = Some(V1_MALFORMED[i as usize].0.into());
            fs.v1_period = Some(V1_MALFORMED[i as usize].1.into());
        }
        Cgroup::V2RootNoFile => {
            fs.cgroup = Some("0::/\n".into());
            fs.cgroup_name = "/".into();
        }
    }
    fs
}

// ---------------------------------------------------------------------------------------------
// Independent interpretation of the ground truth.
// ---------------------------------------------------------------------------------------------

#[derive(Debug, Clone, PartialEq)]
pub enum QuotaExpect {
    Exactly(f64),
    /// Unsupported-by-documentation layout: anything in (0, count] is accepted.
    AnyUpTo(f64),
}

#[derive(Debug, Clone)]
pub struct Expect {
    /// (id, region), ascending by id.
    pub processors: Vec<(u32, u32)>,
    /// `Some` when the kernel publishes cpu/possible (then the maximum is defined by it).
    pub max_processor_id_exact: Option<u32>,
    pub max_region_exact: u32,
    pub quota: QuotaExpect,
}

pub fn oracle(d: &Desc) -> Expect {
    let mut processors = Vec::new();
    for i in 0..d.n {
        let listed = d.status[i] == ON_LISTED || d.status[i] == OFF_LISTED;
        let online = d.status[i] == ON_LISTED;
        let allowed = (d.allowed >> i) & 1 == 1;
        if listed && online && allowed {
            let region = if d.k > 0 && d.member[i] > 0 { u32::from(d.member[i]) - 1 } else { 0 };
            processors.push((i as u32, region));
        }
    }
    let count = processors.len() as f64;
    let limit = |q: u64, p: u64| (q as f64) / (p as f64);
    let quota = match d.cgroup {
        Cgroup::V2(q, p) | Cgroup::V1(q, p) => {
            let l = limit(q, p);
            QuotaExpect::Exactly(if l < count { l } else { count })
        }
        Cgroup::V1OnlyNoUnifiedLine(..) => QuotaExpect::AnyUpTo(count),
        _ => QuotaExpect::Exactly(count),
    };
    Expect {
        processors,
        max_processor_id_exact: (d.tv.idmask == 0 || d.tv.idmask == 1).then(|| d.n as u32 - 1),
        max_region_exact: if d.k > 0 { d.k as u32 - 1 } else { 0 },
        quota,
    }
}

// ---------------------------------------------------------------------------------------------
// Running the real code and judging.
// ---------------------------------------------------------------------------------------------

pub fn run_platform(fs: &Arc<MemFs>) -> Result<VerifInventory, String> {
    let fs: Arc<dyn VerifFilesystem> = fs.clone();
    catch_unwind(AssertUnwindSafe(|| VerifPlatform::new(fs).inventory()))
        .map_err(|p| vcommon::panic_message(&*p))
}

/// What the public `SystemHardware` handle says.
#[derive(Debug)]
pub struct HwView {
    pub processors: Vec<(u32, u32)>,
    pub max_processor_id: u32,
    pub max_memory_region_id: u32,
    pub max_processor_time: f64,
}

pub fn run_system_hardware(fs: &Arc<MemFs>) -> Result<HwView, String> {
    let fs: Arc<dyn VerifFilesystem> = fs.clone();
    catch_unwind(AssertUnwindSafe(|| {
        let hw = SystemHardware::verif_from_linux(VerifPlatform::new(fs));
        let mut processors: Vec<(u32, u32)> = hw
            .all_processors()
            .processors()
            .iter()
            .map(|p| (p.id(), p.memory_region_id()))
            .collect();
        // `ProcessorSet` promises no order.
        processors.sort_unstable();
        HwView {
            processors,
            max_processor_id: hw.max_processor_id(),
            max_memory_region_id: hw.max_memory_region_id(),
            max_processor_time: hw.resource_quota().max_processor_time(),
        }
    }))
    .map_err(|p| vcommon::panic_message(&*p))
}

fn short(msg: &str) -> String {
    let m: String = msg.chars().take(70).collect();
    m.replace(|c: char| !c.is_ascii_alphanumeric(), "-")
}

/// Returns (violation key, summary) pairs; empty = the property held on this case.
pub fn judge(
    d: &Desc,
    e: &Expect,
    processors: &[(u32, u32)],
    sorted_promised: bool,
    max_id: u32,
    max_region: u32,
    quota: f64,
    layer: &str,
) -> Vec<(String, String)> {
    let mut v = Vec::new();
    let got_ids: Vec<u32> = processors.iter().map(|p| p.0).collect();
    let exp_ids: Vec<u32> = e.processors.iter().map(|p| p.0).collect();
    let mut got_sorted = got_ids.clone();
    got_sorted.sort_unstable();
    if got_sorted != exp_ids {
        let mut kinds = Vec::new();
        for id in &got_sorted {
            if !exp_ids.contains(id) {
                let i = *id as usize;
                if i >= d.n {
                    kinds.push("reports-impossible-id");
                } else if d.status[i] == OFF_UNLISTED {
                    kinds.push("reports-unlisted");
                } else if d.status[i] == OFF_LISTED {
                    kinds.push("reports-offline");
                } else {
                    kinds.push("reports-disallowed");
                }
            }
        }
        if exp_ids.iter().any(|id| !got_sorted.contains(id)) {
            kinds.push("omits-usable");
        }
        kinds.sort_unstable();
        kinds.dedup();
        v.push((
            format!("{layer}-processor-set:{}", kinds.join("+")),
            format!("{layer}: reported ids {got_ids:?}, expected listed&online&allowed = {exp_ids:?}"),
        ));
    } else {
        if sorted_promised && got_ids != exp_ids {
            v.push((
                format!("{layer}-processors-not-ascending"),
                format!("{layer}: reported ids {got_ids:?} are not ascending"),
            ));
        }
        let mut sorted = processors.to_vec();
        sorted.sort_unstable();
        for (got, exp) in sorted.iter().zip(&e.processors) {
            if got.1 != exp.1 {
                let why = if d.k == 0 {
                    "no-node-directory"
                } else if d.member[got.0 as usize] == 0 {
                    "claimed-by-no-node"
                } else {
                    "claimed-by-one-node"
                };
                v.push((
                    format!("{layer}-memory-region:{why}"),
                    format!(
                        "{layer}: processor {} reported in region {}, the description puts it in {}",
                        got.0, got.1, exp.1
                    ),
                ));
                break;
            }
        }
    }
    if let Some(m) = processors.iter().map(|p| p.0).max()
        && m > max_id
    {
        v.push((
            format!("{layer}-processor-id-above-max"),
            format!("{layer}: processor {m} reported, max_processor_id = {max_id}"),
        ));
    }
    if let Some(x) = e.max_processor_id_exact
        && x != max_id
    {
        v.push((
            format!("{layer}-max-processor-id-differs-from-possible-mask"),
            format!("{layer}: max_processor_id = {max_id}, cpu/possible ends at {x}"),
        ));
    }
    if let Some(m) = processors.iter().map(|p| p.1).max()
        && m > max_region
    {
        v.push((
            format!("{layer}-region-id-above-max"),
            format!("{layer}: region {m} reported, max_memory_region_id = {max_region}"),
        ));
    }
    if e.max_region_exact != max_region {
        v.push((
            format!("{layer}-max-region-id-differs-from-node-possible-mask"),
            format!(
                "{layer}: max_memory_region_id = {max_region}, node/possible (or its absence) says {}",
                e.max_region_exact
            ),
        ));
    }
    let cg = match d.cgroup {
        Cgroup::NoFile => "no-cgroup-file",
        Cgroup::V1OnlyNoUnifiedLine(..) => "v1-only",
        Cgroup::V2Max => "v2-max",
        Cgroup::V2(..) => "v2-quota",
        Cgroup::V1(..) => "v1-quota",
        Cgroup::V1Unlimited => "v1-unlimited",
        Cgroup::V2Malformed(_) => "v2-malformed",
        Cgroup::V1Malformed(_) => "v1-malformed",
        Cgroup::V2RootNoFile => "v2-root",
    };
    match e.quota {
        QuotaExpect::Exactly(x) => {
            if !((quota - x).abs() <= 1e-9) {
                v.push((
                    format!("{layer}-quota:{cg}"),
                    format!(
                        "{layer}: max_processor_time = {quota}, expected min(count = {}, cgroup limit) = {x}",
                        e.processors.len()
                    ),
                ));
            }
        }
        QuotaExpect::AnyUpTo(x) => {
            if !(quota > 0.0 && quota <= x + 1e-9) {
                v.push((
                    format!("{layer}-quota-out-of-range:{cg}"),
                    format!("{layer}: max_processor_time = {quota}, must be in (0, {x}]"),
                ));
            }
        }
    }
    v
}

pub fn panic_violation(layer: &str, msg: &str) -> (String, String) {
    (format!("{layer}-panic:{}", short(msg)), format!("{layer} panicked: {msg}"))
}

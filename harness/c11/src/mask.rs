//! `CpuMask` (through the cfg-only `VerifCpuMask` forwarding wrapper) against `BTreeSet`: every
//! history of inserts / membership queries / iterations up to a depth, at several initial widths,
//! plus width-independence of equality.

use std::collections::BTreeSet;
use std::num::NonZero;
use std::panic::{AssertUnwindSafe, catch_unwind};

use many_cpus_impl::pal::linux_verif::VerifCpuMask;
use vcommon::serde_json::json;

use crate::Acc;

pub const IDS: [u32; 6] = [0, 63, 64, 65, 1023, 1024];
pub const WIDTHS: [usize; 4] = [1, 2, 16, 17];
/// 0..6 insert(IDS[i]), 6..12 contains(IDS[i-6]), 12 iterate.
pub const OPS: usize = 13;

pub fn op_name(op: usize) -> String {
    match op {
        0..6 => format!("insert({})", IDS[op]),
        6..12 => format!("contains({})", IDS[op - 6]),
        _ => "iterate".to_string(),
    }
}

/// All histories of length 1..=depth that start with `first`, at initial width `width`.
pub fn histories(acc: &mut Acc, width: usize, first: usize, depth: usize) {
    let mut ops = vec![first];
    dfs(acc, width, &mut ops, depth);
}

fn dfs(acc: &mut Acc, width: usize, ops: &mut Vec<usize>, depth: usize) {
    run_history(acc, width, ops);
    if ops.len() < depth {
        for op in 0..OPS {
            ops.push(op);
            dfs(acc, width, ops, depth);
            ops.pop();
        }
    }
}

pub fn run_history(acc: &mut Acc, width: usize, ops: &[usize]) {
    acc.evaluations += 1;
    let replay = json!({
        "part": "cpumask", "initial_width_words": width,
        "history": ops.iter().map(|o| op_name(*o)).collect::<Vec<_>>(),
    });
    let has_insert = ops.iter().any(|o| *o < 6);
    let has_observe = ops.iter().any(|o| *o >= 6);
    if has_insert && has_observe {
        let mut key = vec![width as u8];
        key.extend(ops.iter().map(|o| *o as u8));
        acc.distinct.insert(vcommon::fnv1a(&key));
    }
    let result = catch_unwind(AssertUnwindSafe(|| -> Result<(BTreeSet<u32>, bool), (String, String)> {
        // Replay from a fresh mask; the final step's observation is the new one (earlier steps were
        // judged when the prefix was the history), but all of them are re-checked anyway.
        let mut real = VerifCpuMask::with_words(NonZero::new(width).expect("width"));
        let mut model: BTreeSet<u32> = BTreeSet::new();
        let mut grew = false;
        for (step, op) in ops.iter().enumerate() {
            match *op {
                0..6 => {
                    real.insert(IDS[*op]);
                    model.insert(IDS[*op]);
                }
                6..12 => {
                    let id = IDS[*op - 6];
                    let got = real.contains(id);
                    if got != model.contains(&id) {
                        return Err((
                            "cpumask-contains-differs-from-set".into(),
                            format!("step {step}: contains({id}) = {got}, set = {model:?}"),
                        ));
                    }
                }
                _ => {
                    let got = real.processor_ids();
                    let exp: Vec<u32> = model.iter().copied().collect();
                    if got != exp {
                        return Err((
                            "cpumask-iteration-differs-from-set".into(),
                            format!("step {step}: processor_ids() = {got:?}, set = {exp:?}"),
                        ));
                    }
                }
            }
            // After every step the whole observable state must equal the model.
            let exp: Vec<u32> = model.iter().copied().collect();
            if real.processor_ids() != exp {
                return Err((
                    "cpumask-iteration-differs-from-set".into(),
                    format!("after step {step}: processor_ids() = {:?}, set = {exp:?}", real.processor_ids()),
                ));
            }
            for id in IDS {
                if real.contains(id) != model.contains(&id) {
                    return Err((
                        "cpumask-contains-differs-from-set".into(),
                        format!("after step {step}: contains({id}) = {}, set = {model:?}", real.contains(id)),
                    ));
                }
            }
            if real.words().get() > width {
                grew = true;
            }
        }
        // Width independence: the same set built at every other width compares equal both ways,
        // and a set that differs by one element compares unequal both ways.
        for other_width in WIDTHS {
            let mut other = VerifCpuMask::with_words(NonZero::new(other_width).expect("width"));
            for id in model.iter().rev() {
                other.insert(*id);
            }
            if !(real == other && other == real) {
                return Err((
                    "cpumask-equality-depends-on-width".into(),
                    format!("set {model:?}: mask started at {width} words != mask started at {other_width} words"),
                ));
            }
            if let Some(extra) = IDS.iter().find(|id| !model.contains(id)) {
                other.insert(*extra);
                if real == other || other == real {
                    return Err((
                        "cpumask-equal-though-sets-differ".into(),
                        format!("set {model:?} (started at {width} words) == same set plus {extra} (started at {other_width} words)"),
                    ));
                }
            }
        }
        Ok((model, grew))
    }));
    match result {
        Err(p) => acc.violation(
            "cpumask-panic",
            &format!("history panicked: {}", vcommon::panic_message(&*p)),
            replay,
        ),
        Ok(Err((key, summary))) => acc.violation(&key, &summary, replay),
        Ok(Ok((model, grew))) => {
            acc.outcome(&format!("cpumask:final-set-size-{}", model.len()));
            if grew {
                acc.outcome("cpumask:mask-widened");
            } else {
                acc.outcome("cpumask:mask-kept-width");
            }
            if ops.len() == 3 && ops[0] == 4 && ops[1] == 7 && acc.samples.len() < 40 {
                acc.sample(replay);
            }
        }
    }
}

//! cpulist codec: every subset of an 11-element id set through emit -> parse, and every short
//! string over a 6-letter alphabet through parse vs. an independent grammar.

use std::collections::BTreeSet;
use std::panic::{AssertUnwindSafe, catch_unwind};

use vcommon::serde_json::json;

use crate::Acc;

pub const IDS: [u32; 11] =
    [0, 1, 2, 3, 5, 6, 7, u32::MAX - 3, u32::MAX - 2, u32::MAX - 1, u32::MAX];

pub const ALPHABET: [u8; 6] = [b'0', b'1', b'9', b',', b'-', b':'];

/// Independent reading of the cpulist grammar, written as a character-level recursive descent
/// (the code under test splits on separators instead):
///
/// ```text
/// list  := item ( ',' item )*
/// item  := <empty> | num | num '-' num | num '-' num ':' num      (start <= end, stride >= 1)
/// num   := digit+                                                 (value <= u32::MAX)
/// ```
///
/// Empty items are accepted because the kernel's own parser skips superfluous commas and the
/// package documents the empty string as valid.
pub fn grammar(s: &str) -> Option<BTreeSet<u32>> {
    let b = s.as_bytes();
    let mut pos = 0usize;
    let mut out = BTreeSet::new();

    fn num(b: &[u8], pos: &mut usize) -> Option<u64> {
        let start = *pos;
        let mut v: u64 = 0;
        while *pos < b.len() && b[*pos].is_ascii_digit() {
            v = v * 10 + u64::from(b[*pos] - b'0');
            if v > u64::from(u32::MAX) {
                return None;
            }
            *pos += 1;
        }
        (*pos > start).then_some(v)
    }

    loop {
        // item
        if pos < b.len() && b[pos] != b',' {
            let start = num(b, &mut pos)?;
            let mut end = start;
            let mut stride = 1u64;
            if pos < b.len() && b[pos] == b'-' {
                pos += 1;
                end = num(b, &mut pos)?;
                if pos < b.len() && b[pos] == b':' {
                    pos += 1;
                    stride = num(b, &mut pos)?;
                }
                if stride == 0 || start > end {
                    return None;
                }
            }
            let mut x = start;
            while x <= end {
                out.insert(x as u32);
                x += stride;
            }
        }
        if pos == b.len() {
            return Some(out);
        }
        if b[pos] != b',' {
            return None;
        }
        pos += 1;
    }
}

fn has_top_run_of_three(set: &[u32]) -> bool {
    set.contains(&u32::MAX) && set.contains(&(u32::MAX - 1)) && set.contains(&(u32::MAX - 2))
}

/// Every subset of `IDS`, in three input orders (ascending, descending, ascending with the first
/// element repeated at the end).
pub fn subsets(acc: &mut Acc) {
    for bits in 0u32..(1 << IDS.len()) {
        let set: Vec<u32> =
            (0..IDS.len()).filter(|i| bits & (1 << i) != 0).map(|i| IDS[i]).collect();
        for order in 0..3 {
            let mut input = set.clone();
            match order {
                1 => input.reverse(),
                2 => {
                    if let Some(f) = input.first().copied() {
                        input.push(f);
                    }
                }
                _ => {}
            }
            one_emit(acc, &input, order == 0 && bits % 397 == 5);
        }
    }
}

/// One emit -> parse round trip for an arbitrary input sequence.
pub fn one_emit(acc: &mut Acc, input: &[u32], sample: bool) {
    let input = input.to_vec();
    let mut set = input.clone();
    set.sort_unstable();
    set.dedup();
    {
        {
            acc.evaluations += 1;
            acc.distinct.insert(vcommon::hash_str(&format!("emit{input:?}")));
            let emitted = catch_unwind(AssertUnwindSafe(|| cpulist::emit(input.iter().copied())));
            let replay = json!({"part": "codec-subsets", "emit_input": input});
            match emitted {
                Err(p) => {
                    let msg = vcommon::panic_message(&*p);
                    if has_top_run_of_three(&set) {
                        acc.outcome("codec:emit-panic-top-run");
                        acc.violation(
                            "emit-overflow-run-ending-at-u32max",
                            &format!("cpulist::emit({input:?}) panicked: {msg}"),
                            replay,
                        );
                    } else {
                        acc.outcome("codec:emit-panic-other");
                        acc.violation(
                            "emit-panic-without-run-ending-at-u32max",
                            &format!("cpulist::emit({input:?}) panicked: {msg}"),
                            replay,
                        );
                    }
                }
                Ok(text) => {
                    if sample && acc.samples.len() < 40 {
                        acc.sample(json!({"part": "codec-subsets", "set": set, "emitted": text}));
                    }
                    if text.contains('-') {
                        acc.outcome("codec:emitted-with-range");
                    } else {
                        acc.outcome("codec:emitted-singles-only");
                    }
                    let parsed = catch_unwind(AssertUnwindSafe(|| cpulist::parse(&text)));
                    match parsed {
                        Err(p) => acc.violation(
                            "parse-panic-on-emitted-string",
                            &format!("parse({text:?}) panicked: {}", vcommon::panic_message(&*p)),
                            replay,
                        ),
                        Ok(Err(e)) => acc.violation(
                            "emitted-string-rejected-by-parse",
                            &format!("emit({input:?}) = {text:?} which parse rejects: {e}"),
                            replay,
                        ),
                        Ok(Ok(v)) => {
                            if v != set {
                                acc.violation(
                                    "roundtrip-differs",
                                    &format!("parse(emit({input:?}) = {text:?}) = {v:?}, expected {set:?}"),
                                    replay,
                                );
                            } else if grammar(&text).map(|g| g.into_iter().collect::<Vec<_>>())
                                != Some(set.clone())
                            {
                                acc.violation(
                                    "emitted-string-not-a-cpulist-of-the-set",
                                    &format!("emit({input:?}) = {text:?} does not denote the set under the documented grammar"),
                                    replay,
                                );
                            }
                        }
                    }
                }
            }
        }
    }
}

/// Every string over `ALPHABET` of exactly `len` characters whose first character is `first`
/// (`None` for the empty string).
pub fn strings(acc: &mut Acc, len: usize, first: Option<u8>) {
    if len == 0 {
        one_string(acc, "");
        return;
    }
    let first = first.expect("first letter");
    let rest = len - 1;
    let total = ALPHABET.len().pow(rest as u32);
    let mut buf = vec![0u8; len];
    buf[0] = first;
    for mut code in 0..total {
        for slot in buf[1..].iter_mut() {
            *slot = ALPHABET[code % ALPHABET.len()];
            code /= ALPHABET.len();
        }
        let s = std::str::from_utf8(&buf).expect("ascii");
        one_string(acc, s);
    }
}

pub fn one_string(acc: &mut Acc, s: &str) {
    acc.evaluations += 1;
    let expected = grammar(s);
    if expected.is_some() {
        // Strings of the language are the non-trivial ones; all strings are distinct by construction.
        acc.distinct.insert(vcommon::hash_str(&format!("parse{s}")));
    }
    let replay = json!({"part": "codec-strings", "parse_input": s});
    match catch_unwind(AssertUnwindSafe(|| cpulist::parse(s))) {
        Err(p) => acc.violation(
            "parse-panic-on-short-string",
            &format!("parse({s:?}) panicked: {}", vcommon::panic_message(&*p)),
            replay,
        ),
        Ok(Err(_)) => {
            if expected.is_some() {
                // The property allows rejection; recorded so that a parser rejecting the language
                // is visible in the evidence.
                acc.outcome("codec:rejected-though-grammar-accepts");
            } else {
                acc.outcome("codec:rejected-by-both");
            }
        }
        Ok(Ok(v)) => match expected {
            None => {
                let why = if s.contains('-') && !s.contains(':') {
                    "range"
                } else if s.contains(':') {
                    "stride"
                } else {
                    "single"
                };
                acc.outcome("codec:accepted-though-grammar-rejects");
                acc.violation(
                    &format!("parse-accepts-non-cpulist:{why}"),
                    &format!("parse({s:?}) = {v:?} but the string is not a cpulist"),
                    replay,
                );
            }
            Some(g) => {
                let g: Vec<u32> = g.into_iter().collect();
                if g.is_empty() {
                    acc.outcome("codec:accepted-empty-set");
                } else if s.contains(':') {
                    acc.outcome("codec:accepted-with-stride");
                } else if s.contains('-') {
                    acc.outcome("codec:accepted-with-range");
                } else {
                    acc.outcome("codec:accepted-singles");
                }
                if (s.contains(':') || s.len() == 3) && acc.samples.len() < 40 && acc.evaluations % 7 == 0 {
                    acc.sample(json!({"part": "codec-strings", "parse_input": s, "parsed": v}));
                }
                if v != g {
                    acc.violation(
                        "parse-value-differs-from-grammar",
                        &format!("parse({s:?}) = {v:?}, the grammar says {g:?}"),
                        replay,
                    );
                }
            }
        },
    }
}

//! Bounded exhaustive exploration of operation histories on real (non-clonable) objects.
//!
//! A state is the history that reaches it. `run(history)` must rebuild a fresh real object,
//! replay the history while checking the oracle after every step, and report (a) the operations
//! enabled afterwards, (b) optionally a canonical hash of the reached state — only where merging
//! is sound, i.e. states with equal canon have the same futures — and (c) a violation, if any.

use std::collections::HashSet;

pub struct Visit<Op> {
    /// Operations enabled after the history (simplest first).
    pub enabled: Vec<Op>,
    /// Canonical state hash for pruning; `None` = never merge.
    pub canon: Option<u64>,
    /// Stop extending this history (e.g. a violation was found or a terminal op was executed).
    pub stop: bool,
}

#[derive(Default, Debug, Clone)]
pub struct Stats {
    /// Histories executed (each replayed from scratch on a fresh object).
    pub histories: u64,
    /// Operations executed while replaying (transitions of the real implementation).
    pub steps: u64,
    /// Distinct canonical states (or histories, where no canon is given).
    pub states: u64,
    /// Edges of the explored graph: (state, op) pairs expanded.
    pub edges: u64,
    pub max_depth: usize,
    pub pruned: u64,
}

/// Depth-first enumeration of every history of length <= `max_depth` (breadth-first in effect for
/// pruning soundness: we use iterative deepening so a state is first seen at its minimal depth,
/// which makes pruning on `canon` lose no history suffix within the bound).
pub fn explore<Op: Clone>(
    max_depth: usize,
    mut run: impl FnMut(&[Op]) -> Visit<Op>,
) -> Stats {
    let mut stats = Stats::default();
    let mut seen: HashSet<u64> = HashSet::new();
    // Frontier of histories at the current depth whose states are new.
    let mut frontier: Vec<Vec<Op>> = vec![Vec::new()];
    for depth in 0..=max_depth {
        let mut next_frontier: Vec<Vec<Op>> = Vec::new();
        for hist in &frontier {
            stats.histories += 1;
            stats.steps += hist.len() as u64;
            let v = run(hist);
            match v.canon {
                Some(c) => {
                    if !seen.insert(c) {
                        stats.pruned += 1;
                        continue;
                    }
                    stats.states += 1;
                }
                None => stats.states += 1,
            }
            stats.max_depth = stats.max_depth.max(hist.len());
            if v.stop || depth == max_depth {
                continue;
            }
            for op in v.enabled {
                stats.edges += 1;
                let mut h = hist.clone();
                h.push(op);
                next_frontier.push(h);
            }
        }
        frontier = next_frontier;
        if frontier.is_empty() {
            break;
        }
    }
    stats
}

/// All k-subsets / sequences helpers used by input sweeps.
pub fn for_each_sequence<T: Clone>(alphabet: &[T], len: usize, mut f: impl FnMut(&[T])) {
    let mut idx = vec![0_usize; len];
    let mut cur: Vec<T> = Vec::with_capacity(len);
    if alphabet.is_empty() && len > 0 {
        return;
    }
    loop {
        cur.clear();
        for &i in &idx {
            cur.push(alphabet[i].clone());
        }
        f(&cur);
        // increment
        let mut p = len;
        loop {
            if p == 0 {
                return;
            }
            p -= 1;
            idx[p] += 1;
            if idx[p] < alphabet.len() {
                break;
            }
            idx[p] = 0;
        }
    }
}

//! Shared plumbing for every /verif harness binary: tier/seed handling, violation reporting with
//! the known-findings filter, evidence writing, and a subprocess fan-out helper.
//!
//! Exit-code contract (see DESIGN.md §2.7): 0 = property held on everything explored (known
//! findings are printed as `KNOWN-FINDING:` lines), 1 = at least one violation that is not a listed
//! known finding (`VIOLATION property=<id> replay=<path>`), 2 = engine failure (never a verdict).

use std::collections::{BTreeMap, BTreeSet};
use std::io::{Read, Write};
use std::path::{Path, PathBuf};
use std::process::{Command, Stdio};
use std::sync::Mutex;
use std::sync::atomic::{AtomicUsize, Ordering};
use std::time::{Duration, Instant};

pub use serde_json;
use serde_json::{Map, Value, json};

pub mod explore;

/// Root of the verification tree (directory holding `check`, `known_findings.json`, `evidence/`).
pub fn verif_root() -> PathBuf {
    if let Ok(v) = std::env::var("VERIF_ROOT") {
        return PathBuf::from(v);
    }
    PathBuf::from("/verif")
}

/// Root of the repository the harness was built against.
pub fn repo_root() -> PathBuf {
    if let Ok(v) = std::env::var("VERIF_REPO") {
        return PathBuf::from(v);
    }
    PathBuf::from("/repo")
}

pub fn is_thorough() -> bool {
    std::env::var("VERIF_TIER").map(|t| t == "thorough").unwrap_or(false)
}

pub fn seed() -> i64 {
    std::env::var("VERIF_SEED").ok().and_then(|s| s.parse().ok()).unwrap_or(0)
}

#[derive(Clone, Debug)]
pub struct Violation {
    /// Witness-class key, matched exactly against `known_findings.json`.
    pub key: String,
    pub summary: String,
    pub replay: Value,
}

/// One check run: counters, samples, violations; `finish` writes evidence and exits.
pub struct Check {
    pub id: String,
    pub level: &'static str,
    start: Instant,
    pub evaluations: u64,
    pub states: u64,
    pub transitions: u64,
    pub traces_validated: u64,
    distinct: BTreeSet<u64>,
    distinct_extra: u64,
    pub rule: String,
    pub samples: Vec<Value>,
    pub max_samples: usize,
    pub assumptions: Vec<String>,
    pub extra: Map<String, Value>,
    pub exhaustive: bool,
    pub caps_hit: Vec<String>,
    violations: Vec<Violation>,
    outcomes: BTreeMap<String, u64>,
}

impl Check {
    pub fn new(id: &str, level: &'static str) -> Self {
        Self {
            id: id.to_string(),
            level,
            start: Instant::now(),
            evaluations: 0,
            states: 0,
            transitions: 0,
            traces_validated: 0,
            distinct: BTreeSet::new(),
            distinct_extra: 0,
            rule: String::new(),
            samples: Vec::new(),
            max_samples: 6,
            assumptions: Vec::new(),
            extra: Map::new(),
            exhaustive: true,
            caps_hit: Vec::new(),
            violations: Vec::new(),
            outcomes: BTreeMap::new(),
        }
    }

    pub fn tier(&self) -> &'static str {
        if is_thorough() { "thorough" } else { "quick" }
    }

    /// Record a distinct non-trivial case by hash.
    pub fn distinct_hash(&mut self, h: u64) {
        self.distinct.insert(h);
    }

    /// Add an already-deduplicated count of distinct non-trivial cases (e.g. from a child process).
    pub fn distinct_add(&mut self, n: u64) {
        self.distinct_extra += n;
    }

    pub fn distinct_count(&self) -> u64 {
        self.distinct.len() as u64 + self.distinct_extra
    }

    /// Record an observed outcome class (anti-vacuity: one outcome from many executions means
    /// nothing collided).
    pub fn outcome(&mut self, class: &str) {
        *self.outcomes.entry(class.to_string()).or_insert(0) += 1;
    }

    pub fn outcome_n(&mut self, class: &str, n: u64) {
        *self.outcomes.entry(class.to_string()).or_insert(0) += n;
    }

    pub fn outcomes(&self) -> &BTreeMap<String, u64> {
        &self.outcomes
    }

    pub fn sample(&mut self, v: Value) {
        if self.samples.len() < self.max_samples {
            self.samples.push(v);
        }
    }

    pub fn cap_hit(&mut self, what: &str) {
        self.exhaustive = false;
        self.caps_hit.push(what.to_string());
    }

    pub fn violation(&mut self, key: &str, summary: &str, replay: Value) {
        // Keep the first witness per key plus a count; the first is the shortest because
        // alphabets are ordered simplest-first.
        self.violations.push(Violation {
            key: key.to_string(),
            summary: summary.to_string(),
            replay,
        });
    }

    pub fn violation_count(&self) -> usize {
        self.violations.len()
    }

    pub fn elapsed(&self) -> Duration {
        self.start.elapsed()
    }

    /// Engine failure: not a verdict. Exits 2.
    pub fn engine_failure(&self, msg: &str) -> ! {
        eprintln!("ENGINE-FAILURE property={} {}", self.id, msg);
        println!("ENGINE-FAILURE property={} {}", self.id, msg);
        std::process::exit(2);
    }

    /// Apply the known-findings filter, write evidence, print verdict lines, exit.
    pub fn finish(mut self) -> ! {
        let root = verif_root();
        let known = load_known_findings(&root, &self.id);

        // Group violations by key.
        let mut by_key: BTreeMap<String, Vec<Violation>> = BTreeMap::new();
        for v in std::mem::take(&mut self.violations) {
            by_key.entry(v.key.clone()).or_default().push(v);
        }

        let mut unlisted = 0_usize;
        let mut known_seen = Vec::new();
        let mut violation_lines = Vec::new();
        let replay_dir = root.join("replays");
        let _ = std::fs::create_dir_all(&replay_dir);
        for (key, vs) in &by_key {
            let first = &vs[0];
            if let Some(k) = known.iter().find(|k| k.key == *key && k.status == "known") {
                println!(
                    "KNOWN-FINDING: property={} key={} witnesses={} {} | first witness: {}",
                    self.id,
                    key,
                    vs.len(),
                    k.what,
                    first.summary
                );
                known_seen.push(json!({"key": key, "witnesses": vs.len(), "first": first.summary, "replay": first.replay}));
            } else {
                unlisted += 1;
                let fname = format!("{}-{}-{}.json", self.id, sanitize(key), self.tier());
                let path = replay_dir.join(fname);
                let body = json!({
                    "property": self.id,
                    "key": key,
                    "summary": first.summary,
                    "witnesses": vs.len(),
                    "replay": first.replay,
                });
                let _ = std::fs::write(&path, serde_json::to_string_pretty(&body).unwrap());
                violation_lines.push(format!(
                    "VIOLATION property={} replay={} key={} witnesses={} :: {}",
                    self.id,
                    path.display(),
                    key,
                    vs.len(),
                    first.summary
                ));
            }
        }

        // Anti-vacuity self-check.
        let wall = self.start.elapsed().as_secs_f64();
        let mut coverage = Map::new();
        coverage.insert("evaluations".into(), json!(self.evaluations));
        coverage.insert("distinct_nontrivial".into(), json!(self.distinct_count()));
        coverage.insert("rule".into(), json!(self.rule));
        coverage.insert("samples".into(), Value::Array(self.samples.clone()));
        coverage.insert("exhaustive".into(), json!(self.exhaustive && self.caps_hit.is_empty()));
        if self.level == "model_checking" {
            coverage.insert("states".into(), json!(self.states));
            coverage.insert("transitions".into(), json!(self.transitions));
            coverage.insert("traces_validated_against_impl".into(), json!(self.traces_validated));
        }
        if !self.caps_hit.is_empty() {
            coverage.insert("caps_hit".into(), json!(self.caps_hit));
        }
        coverage.insert(
            "distinct_outcomes".into(),
            Value::Object(self.outcomes.iter().map(|(k, v)| (k.clone(), json!(v))).collect()),
        );
        if !known_seen.is_empty() {
            coverage.insert("known_findings_reobserved".into(), Value::Array(known_seen));
        }
        for (k, v) in &self.extra {
            coverage.insert(k.clone(), v.clone());
        }
        let ev = json!({
            "property_id": self.id,
            "tier": self.tier(),
            "seed": seed(),
            "level": self.level,
            "coverage": Value::Object(coverage),
            "assumptions": self.assumptions,
            "wall_s": wall,
            "violations": unlisted,
        });
        let ev_dir = root.join("evidence");
        let _ = std::fs::create_dir_all(&ev_dir);
        let part = std::env::var("VERIF_EVIDENCE_PART").ok();
        let ev_path = match &part {
            Some(p) => ev_dir.join(format!("{}.part-{}.json", self.id, p)),
            None => ev_dir.join(format!("{}.json", self.id)),
        };
        // Last stage of a multi-stage check: fold the earlier stages' parts into this evidence.
        let mut ev = ev;
        if let (None, Ok(merge)) = (&part, std::env::var("VERIF_EVIDENCE_MERGE")) {
            let mut stages = Map::new();
            for name in merge.split(',').filter(|s| !s.is_empty()) {
                let pp = ev_dir.join(format!("{}.part-{}.json", self.id, name));
                let Some(pv) = std::fs::read_to_string(&pp).ok().and_then(|t| serde_json::from_str::<Value>(&t).ok()) else {
                    eprintln!("missing evidence part {}", pp.display());
                    std::process::exit(2);
                };
                for key in ["evaluations", "distinct_nontrivial", "states", "transitions", "traces_validated_against_impl"] {
                    let add = pv["coverage"][key].as_u64().unwrap_or(0);
                    if let Some(cur) = ev["coverage"].get(key).and_then(Value::as_u64) {
                        ev["coverage"][key] = json!(cur + add);
                    } else if add > 0 && self.level == "model_checking" {
                        ev["coverage"][key] = json!(add);
                    }
                }
                if pv["coverage"]["exhaustive"] == json!(false) {
                    ev["coverage"]["exhaustive"] = json!(false);
                }
                let w = pv["wall_s"].as_f64().unwrap_or(0.0) + ev["wall_s"].as_f64().unwrap_or(0.0);
                ev["wall_s"] = json!(w);
                let vs = pv["violations"].as_u64().unwrap_or(0) + ev["violations"].as_u64().unwrap_or(0);
                ev["violations"] = json!(vs);
                if let Some(samples) = pv["coverage"]["samples"].as_array() {
                    if let Some(arr) = ev["coverage"]["samples"].as_array_mut() {
                        arr.extend(samples.iter().take(3).cloned());
                    }
                }
                if let Some(a) = pv["assumptions"].as_array() {
                    if let Some(arr) = ev["assumptions"].as_array_mut() {
                        arr.extend(a.iter().cloned());
                    }
                }
                stages.insert(name.to_string(), pv["coverage"].clone());
                let _ = std::fs::remove_file(&pp);
            }
            ev["coverage"]["stages"] = Value::Object(stages);
        }
        if let Err(e) = std::fs::write(&ev_path, serde_json::to_string_pretty(&ev).unwrap()) {
            eprintln!("cannot write evidence {}: {e}", ev_path.display());
            std::process::exit(2);
        }

        println!(
            "SUMMARY property={} tier={} evaluations={} distinct={} states={} transitions={} outcomes={} exhaustive={} wall_s={:.1}",
            self.id,
            self.tier(),
            self.evaluations,
            self.distinct_count(),
            self.states,
            self.transitions,
            self.outcomes.len(),
            self.exhaustive && self.caps_hit.is_empty(),
            wall
        );
        for l in &violation_lines {
            println!("{l}");
        }
        let _ = std::io::stdout().flush();
        if unlisted > 0 {
            std::process::exit(1);
        }
        std::process::exit(0);
    }
}

fn sanitize(s: &str) -> String {
    let mut out: String = s
        .chars()
        .map(|c| if c.is_ascii_alphanumeric() || c == '-' || c == '_' { c } else { '_' })
        .collect();
    out.truncate(80);
    out
}

#[derive(Clone, Debug)]
pub struct KnownFinding {
    pub key: String,
    pub status: String,
    pub what: String,
}

pub fn load_known_findings(root: &Path, property: &str) -> Vec<KnownFinding> {
    let path = root.join("known_findings.json");
    let Ok(text) = std::fs::read_to_string(&path) else {
        return Vec::new();
    };
    let Ok(v) = serde_json::from_str::<Value>(&text) else {
        eprintln!("known_findings.json does not parse; ignoring (nothing is suppressed)");
        return Vec::new();
    };
    let mut out = Vec::new();
    if let Some(arr) = v.get("findings").and_then(Value::as_array) {
        for f in arr {
            if f.get("property").and_then(Value::as_str) != Some(property) {
                continue;
            }
            out.push(KnownFinding {
                key: f.get("key").and_then(Value::as_str).unwrap_or("").to_string(),
                status: f.get("status").and_then(Value::as_str).unwrap_or("known").to_string(),
                what: f.get("what").and_then(Value::as_str).unwrap_or("").to_string(),
            });
        }
    }
    out
}

// ------------------------------------------------------------------------------------------
// Subprocess fan-out: re-exec the current binary with VERIF_JOB=<job>, in parallel, with a
// per-job timeout. Used for loom programs (a loom failure may abort), for anything that may hang,
// and simply for 16-way parallelism.
// ------------------------------------------------------------------------------------------

#[derive(Debug, Clone)]
pub struct JobResult {
    pub job: String,
    pub exit_code: Option<i32>,
    pub timed_out: bool,
    pub stdout: String,
    pub stderr: String,
    pub wall: Duration,
}

impl JobResult {
    /// The JSON payload of the last `@@RESULT ` line in stdout, if any.
    pub fn result_json(&self) -> Option<Value> {
        self.stdout
            .lines()
            .rev()
            .find_map(|l| l.strip_prefix("@@RESULT "))
            .and_then(|s| serde_json::from_str(s).ok())
    }
}

/// `Some(job)` when this process is a child started by `run_jobs`.
pub fn child_job() -> Option<String> {
    std::env::var("VERIF_JOB").ok()
}

/// Child side: print the result line.
pub fn child_result(v: &Value) {
    println!("@@RESULT {}", serde_json::to_string(v).unwrap());
    let _ = std::io::stdout().flush();
}

pub fn default_parallelism() -> usize {
    std::env::var("VERIF_JOBS")
        .ok()
        .and_then(|s| s.parse().ok())
        .unwrap_or_else(|| std::thread::available_parallelism().map(|n| n.get()).unwrap_or(4))
}

pub fn run_jobs(jobs: &[String], parallelism: usize, timeout: Duration) -> Vec<JobResult> {
    run_jobs_env(jobs, parallelism, timeout, &[])
}

pub fn run_jobs_env(
    jobs: &[String],
    parallelism: usize,
    timeout: Duration,
    env: &[(String, String)],
) -> Vec<JobResult> {
    let exe = std::env::current_exe().expect("current_exe");
    let next = AtomicUsize::new(0);
    let results: Mutex<Vec<Option<JobResult>>> = Mutex::new(vec![None; jobs.len()]);
    std::thread::scope(|s| {
        for slot in 0..parallelism.max(1).min(jobs.len().max(1)) {
            let (next, results, exe) = (&next, &results, &exe);
            s.spawn(move || {
                // Each concurrently running child gets a distinct slot number (children that pin
                // themselves to one processor use it to spread out).
                let mut env: Vec<(String, String)> = env.to_vec();
                env.push(("VERIF_JOB_SLOT".to_string(), slot.to_string()));
                let env = &env[..];
                loop {
                    let i = next.fetch_add(1, Ordering::SeqCst);
                    if i >= jobs.len() {
                        break;
                    }
                    let r = run_one(exe, &jobs[i], timeout, env);
                    results.lock().unwrap()[i] = Some(r);
                }
            });
        }
    });
    results.into_inner().unwrap().into_iter().map(|r| r.expect("job result")).collect()
}

fn run_one(exe: &Path, job: &str, timeout: Duration, env: &[(String, String)]) -> JobResult {
    let start = Instant::now();
    let mut cmd = Command::new(exe);
    cmd.env("VERIF_JOB", job)
        .stdin(Stdio::null())
        .stdout(Stdio::piped())
        .stderr(Stdio::piped());
    for (k, v) in env {
        cmd.env(k, v);
    }
    let mut child = cmd.spawn().expect("spawn child");
    let mut out = child.stdout.take().unwrap();
    let mut err = child.stderr.take().unwrap();
    let t_out = std::thread::spawn(move || {
        let mut s = Vec::new();
        let _ = out.read_to_end(&mut s);
        String::from_utf8_lossy(&s).into_owned()
    });
    let t_err = std::thread::spawn(move || {
        let mut s = Vec::new();
        let _ = err.read_to_end(&mut s);
        // Keep stderr bounded.
        let s = String::from_utf8_lossy(&s).into_owned();
        if s.len() > 20_000 { s[s.len() - 20_000..].to_string() } else { s }
    });
    let mut timed_out = false;
    let status = loop {
        match child.try_wait() {
            Ok(Some(st)) => break Some(st),
            Ok(None) => {
                if start.elapsed() > timeout {
                    timed_out = true;
                    let _ = child.kill();
                    break child.wait().ok();
                }
                std::thread::sleep(Duration::from_millis(2));
            }
            Err(_) => break None,
        }
    };
    let stdout = t_out.join().unwrap_or_default();
    let stderr = t_err.join().unwrap_or_default();
    JobResult {
        job: job.to_string(),
        exit_code: status.and_then(|s| s.code()),
        timed_out,
        stdout,
        stderr,
        wall: start.elapsed(),
    }
}

/// FNV-1a, for hashing canonical forms without pulling a dependency.
pub fn fnv1a(bytes: &[u8]) -> u64 {
    let mut h: u64 = 0xcbf2_9ce4_8422_2325;
    for b in bytes {
        h ^= u64::from(*b);
        h = h.wrapping_mul(0x0000_0100_0000_01b3);
    }
    h
}

pub fn hash_str(s: &str) -> u64 {
    fnv1a(s.as_bytes())
}

/// Silence the default panic hook (harnesses catch panics as data).
pub fn quiet_panics() {
    std::panic::set_hook(Box::new(|_| {}));
}

/// Like `quiet_panics`, but the FIRST panic of the process is reported on stderr as one line
/// `@@FIRST-PANIC <message>` — so that a parent can still attribute a child that aborted on a
/// follow-up panic (panic while unwinding, panic in a no-unwind context).
pub fn quiet_panics_keep_first() {
    static SEEN: std::sync::atomic::AtomicBool = std::sync::atomic::AtomicBool::new(false);
    std::panic::set_hook(Box::new(|info| {
        if !SEEN.swap(true, Ordering::SeqCst) {
            let msg = if let Some(s) = info.payload().downcast_ref::<&str>() {
                (*s).to_string()
            } else if let Some(s) = info.payload().downcast_ref::<String>() {
                s.clone()
            } else {
                "<non-string panic payload>".to_string()
            };
            eprintln!("@@FIRST-PANIC {}", msg.replace('\n', " "));
        }
    }));
}

/// The message of a child's first panic, if it reported one (see `quiet_panics_keep_first`).
pub fn first_panic_of(stderr: &str) -> Option<String> {
    stderr.lines().find_map(|l| l.strip_prefix("@@FIRST-PANIC ")).map(str::to_string)
}

/// Extract a readable message from a caught panic payload.
pub fn panic_message(p: &(dyn std::any::Any + Send)) -> String {
    if let Some(s) = p.downcast_ref::<&str>() {
        (*s).to_string()
    } else if let Some(s) = p.downcast_ref::<String>() {
        s.clone()
    } else {
        "<non-string panic payload>".to_string()
    }
}

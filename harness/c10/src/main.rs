//! C10 — "Pinning takes effect in the OS and the library's view of it stays truthful".
//!
//! Exhaustive enumeration (evidence level `exploration`) of OS affinity configurations and of pin
//! histories. Nothing here enumerates schedules: the oracle only uses facts that pinning makes
//! stable (the affinity mask of a thread that nobody else touches, "the cpu I run on is inside my
//! mask", the library's bookkeeping for the calling thread).
//!
//! PART 1 — real platform (`SystemHardware::current()`), universe U = the (at most 16) processors
//! the process may use (`sched_getaffinity` of the main thread ∩ the library's inventory):
//!   * `pin`           every enumerated non-empty S ⊆ U: a FRESH thread builds a `ProcessorSet` with
//!                     exactly S, calls `pin_current_thread_to()`, then reads the kernel's answer
//!                     (`libc::sched_getaffinity(0)`, `libc::sched_getcpu()`) and the library's
//!                     answers on that same thread.
//!   * `spawn_thread`  every enumerated S: the entry point reads the same things.
//!   * `spawn_threads` every enumerated S: exactly |S| threads, each with kernel affinity == its own
//!                     one processor, all distinct, together covering S.
//!   * `repin`         every sequence of length <= 3 over the 15 non-empty subsets of a 4-processor
//!                     sub-universe on one fresh thread, with a live sibling thread (one per
//!                     worker) that never pins and is observed after every pin (no leak between
//!                     threads).
//! PART 2 — bookkeeping on fake hardware: every topology of n <= 4 processors with every assignment
//! of processors to two regions (x 2 id schemes: dense ids / sparse non-monotone ids and region
//! ids), two INDEPENDENT `SystemHardware::fake` instances (same processor ids, the second with the
//! region assignment mirrored) used by two threads; every sequence of length <= 3 of steps
//! (thread, instance, non-empty subset). After every step all four (thread, instance) views are
//! compared with a reference that remembers the last pin per (thread, instance). Histories run on
//! shared thread pairs, `LANES` at a time in lockstep, each history with its own two brand-new
//! instances (see `pair_thread0`); a violating history is re-run alone on brand-new threads and the
//! summary says whether it reproduces there.
//!
//! Development aids: `C10_ONLY=fake,pin,...` restricts the families; `VERIF_REPLAY=<file>` re-runs
//! the one case of a replay file and prints what was observed.
//!
//! Oracle for the library's answers, given the last pin S of this (thread, instance) — see `judge`:
//!   never pinned: not processor pinned, not region pinned, `thread_processors()` is None, current
//!                 processor ∈ processors an unpinned thread may use, region ∈ their regions.
//!   |S| == 1:     processor pinned and region pinned, current processor == it, current region ==
//!                 its region, `thread_processors()` == S.
//!   |S| > 1, one region R: not processor pinned, region pinned, current processor ∈ S, current
//!                 region == R, `thread_processors()` == S or == every processor of R (the
//!                 bookkeeping only remembers the region; DESIGN.md: "region-pinned ⇒
//!                 thread_processors is the whole region"; the repository's own suite pins this).
//!   S spans regions: neither pinned flag, current processor ∈ S, current region ∈ regions(S),
//!                 `thread_processors()` is None (nothing is remembered) or == S.
//! Anything else — in particular an answer that matches an EARLIER pin, another thread's pin or
//! another instance's pin — is a violation.

use std::collections::{BTreeMap, BTreeSet};
use std::io;
use std::sync::Mutex;
use std::sync::atomic::{AtomicBool, AtomicUsize, Ordering};
use std::sync::mpsc;
use std::time::{Duration, Instant};

use many_cpus::fake::{HardwareBuilder, ProcessorBuilder};
use many_cpus::{ProcessorSet, SystemHardware};
use vcommon::Check;
use vcommon::serde_json::{Value, json};

// ------------------------------------------------------------------------------------------
// Kernel side, read directly (never through the library)
// ------------------------------------------------------------------------------------------

/// 8192 bits: wider than any `nr_cpu_ids` a distribution kernel is built with.
const MASK_WORDS: usize = 128;

fn os_affinity() -> Result<Vec<u32>, String> {
    let mut buf = vec![0_u64; MASK_WORDS];
    // SAFETY: the buffer is valid for the byte length we pass; the kernel writes no more than that.
    let r = unsafe {
        libc::sched_getaffinity(0, buf.len() * 8, buf.as_mut_ptr().cast::<libc::cpu_set_t>())
    };
    if r != 0 {
        return Err(format!("sched_getaffinity: {}", io::Error::last_os_error()));
    }
    let mut out = Vec::new();
    for (w, bits) in buf.iter().enumerate() {
        for b in 0..64 {
            if bits & (1_u64 << b) != 0 {
                out.push((w * 64 + b) as u32);
            }
        }
    }
    Ok(out)
}

fn os_cpu() -> i64 {
    // SAFETY: no requirements.
    i64::from(unsafe { libc::sched_getcpu() })
}

// ------------------------------------------------------------------------------------------
// Accumulator (one per worker, merged at the end)
// ------------------------------------------------------------------------------------------

const MAX_WITNESSES_PER_KEY: u64 = 12;

#[derive(Default)]
struct Acc {
    evaluations: u64,
    hashes: Vec<u64>,
    outcomes: BTreeMap<String, u64>,
    violations: Vec<(String, String, Value)>,
    per_key: BTreeMap<String, u64>,
    samples: BTreeMap<String, Value>,
    engine: Vec<String>,
    counters: BTreeMap<String, u64>,
}

impl Acc {
    fn outcome(&mut self, class: &str) {
        *self.outcomes.entry(class.to_string()).or_insert(0) += 1;
    }
    fn count(&mut self, k: &str, n: u64) {
        *self.counters.entry(k.to_string()).or_insert(0) += n;
    }
    fn violation(&mut self, key: String, summary: String, replay: Value) {
        let n = self.per_key.entry(key.clone()).or_insert(0);
        *n += 1;
        if *n <= MAX_WITNESSES_PER_KEY {
            self.violations.push((key, summary, replay));
        }
    }
    fn sample(&mut self, class: &str, v: impl FnOnce() -> Value) {
        if !self.samples.contains_key(class) {
            self.samples.insert(class.to_string(), v());
        }
    }
    fn merge(&mut self, o: Acc) {
        self.evaluations += o.evaluations;
        self.hashes.extend(o.hashes);
        for (k, v) in o.outcomes {
            *self.outcomes.entry(k).or_insert(0) += v;
        }
        for (k, v) in o.counters {
            *self.counters.entry(k).or_insert(0) += v;
        }
        for (k, v) in o.per_key {
            *self.per_key.entry(k).or_insert(0) += v;
        }
        self.violations.extend(o.violations);
        for (k, v) in o.samples {
            self.samples.entry(k).or_insert(v);
        }
        self.engine.extend(o.engine);
    }
}

/// Runs `f(i, state, acc)` for every i in 0..n on `jobs` unpinned worker threads, each with its
/// own `state`. Returns the merged accumulator and whether the deadline cut the enumeration short.
fn par_for<S, I, F>(n: usize, jobs: usize, chunk: usize, deadline: Instant, init: I, f: F) -> (Acc, bool)
where
    I: Fn() -> S + Sync,
    F: Fn(usize, &mut S, &mut Acc) + Sync,
{
    let next = AtomicUsize::new(0);
    let cut = AtomicBool::new(false);
    let total = Mutex::new(Acc::default());
    std::thread::scope(|s| {
        for _ in 0..jobs.max(1) {
            s.spawn(|| {
                let mut acc = Acc::default();
                let mut state = init();
                loop {
                    if Instant::now() > deadline {
                        if next.load(Ordering::SeqCst) < n {
                            cut.store(true, Ordering::SeqCst);
                        }
                        break;
                    }
                    let start = next.fetch_add(chunk, Ordering::SeqCst);
                    if start >= n {
                        break;
                    }
                    for i in start..n.min(start + chunk) {
                        f(i, &mut state, &mut acc);
                    }
                }
                drop(state);
                total.lock().unwrap().merge(acc);
            });
        }
    });
    (total.into_inner().unwrap(), cut.load(Ordering::SeqCst))
}

/// Harness threads need little stack; the default 2 MiB mapping per thread is measurable when
/// hundreds of thousands of threads are created.
fn spawn_small<T: Send + 'static>(f: impl FnOnce() -> T + Send + 'static) -> std::thread::JoinHandle<T> {
    std::thread::Builder::new().stack_size(256 * 1024).spawn(f).expect("HARNESS: cannot start a thread")
}

/// Receives by polling for a short while before blocking: a thread pinned to a busy processor
/// that goes to sleep pays a full scheduling latency to wake up again, its (unpinned) partner
/// answers within microseconds.
fn recv_spin<T>(rx: &mpsc::Receiver<T>) -> Result<T, mpsc::RecvError> {
    recv_spin_for(rx, 60)
}

fn recv_spin_for<T>(rx: &mpsc::Receiver<T>, micros: u64) -> Result<T, mpsc::RecvError> {
    let t0 = Instant::now();
    loop {
        match rx.try_recv() {
            Ok(v) => return Ok(v),
            Err(mpsc::TryRecvError::Disconnected) => return Err(mpsc::RecvError),
            Err(mpsc::TryRecvError::Empty) => {}
        }
        if t0.elapsed() > Duration::from_micros(micros) {
            return rx.recv();
        }
        std::hint::spin_loop();
    }
}

fn panic_text(p: Box<dyn std::any::Any + Send>) -> String {
    vcommon::panic_message(&*p)
}

// ------------------------------------------------------------------------------------------
// The library's view on the calling thread, and the reference it is judged against
// ------------------------------------------------------------------------------------------

/// How many times the "current processor / region" questions are asked per observation (on the
/// fake platform an unpinned or multi-processor answer is a random member of the allowed set).
const READS: usize = 2;

#[derive(Clone, Debug)]
struct LibView {
    pp: bool,
    rp: bool,
    cpids: Vec<u32>,
    crids: Vec<u32>,
    /// `thread_processors()`: (id, region) pairs sorted by id.
    tp: Option<Vec<(u32, u32)>>,
}

impl LibView {
    fn take(hw: &SystemHardware) -> Self {
        let pp = hw.is_thread_processor_pinned();
        let rp = hw.is_thread_memory_region_pinned();
        let cpids = (0..READS).map(|_| hw.current_processor_id()).collect();
        let crids = (0..READS).map(|_| hw.current_memory_region_id()).collect();
        let tp = hw.thread_processors().map(|s| set_pairs(&s));
        Self { pp, rp, cpids, crids, tp }
    }
    fn json(&self) -> Value {
        json!({
            "is_thread_processor_pinned": self.pp,
            "is_thread_memory_region_pinned": self.rp,
            "current_processor_id": self.cpids,
            "current_memory_region_id": self.crids,
            "thread_processors": self.tp.as_ref().map(|t| t.iter().map(|p| p.0).collect::<Vec<_>>()),
        })
    }
}

fn set_pairs(s: &ProcessorSet) -> Vec<(u32, u32)> {
    let mut v: Vec<(u32, u32)> = s.processors().iter().map(|p| (p.id(), p.memory_region_id())).collect();
    v.sort_unstable();
    v
}

fn set_ids(s: &ProcessorSet) -> Vec<u32> {
    set_pairs(s).into_iter().map(|p| p.0).collect()
}

/// (id, region) of every processor of one hardware instance, sorted by id.
#[derive(Clone, Debug)]
struct Topo {
    procs: Vec<(u32, u32)>,
}

impl Topo {
    fn of(hw: &SystemHardware) -> Self {
        Self { procs: set_pairs(&hw.all_processors()) }
    }
    fn region_of(&self, id: u32) -> Option<u32> {
        self.procs.iter().find(|p| p.0 == id).map(|p| p.1)
    }
    fn regions(&self, ids: &[u32]) -> BTreeSet<u32> {
        ids.iter().filter_map(|i| self.region_of(*i)).collect()
    }
    fn ids(&self) -> Vec<u32> {
        self.procs.iter().map(|p| p.0).collect()
    }
    fn shape(&self, s: &[u32]) -> &'static str {
        if s.len() == 1 {
            "single"
        } else if self.regions(s).len() == 1 {
            "multi-one-region"
        } else {
            "cross-region"
        }
    }
}

/// Builds a set with exactly `ids` out of the instance's full inventory.
fn make_set(hw: &SystemHardware, ids: &[u32]) -> ProcessorSet {
    let set = hw
        .all_processors()
        .filter(|p| ids.binary_search(&p.id()).is_ok())
        .expect("HARNESS: requested ids are part of the inventory");
    assert_eq!(set_ids(&set), ids, "HARNESS: filter() did not produce the requested set");
    set
}

/// Judges one view. `last` = last pin of this (thread, instance), `free` = where a thread that
/// never pinned may run. Pushes (field, detail) per broken expectation; returns the shape of the
/// `thread_processors()` answer for the outcome statistics.
fn judge(topo: &Topo, last: Option<&[u32]>, free: &[u32], v: &LibView, bad: &mut Vec<(&'static str, String)>) -> &'static str {
    match last {
        None => {
            if v.pp {
                bad.push(("is_thread_processor_pinned", "true on a thread that never pinned to this instance".into()));
            }
            if v.rp {
                bad.push(("is_thread_memory_region_pinned", "true on a thread that never pinned to this instance".into()));
            }
            if let Some(bad_id) = v.cpids.iter().find(|c| !free.contains(c)) {
                bad.push(("current_processor_id", format!("{bad_id} is not a processor the unpinned thread may use {free:?}")));
            }
            let regs = topo.regions(free);
            if let Some(r) = v.crids.iter().find(|r| !regs.contains(r)) {
                bad.push(("current_memory_region_id", format!("{r} is not a region of the unpinned thread's processors {regs:?}")));
            }
            if let Some(t) = &v.tp {
                bad.push(("thread_processors", format!("Some({:?}) on a thread that never pinned to this instance", t.iter().map(|p| p.0).collect::<Vec<_>>())));
            }
            "tp=none-unpinned"
        }
        Some(s) => {
            let regs = topo.regions(s);
            let single = s.len() == 1;
            let one_region = regs.len() == 1;
            if v.pp != single {
                bad.push(("is_thread_processor_pinned", format!("{} after pinning to {s:?}", v.pp)));
            }
            if v.rp != one_region {
                bad.push(("is_thread_memory_region_pinned", format!("{} after pinning to {s:?} (regions {regs:?})", v.rp)));
            }
            if let Some(c) = v.cpids.iter().find(|c| !s.contains(c)) {
                bad.push(("current_processor_id", format!("{c} after pinning to {s:?}")));
            }
            if let Some(r) = v.crids.iter().find(|r| !regs.contains(r)) {
                bad.push(("current_memory_region_id", format!("{r} after pinning to {s:?} (regions {regs:?})")));
            }
            match &v.tp {
                Some(t) => {
                    if let Some(p) = t.iter().find(|p| topo.region_of(p.0) != Some(p.1)) {
                        bad.push(("thread_processors", format!("contains processor {p:?} (id, region) unknown to the instance")));
                    }
                    let t_ids: Vec<u32> = t.iter().map(|p| p.0).collect();
                    if t_ids == s {
                        "tp=exact"
                    } else if !single && one_region && {
                        let r = *regs.iter().next().unwrap();
                        let whole: Vec<u32> = topo.procs.iter().filter(|p| p.1 == r).map(|p| p.0).collect();
                        t_ids == whole
                    } {
                        "tp=whole-region"
                    } else {
                        bad.push(("thread_processors", format!("Some({t_ids:?}) after pinning to {s:?}")));
                        "tp=wrong"
                    }
                }
                None => {
                    if one_region {
                        bad.push(("thread_processors", format!("None after pinning to {s:?} (one region)")));
                        "tp=wrong"
                    } else {
                        "tp=none-cross-region"
                    }
                }
            }
        }
    }
}

// ------------------------------------------------------------------------------------------
// PART 1 — real platform
// ------------------------------------------------------------------------------------------

struct Real {
    hw: &'static SystemHardware,
    topo: Topo,
    /// Affinity of the process when the harness started (main thread, nothing pinned yet).
    process: Vec<u32>,
    /// The enumerated universe (<= 16 processors).
    universe: Vec<u32>,
}

impl Real {
    fn ids_of(&self, mask: u32) -> Vec<u32> {
        self.universe.iter().enumerate().filter(|(i, _)| mask & (1 << i) != 0).map(|(_, id)| *id).collect()
    }
}

/// What a thread sees right after it was pinned (by itself or by the library's spawner).
#[derive(Clone, Debug)]
struct OsObs {
    os: Result<Vec<u32>, String>,
    cpu: i64,
    view: LibView,
    /// `all_processors().to_builder().where_available_for_current_thread().take_all()`.
    avail: Vec<u32>,
}

impl OsObs {
    fn take(hw: &SystemHardware) -> Self {
        let os = os_affinity();
        let cpu = os_cpu();
        let view = LibView::take(hw);
        let avail = hw
            .all_processors()
            .to_builder()
            .where_available_for_current_thread()
            .take_all()
            .map(|s| set_ids(&s))
            .unwrap_or_default();
        // The kernel's answer must also be stable across the library's reads.
        let os2 = os_affinity();
        let os = if os == os2 { os } else { Err(format!("affinity changed between two reads: {os:?} then {os2:?}")) };
        Self { os, cpu, view, avail }
    }
    fn json(&self) -> Value {
        json!({"sched_getaffinity": format!("{:?}", self.os), "sched_getcpu": self.cpu, "library": self.view.json(), "where_available_for_current_thread": self.avail})
    }
}

/// Judges an observation of a thread whose last pin is `s`.
fn judge_os(real: &Real, api: &str, ctx: &str, s: &[u32], o: &OsObs, replay: &Value, acc: &mut Acc) {
    let shape = real.topo.shape(s);
    match &o.os {
        Ok(os) if os == s => {}
        other => acc.violation(
            format!("{api}/os-affinity-differs-from-set/{shape}"),
            format!("{api}{ctx} to {s:?}: kernel affinity of the thread is {other:?}"),
            replay.clone(),
        ),
    }
    if !(o.cpu >= 0 && s.contains(&(o.cpu as u32))) {
        acc.violation(
            format!("{api}/sched_getcpu-outside-set/{shape}"),
            format!("{api}{ctx} to {s:?}: thread runs on cpu {}", o.cpu),
            replay.clone(),
        );
    }
    if o.avail != s {
        acc.violation(
            format!("{api}/where_available_for_current_thread-differs/{shape}"),
            format!("{api}{ctx} to {s:?}: the library reads the thread's affinity back as {:?}", o.avail),
            replay.clone(),
        );
    }
    let mut bad = Vec::new();
    let tp = judge(&real.topo, Some(s), &real.process, &o.view, &mut bad);
    for (field, detail) in bad {
        acc.violation(format!("{api}/{field}/{shape}"), format!("{api}{ctx} to {s:?}: {field}: {detail}"), replay.clone());
    }
    acc.outcome(&format!("real:{api}:{shape}:{tp}"));
}

fn judge_unpinned_thread(real: &Real, api: &str, who: &str, os: &Result<Vec<u32>, String>, view: &LibView, replay: &Value, acc: &mut Acc) {
    match os {
        Ok(a) if *a == real.process => {}
        other => acc.violation(
            format!("{api}/{who}-affinity-changed"),
            format!("{api}: the {who} thread never pinned, yet its kernel affinity is {other:?} (process: {:?})", real.process),
            replay.clone(),
        ),
    }
    let mut bad = Vec::new();
    judge(&real.topo, None, &real.process, view, &mut bad);
    for (field, detail) in bad {
        acc.violation(format!("{api}/{who}-{field}"), format!("{api}: {who} thread (never pinned): {field}: {detail}"), replay.clone());
    }
}

fn case_pin(real: &Real, s: &[u32], acc: &mut Acc) {
    acc.evaluations += 1;
    acc.hashes.push(vcommon::hash_str(&format!("pin|{s:?}")));
    let replay = json!({"part": "pin", "set": s});
    let hw = real.hw;
    let ids = s.to_vec();
    let r = spawn_small(move || {
        let before = os_affinity();
        let set = make_set(hw, &ids);
        set.pin_current_thread_to();
        (before, OsObs::take(hw))
    })
    .join();
    match r {
        Err(p) => acc.violation(
            format!("pin/panic/{}", real.topo.shape(s)),
            format!("pin_current_thread_to {s:?} panicked: {}", panic_text(p)),
            replay,
        ),
        Ok((before, o)) => {
            if before.as_ref() != Ok(&real.process) {
                acc.violation(
                    "pin/fresh-thread-affinity-changed".into(),
                    format!("a fresh thread started with affinity {before:?}, process affinity is {:?}", real.process),
                    replay.clone(),
                );
            }
            judge_os(real, "pin", "", s, &o, &replay, acc);
            let shape = real.topo.shape(s);
            acc.sample(&format!("pin:{shape}"), || json!({"case": replay, "observed": o.json()}));
        }
    }
}

fn case_spawn_thread(real: &Real, s: &[u32], acc: &mut Acc) {
    acc.evaluations += 1;
    acc.hashes.push(vcommon::hash_str(&format!("spawn_thread|{s:?}")));
    let replay = json!({"part": "spawn_thread", "set": s});
    let hw = real.hw;
    let set = make_set(hw, s);
    let r = set.spawn_thread(move |got| (set_ids(&got), OsObs::take(hw))).join();
    match r {
        Err(p) => acc.violation(
            format!("spawn_thread/panic/{}", real.topo.shape(s)),
            format!("spawn_thread on {s:?} panicked: {}", panic_text(p)),
            replay.clone(),
        ),
        Ok((got, o)) => {
            if got != s {
                acc.violation(
                    "spawn_thread/entrypoint-given-other-set".into(),
                    format!("spawn_thread on {s:?} handed the entry point the set {got:?}"),
                    replay.clone(),
                );
            }
            judge_os(real, "spawn_thread", "", s, &o, &replay, acc);
            acc.sample("spawn_thread", || json!({"case": replay, "observed": o.json()}));
        }
    }
    // The spawner (this worker) never pinned: it must still have the process's affinity.
    let view = LibView::take(hw);
    judge_unpinned_thread(real, "spawn_thread", "spawner", &os_affinity(), &view, &replay, acc);
}

fn case_spawn_threads(real: &Real, s: &[u32], acc: &mut Acc) {
    acc.evaluations += 1;
    acc.hashes.push(vcommon::hash_str(&format!("spawn_threads|{s:?}")));
    let replay = json!({"part": "spawn_threads", "set": s});
    let hw = real.hw;
    let set = make_set(hw, s);
    let handles = set.spawn_threads(move |p| (p.id(), OsObs::take(hw)));
    let n = handles.len();
    let mut given = Vec::new();
    let mut sample = Vec::new();
    for h in handles {
        match h.join() {
            Err(p) => acc.violation(
                "spawn_threads/panic".into(),
                format!("spawn_threads on {s:?}: a thread panicked: {}", panic_text(p)),
                replay.clone(),
            ),
            Ok((id, o)) => {
                given.push(id);
                // Each thread is pinned to its one processor: judged exactly like a pin to {id}.
                judge_os(real, "spawn_threads", &format!(" on {s:?}: the thread given processor {id} must be pinned"), &[id], &o, &replay, acc);
                sample.push(json!({"processor": id, "observed": o.json()}));
            }
        }
    }
    acc.count("spawn_threads_threads_observed", given.len() as u64);
    if n != s.len() {
        acc.violation(
            "spawn_threads/thread-count".into(),
            format!("spawn_threads on {s:?} started {n} threads, expected {}", s.len()),
            replay.clone(),
        );
    }
    let mut sorted = given.clone();
    sorted.sort_unstable();
    if sorted != s {
        acc.violation(
            "spawn_threads/processors-not-a-partition-of-set".into(),
            format!("spawn_threads on {s:?} gave its threads the processors {given:?}"),
            replay.clone(),
        );
    }
    if s.len() == 2 {
        acc.sample("spawn_threads", || json!({"case": replay, "threads": sample}));
    }
    let view = LibView::take(hw);
    judge_unpinned_thread(real, "spawn_threads", "spawner", &os_affinity(), &view, &replay, acc);
}

type SiblingObs = (Result<Vec<u32>, String>, LibView);

thread_local! {
    /// One sibling thread per worker: started by the (never pinned) worker, never pins, lives
    /// through all re-pin sequences of its worker and observes itself whenever a pinner asks.
    static SIBLING: mpsc::Sender<mpsc::Sender<SiblingObs>> = {
        let (tx, rx) = mpsc::channel::<mpsc::Sender<SiblingObs>>();
        spawn_small(move || {
            let hw = SystemHardware::current();
            while let Ok(reply) = rx.recv() {
                let _ = reply.send((os_affinity(), LibView::take(hw)));
            }
        });
        tx
    };
}

fn case_repin(real: &Real, seq: &[Vec<u32>], acc: &mut Acc) {
    acc.evaluations += 1;
    acc.hashes.push(vcommon::hash_str(&format!("repin|{seq:?}")));
    let replay = json!({"part": "repin", "seq": seq});
    let hw = real.hw;
    let cmd_tx = SIBLING.with(Clone::clone);
    let (obs_tx, obs_rx) = mpsc::channel::<SiblingObs>();
    let script = seq.to_vec();
    let pinner = spawn_small(move || {
        let mut out = Vec::new();
        for s in &script {
            make_set(hw, s).pin_current_thread_to();
            let mine = OsObs::take(hw);
            cmd_tx.send(obs_tx.clone()).expect("HARNESS: sibling alive");
            let theirs = recv_spin(&obs_rx).expect("HARNESS: sibling answers");
            out.push((mine, theirs));
        }
        out
    })
    .join();
    match pinner {
        Err(p) => acc.violation("repin/panic".into(), format!("re-pin sequence {seq:?} panicked: {}", panic_text(p)), replay),
        Ok(steps) => {
            for (k, (mine, theirs)) in steps.iter().enumerate() {
                judge_os(real, "repin", &format!(" {seq:?}: after pin #{} the thread must be pinned", k + 1), &seq[k], mine, &replay, acc);
                judge_unpinned_thread(real, "repin", "sibling", &theirs.0, &theirs.1, &replay, acc);
            }
            if seq.len() == 3 {
                acc.sample("repin", || {
                    json!({"case": replay, "after_each_pin": steps.iter().map(|(m, t)| json!({"pinner": m.json(), "sibling_affinity": format!("{:?}", t.0), "sibling_library": t.1.json()})).collect::<Vec<_>>()})
                });
            }
        }
    }
}

// ------------------------------------------------------------------------------------------
// PART 2 — bookkeeping on fake hardware
// ------------------------------------------------------------------------------------------

const DENSE_IDS: [u32; 4] = [0, 1, 2, 3];
/// Sparse ids, not monotone in the builder's list order.
const SPARSE_IDS: [u32; 4] = [5, 2, 7, 0];
const DENSE_REGIONS: [u32; 2] = [0, 1];
const SPARSE_REGIONS: [u32; 2] = [3, 1];

#[derive(Clone, Debug)]
struct FakeTopo {
    /// Processor ids in builder order (shared by both instances).
    ids: Vec<u32>,
    /// Region id of each processor (builder order) in instance 0 and in instance 1.
    regions: [Vec<u32>; 2],
}

impl FakeTopo {
    fn new(n: usize, assign: u32, scheme: usize) -> Self {
        let (idt, rt) = if scheme == 0 { (DENSE_IDS, DENSE_REGIONS) } else { (SPARSE_IDS, SPARSE_REGIONS) };
        let ids = idt[..n].to_vec();
        let r0 = (0..n).map(|i| rt[((assign >> i) & 1) as usize]).collect();
        // Second instance: same ids, mirrored region assignment.
        let r1 = (0..n).map(|i| rt[(((assign >> i) & 1) ^ 1) as usize]).collect();
        Self { ids, regions: [r0, r1] }
    }
    fn build(&self, inst: usize) -> SystemHardware {
        let mut b = HardwareBuilder::new();
        for (id, r) in self.ids.iter().zip(&self.regions[inst]) {
            b = b.processor(ProcessorBuilder::new().id(*id).memory_region(*r));
        }
        SystemHardware::fake(b)
    }
    fn topo(&self, inst: usize) -> Topo {
        let mut procs: Vec<(u32, u32)> = self.ids.iter().copied().zip(self.regions[inst].iter().copied()).collect();
        procs.sort_unstable();
        Topo { procs }
    }
    fn subset(&self, mask: u32) -> Vec<u32> {
        let mut v: Vec<u32> = self.ids.iter().enumerate().filter(|(i, _)| mask & (1 << i) != 0).map(|(_, id)| *id).collect();
        v.sort_unstable();
        v
    }
    fn json(&self) -> Value {
        json!({"ids": self.ids, "regions_instance0": self.regions[0], "regions_instance1": self.regions[1]})
    }
}

/// (thread, instance, sorted processor ids)
type Step = (usize, usize, Vec<u32>);
/// views[thread][instance]
type Views = [[LibView; 2]; 2];

enum Cmd {
    /// New group of histories: thread 1's handles to every history's two instances.
    Begin(Vec<[SystemHardware; 2]>),
    /// One step of the group: thread 1 first performs its own pins `(history, instance, ids)`,
    /// then answers with its two views for every history listed in `observe`.
    Step { pins: Vec<(usize, usize, Vec<u32>)>, observe: Vec<usize> },
}

/// One history to execute: topology, steps, and whether all four views are also taken before
/// the first step.
#[derive(Clone)]
struct FakeJob {
    ft: FakeTopo,
    steps: Vec<Step>,
    initial: bool,
}

/// Views after every step (preceded by the views before the first step when asked for).
type FakeResult = Result<Vec<Views>, String>;

/// Body of thread 0 of a thread pair. Histories are executed in groups of `lanes`: every history
/// of a group gets its own two brand-new hardware instances (so the reference "never pinned to
/// this instance" applies to each), and the group advances in lockstep — step k of every history,
/// then the views of both threads on every history's instances, then step k+1. Within one history
/// the order "pin, then all four views" is exactly the sequential one; the other histories of the
/// group only add live instances on the same two threads (which a leak between instances would
/// have to respect too). One cross-thread round trip then serves a whole group.
/// A group that kills one of the two threads is left unreported (the caller re-runs its
/// histories one by one); with `lanes == 1` the dead history is reported with the panic text.
fn pair_thread0(jobs: Vec<FakeJob>, lanes: usize, results: mpsc::Sender<FakeResult>) {
    let (cmd_tx, cmd_rx) = mpsc::channel::<Cmd>();
    let (obs_tx, obs_rx) = mpsc::channel::<Vec<[LibView; 2]>>();
    let t1 = spawn_small(move || {
        let mut cur: Vec<[SystemHardware; 2]> = Vec::new();
        while let Ok(cmd) = cmd_rx.recv() {
            match cmd {
                Cmd::Begin(h) => cur = h,
                Cmd::Step { pins, observe } => {
                    for (h, inst, ids) in pins {
                        make_set(&cur[h][inst], &ids).pin_current_thread_to();
                    }
                    let o = observe.iter().map(|h| [LibView::take(&cur[*h][0]), LibView::take(&cur[*h][1])]).collect();
                    if obs_tx.send(o).is_err() {
                        break;
                    }
                }
            }
        }
    });
    let ask = |cmd: Cmd| -> Option<Vec<[LibView; 2]>> {
        cmd_tx.send(cmd).ok()?;
        obs_rx.recv().ok()
    };
    'groups: for group in jobs.chunks(lanes.max(1)) {
        let hws: Vec<[SystemHardware; 2]> = group.iter().map(|j| [j.ft.build(0), j.ft.build(1)]).collect();
        let mut outs: Vec<Vec<Views>> = group.iter().map(|j| Vec::with_capacity(j.steps.len() + 1)).collect();
        let mut dead = cmd_tx.send(Cmd::Begin(hws.clone())).is_err();
        let max_len = group.iter().map(|j| j.steps.len()).max().unwrap_or(0);
        // Round 0 = before any step (only for the histories that ask for it), round k = step k.
        for round in 0..=max_len {
            if dead {
                break;
            }
            let mut pins = Vec::new();
            let mut observe = Vec::new();
            for (h, job) in group.iter().enumerate() {
                if round == 0 {
                    if job.initial {
                        observe.push(h);
                    }
                } else if let Some((thread, inst, ids)) = job.steps.get(round - 1) {
                    if *thread == 0 {
                        make_set(&hws[h][*inst], ids).pin_current_thread_to();
                    } else {
                        pins.push((h, *inst, ids.clone()));
                    }
                    observe.push(h);
                }
            }
            if observe.is_empty() {
                continue;
            }
            // Thread 1 pins and looks at itself; thread 0 looks at itself afterwards.
            match ask(Cmd::Step { pins, observe: observe.clone() }) {
                Some(theirs) => {
                    for (h, t) in observe.iter().zip(theirs) {
                        let m = [LibView::take(&hws[*h][0]), LibView::take(&hws[*h][1])];
                        outs[*h].push([m, t]);
                    }
                }
                None => dead = true,
            }
        }
        if dead {
            drop(cmd_tx);
            let msg = match t1.join() {
                Err(p) => format!("thread 1 panicked: {}", panic_text(p)),
                Ok(()) => "thread 1 stopped answering".to_string(),
            };
            if group.len() == 1 {
                let _ = results.send(Err(msg));
            }
            return;
        }
        drop(hws);
        for o in outs {
            if results.send(Ok(o)).is_err() {
                break 'groups;
            }
        }
    }
    drop(cmd_tx);
    let _ = t1.join();
}

/// Executes the histories in order on one thread pair, `lanes` at a time. If a group kills the
/// pair, its histories are re-run one by one (each on its own pair) so that exactly the guilty
/// history gets the panic text, and the rest of the batch continues on a new pair. The library
/// keeps a thread-local entry per (thread, instance) on the thread that did not drop the instance
/// last, which is why a pair is not kept for longer than a batch.
fn run_batch(jobs: &[FakeJob], lanes: usize) -> Vec<FakeResult> {
    let mut out: Vec<FakeResult> = Vec::with_capacity(jobs.len());
    while out.len() < jobs.len() {
        let rest = jobs[out.len()..].to_vec();
        let (tx, rx) = mpsc::channel();
        let t0 = spawn_small(move || pair_thread0(rest, lanes, tx));
        let joined = t0.join();
        out.extend(rx.try_iter());
        if out.len() >= jobs.len() {
            break;
        }
        // The pair died in the group that starts at out.len().
        if lanes <= 1 {
            out.push(Err(match joined {
                Err(p) => format!("thread 0 panicked: {}", panic_text(p)),
                Ok(()) => "HARNESS: thread pair produced nothing".into(),
            }));
        } else {
            let upto = jobs.len().min(out.len() + lanes);
            for j in &jobs[out.len()..upto] {
                out.extend(run_batch(std::slice::from_ref(j), 1));
            }
        }
    }
    out.truncate(jobs.len());
    out
}

/// Number of histories handed to one thread pair, and how many of them advance in lockstep.
const HISTORIES_PER_PAIR: usize = 256;
const LANES: usize = 32;

/// Judges every view of one executed history against the last-pin reference.
fn judge_fake(job: &FakeJob, views: &[Views], acc: &mut Acc) -> Vec<(String, String)> {
    let (ft, steps) = (&job.ft, &job.steps);
    // Index of the step a view was taken after (0 = before any step).
    let offset = usize::from(!job.initial);
    let mut found = Vec::new();
    let topos = [ft.topo(0), ft.topo(1)];
    let all_ids = topos[0].ids();
    // Reference: last pin per (thread, instance).
    let mut last: [[Option<Vec<u32>>; 2]; 2] = Default::default();
    for (k, v) in views.iter().enumerate() {
        let k = k + offset;
        let actor = if k == 0 {
            None
        } else {
            let (t, i, s) = &steps[k - 1];
            last[*t][*i] = Some(s.clone());
            Some((*t, *i))
        };
        for t in 0..2 {
            for i in 0..2 {
                let mut bad = Vec::new();
                let l = last[t][i].as_deref();
                let tp = judge(&topos[i], l, &all_ids, &v[t][i], &mut bad);
                let own = match l {
                    None => "never-pinned",
                    Some(s) => topos[i].shape(s),
                };
                // Which (thread, instance) the step just before this observation acted on, seen
                // from the observed pair: tells a stale/own-bookkeeping bug from a leak.
                let rel = match actor {
                    None => "before-any-pin",
                    Some((at, ai)) if at == t && ai == i => "after-own-pin",
                    Some((at, _)) if at == t => "after-pin-of-other-instance-on-same-thread",
                    Some((_, ai)) if ai == i => "after-pin-of-same-instance-on-other-thread",
                    Some(_) => "after-pin-of-other-instance-on-other-thread",
                };
                for (field, detail) in bad {
                    found.push((
                        format!("fake/{field}/{own}/{rel}"),
                        format!(
                            "topology {}, history {steps:?}, after step {k}: thread {t} asking instance {i} (its last pin there: {l:?}): {field}: {detail}",
                            ft.json()
                        ),
                    ));
                }
                acc.outcome(&format!("fake:{own}:{tp}"));
                acc.count("fake_views_judged", 1);
            }
        }
    }
    found
}

fn fake_replay_json(job: &FakeJob) -> Value {
    json!({
        "part": "fake", "ids": job.ft.ids, "regions0": job.ft.regions[0], "regions1": job.ft.regions[1],
        "steps": job.steps.iter().map(|(t, i, s)| json!([t, i, s])).collect::<Vec<_>>(),
    })
}

/// Executes and judges a batch of histories. `alone`: every history gets its own brand-new
/// thread pair (replay); otherwise the batch shares one pair.
fn cases_fake(jobs: &[FakeJob], alone: bool, acc: &mut Acc) {
    let results: Vec<FakeResult> = if alone { jobs.iter().flat_map(|j| run_batch(std::slice::from_ref(j), 1)).collect() } else { run_batch(jobs, LANES) };
    for (job, first) in jobs.iter().zip(&results) {
        let (ft, steps) = (&job.ft, &job.steps);
        acc.evaluations += 1;
        acc.hashes.push(vcommon::hash_str(&format!("fake|{:?}|{:?}|{steps:?}", ft.ids, ft.regions[0])));
        let mut found = match first {
            Ok(views) => judge_fake(job, views, acc),
            Err(msg) => vec![("fake/panic".to_string(), format!("history {steps:?} on {}: {msg}", ft.json()))],
        };
        // (Only while the witness lists of these keys are still filling up: a broken library
        // yields violations by the hundred thousand.)
        let worth = found.iter().any(|f| acc.per_key.get(&f.0).copied().unwrap_or(0) < MAX_WITNESSES_PER_KEY);
        if !found.is_empty() && !alone && worth {
            // Seen on a shared thread pair: say whether the history alone (brand-new threads) shows it.
            let mut scratch = Acc::default();
            let again = match run_batch(std::slice::from_ref(job), 1).pop() {
                Some(Ok(views)) => judge_fake(job, &views, &mut scratch),
                Some(Err(msg)) => vec![("fake/panic".to_string(), msg)],
                None => Vec::new(),
            };
            let keys: BTreeSet<&String> = again.iter().map(|f| &f.0).collect();
            for f in &mut found {
                let note = if keys.contains(&f.0) { "reproduces on brand-new threads" } else { "NOT reproduced on brand-new threads: needs the other histories of the shared thread pair" };
                f.1 = format!("{} [{note}]", f.1);
            }
        }
        for (key, summary) in found {
            acc.violation(key, summary, fake_replay_json(job));
        }
        if let Ok(views) = first {
            if steps.len() == 3 && steps[0].0 != steps[1].0 && steps[0].1 != steps[2].1 && ft.ids.len() >= 3 {
                let last = views.last().expect("HARNESS: one view per step");
                acc.sample("fake", || {
                    json!({"case": fake_replay_json(job), "views_after_last_step": {
                        "thread0_instance0": last[0][0].json(), "thread0_instance1": last[0][1].json(),
                        "thread1_instance0": last[1][0].json(), "thread1_instance1": last[1][1].json()}})
                });
            }
        }
    }
}

/// Order sweep on fake hardware: a brand-new thread pins to the processors `order` of instance 0,
/// handed to `take_exact` in exactly this order (the other families build their sets with
/// `filter()`, which keeps the inventory's order - grouped by memory region), then the library's
/// view is judged like after any other pin. Catches bookkeeping that depends on where in the set a
/// processor stands (e.g. "same region" decided from the two ends of the set).
fn case_fake_order(ft: &FakeTopo, order: &[u32], acc: &mut Acc) {
    acc.evaluations += 1;
    acc.hashes.push(vcommon::hash_str(&format!("fake_order|{:?}|{:?}|{order:?}", ft.ids, ft.regions[0])));
    let hw = ft.build(0);
    let topo = ft.topo(0);
    let order_v = order.to_vec();
    let hw2 = hw.clone();
    let res = std::thread::spawn(move || {
        std::panic::catch_unwind(std::panic::AssertUnwindSafe(|| {
            let all = hw2.all_processors();
            let mut ne = all.processors().clone();
            let procs: Vec<_> = order_v.iter().map(|id| all.processors().iter().find(|p| p.id() == *id).expect("HARNESS: id in inventory").clone()).collect();
            ne.head = procs[0].clone();
            ne.tail = procs[1..].to_vec();
            let set = all.to_builder().take_exact(ne);
            let got: Vec<u32> = set.processors().iter().map(|p| p.id()).collect();
            assert_eq!(got, order_v, "HARNESS: take_exact() did not keep the requested order");
            set.pin_current_thread_to();
            LibView::take(&hw2)
        }))
    })
    .join()
    .expect("HARNESS: order-sweep thread");
    let mut sorted = order.to_vec();
    sorted.sort_unstable();
    let replay = json!({"part": "fake_order", "ids": ft.ids, "regions0": ft.regions[0], "regions1": ft.regions[1], "order": order});
    match res {
        Ok(view) => {
            let mut bad = Vec::new();
            let tp = judge(&topo, Some(&sorted), &topo.ids(), &view, &mut bad);
            acc.outcome(&format!("fake_order:{tp}"));
            acc.count("fake_order_views_judged", 1);
            for (field, detail) in bad {
                acc.violation(format!("fake_order/{field}"), format!("topology {}, brand-new thread pinned to take_exact({order:?}): {field}: {detail}", ft.json()), replay.clone());
            }
        }
        Err(p) => acc.violation("fake_order/panic".to_string(), format!("take_exact({order:?}) + pin on {}: {}", ft.json(), vcommon::panic_message(&*p)), replay),
    }
}

/// Every ordered selection (permutation of every subset with at least two members) of `ids`.
fn ordered_selections(ids: &[u32]) -> Vec<Vec<u32>> {
    fn rec(ids: &[u32], cur: &mut Vec<u32>, out: &mut Vec<Vec<u32>>) {
        if cur.len() >= 2 {
            out.push(cur.clone());
        }
        for id in ids {
            if !cur.contains(id) {
                cur.push(*id);
                rec(ids, cur, out);
                cur.pop();
            }
        }
    }
    let mut out = Vec::new();
    rec(ids, &mut Vec::new(), &mut out);
    out
}

/// One block of the fake enumeration: every sequence of exactly `len` steps on one topology.
struct FakeBlock {
    ft: FakeTopo,
    actions: Vec<Step>,
    len: usize,
    first: usize,
    count: usize,
}

fn fake_blocks(thorough: bool) -> (Vec<FakeBlock>, usize) {
    let mut blocks = Vec::new();
    let mut total = 0_usize;
    for scheme in 0..2 {
        for n in 1..=4_usize {
            for assign in 0..(1_u32 << n) {
                // The second instance is the mirror image of the first, so the assignments a and
                // !a describe the same pair of instances in the other creation order. The quick
                // tier enumerates each such pair once (the first listed processor is in the first
                // region of instance 0 and in the second region of instance 1).
                if !thorough && assign & 1 == 1 {
                    continue;
                }
                let ft = FakeTopo::new(n, assign, scheme);
                let mut actions = Vec::new();
                for t in 0..2 {
                    for i in 0..2 {
                        for mask in 1..(1_u32 << n) {
                            actions.push((t, i, ft.subset(mask)));
                        }
                    }
                }
                // Quick tier: length 3 only for the dense-id topologies of up to 3 processors.
                let max_len = if thorough || (n <= 3 && scheme == 0) { 3 } else { 2 };
                for len in 1..=max_len {
                    let count = actions.len().pow(len as u32);
                    blocks.push(FakeBlock { ft: ft.clone(), actions: actions.clone(), len, first: total, count });
                    total += count;
                }
            }
        }
    }
    (blocks, total)
}

// ------------------------------------------------------------------------------------------
// Replay of one recorded case
// ------------------------------------------------------------------------------------------

fn u32s(v: &Value) -> Vec<u32> {
    v.as_array().map(|a| a.iter().filter_map(|x| x.as_u64()).map(|x| x as u32).collect()).unwrap_or_default()
}

fn replay(real: &Real, path: &str) -> ! {
    let text = std::fs::read_to_string(path).unwrap_or_else(|e| {
        println!("ENGINE-FAILURE property=C10 cannot read replay {path}: {e}");
        std::process::exit(2)
    });
    let v: Value = vcommon::serde_json::from_str(&text).unwrap_or(Value::Null);
    let r = if v.get("replay").is_some() { v["replay"].clone() } else { v };
    let mut acc = Acc::default();
    match r["part"].as_str().unwrap_or("") {
        "pin" => case_pin(real, &u32s(&r["set"]), &mut acc),
        "spawn_thread" => case_spawn_thread(real, &u32s(&r["set"]), &mut acc),
        "spawn_threads" => case_spawn_threads(real, &u32s(&r["set"]), &mut acc),
        "repin" => {
            let seq: Vec<Vec<u32>> = r["seq"].as_array().map(|a| a.iter().map(u32s).collect()).unwrap_or_default();
            case_repin(real, &seq, &mut acc);
        }
        "fake" => {
            let ft = FakeTopo { ids: u32s(&r["ids"]), regions: [u32s(&r["regions0"]), u32s(&r["regions1"])] };
            let steps: Vec<Step> = r["steps"]
                .as_array()
                .map(|a| a.iter().map(|s| (s[0].as_u64().unwrap_or(0) as usize, s[1].as_u64().unwrap_or(0) as usize, u32s(&s[2]))).collect())
                .unwrap_or_default();
            cases_fake(&[FakeJob { ft, steps, initial: true }], true, &mut acc);
        }
        "fake_order" => {
            let ft = FakeTopo { ids: u32s(&r["ids"]), regions: [u32s(&r["regions0"]), u32s(&r["regions1"])] };
            case_fake_order(&ft, &u32s(&r["order"]), &mut acc);
        }
        other => {
            println!("ENGINE-FAILURE property=C10 unknown replay part {other:?}");
            std::process::exit(2);
        }
    }
    println!("REPLAY case: {r}");
    for (k, s) in &acc.samples {
        println!("REPLAY observation[{k}]: {s}");
    }
    for (key, summary, _) in &acc.violations {
        println!("REPLAY VIOLATION key={key} :: {summary}");
    }
    println!("REPLAY verdict: {}", if acc.violations.is_empty() { "held" } else { "violated" });
    std::process::exit(i32::from(!acc.violations.is_empty()));
}

// ------------------------------------------------------------------------------------------

fn main() {
    let thorough = vcommon::is_thorough();
    let jobs = vcommon::default_parallelism().clamp(1, 16);
    let mut c = Check::new("C10", "exploration");
    let deadline = Instant::now() + Duration::from_secs(if thorough { 20 * 60 } else { 150 });

    // ---- universe ------------------------------------------------------------------------
    let process = os_affinity().unwrap_or_else(|e| c.engine_failure(&e));
    let hw = SystemHardware::current();
    let topo = Topo::of(hw);
    let inventory = topo.ids();
    let universe: Vec<u32> = process.iter().copied().filter(|id| inventory.contains(id)).take(16).collect();
    if universe.is_empty() {
        c.engine_failure(&format!("no processor is both allowed ({process:?}) and known to the library ({inventory:?})"));
    }
    if os_affinity().as_ref() != Ok(&process) {
        c.engine_failure("building the hardware inventory changed the main thread's affinity");
    }
    let n = universe.len();
    let real = Real { hw, topo, process: process.clone(), universe: universe.clone() };

    if let Ok(path) = std::env::var("VERIF_REPLAY") {
        replay(&real, &path);
    }

    // ---- enumerated families of PART 1 -----------------------------------------------------
    let low = n.min(8);
    let all_masks: Vec<u32> = (1..(1_u32 << n)).collect();
    let pin_masks: Vec<u32> = if thorough {
        all_masks.clone()
    } else {
        all_masks
            .iter()
            .copied()
            .filter(|m| *m < (1 << low) || m.count_ones() <= 2 || m.count_ones() as usize >= n.saturating_sub(1))
            .collect()
    };
    let spawn_masks: Vec<u32> = if thorough {
        all_masks.clone()
    } else {
        all_masks.iter().copied().filter(|m| *m < (1 << low) && m.count_ones() <= 3).collect()
    };
    // Re-pin sub-universe: 4 processors spread over the universe (lowest two, middle, highest).
    let mut sub: Vec<u32> = [0, 1, n / 2, n - 1].iter().filter(|i| **i < n).map(|i| universe[*i]).collect();
    sub.sort_unstable();
    sub.dedup();
    let sub_sets: Vec<Vec<u32>> = (1..(1_u32 << sub.len()))
        .map(|m| sub.iter().enumerate().filter(|(i, _)| m & (1 << i) != 0).map(|(_, id)| *id).collect())
        .collect();
    let mut repin_seqs: Vec<Vec<Vec<u32>>> = Vec::new();
    for len in 1..=3_u32 {
        for idx in 0..sub_sets.len().pow(len) {
            let mut k = idx;
            let mut seq = Vec::new();
            for _ in 0..len {
                seq.push(sub_sets[k % sub_sets.len()].clone());
                k /= sub_sets.len();
            }
            repin_seqs.push(seq);
        }
    }

    // PART 1 cases spend their time waiting (thread start-up, migration to the pinned processor),
    // not computing (a pin under load is one scheduling latency, tens of milliseconds): run four of
    // them per job slot, and run PART 1 side by side with the (computing) PART 2.
    let os_workers = (jobs * 4).min(16);
    // One family: (accumulator, timing entry, cap message).
    type Family = (Acc, (String, Value), Option<String>);
    // Development aid: C10_ONLY=fake,pin restricts the run to some families (the run is then
    // reported as not exhaustive).
    let only: Option<Vec<String>> = std::env::var("C10_ONLY").ok().map(|v| v.split(',').map(str::to_string).collect());
    let run = |name: &str, n_items: usize, workers: usize, chunk: usize, f: &(dyn Fn(usize, &mut Acc) + Sync)| -> Family {
        if only.as_ref().is_some_and(|o| !o.iter().any(|x| x == name)) {
            return (Acc::default(), (name.to_string(), json!("skipped (C10_ONLY)")), Some(format!("{name}: skipped by C10_ONLY")));
        }
        let t0 = Instant::now();
        let (acc, cut) = par_for(n_items, workers, chunk, deadline, || (), |i, (), acc| f(i, acc));
        let cap = cut.then(|| format!("{name}: wall-clock cap reached after {} cases ({n_items} work items)", acc.evaluations));
        let timing = (name.to_string(), json!({"cases": acc.evaluations, "wall_s": (t0.elapsed().as_secs_f64() * 10.0).round() / 10.0}));
        (acc, timing, cap)
    };
    let (blocks, fake_total) = fake_blocks(thorough);
    let batches = fake_total.div_ceil(HISTORIES_PER_PAIR);
    // Order sweep: every distinct fake topology x every ordered selection of >= 2 of its processors.
    let mut seen_topos = BTreeSet::new();
    let order_cases: Vec<(FakeTopo, Vec<u32>)> = blocks
        .iter()
        .filter(|b| seen_topos.insert((b.ft.ids.clone(), b.ft.regions[0].clone())))
        .flat_map(|b| ordered_selections(&b.ft.ids).into_iter().map(|o| (b.ft.clone(), o)))
        .collect();

    let families: Vec<Family> = std::thread::scope(|scope| {
        // ---- PART 2 (own thread; its workers never touch the real platform) ------------------
        let part2 = scope.spawn(|| {
            run("fake", batches, jobs, 1, &|bi, acc| {
                let from = bi * HISTORIES_PER_PAIR;
                let batch: Vec<FakeJob> = (from..fake_total.min(from + HISTORIES_PER_PAIR))
                    .map(|i| {
                        let b = &blocks[blocks.partition_point(|b| b.first + b.count <= i)];
                        let mut k = i - b.first;
                        let mut steps = Vec::with_capacity(b.len);
                        for _ in 0..b.len {
                            steps.push(b.actions[k % b.actions.len()].clone());
                            k /= b.actions.len();
                        }
                        // The views before the first step are taken in the one-step histories; in
                        // longer ones the three pairs that the first step does not touch are judged
                        // as "never pinned" right after it anyway.
                        FakeJob { ft: b.ft.clone(), initial: b.len == 1, steps }
                    })
                    .collect();
                cases_fake(&batch, false, acc);
            })
        });
        // ---- PART 1 --------------------------------------------------------------------------
        let mut out = vec![
            // Cheapest family first: it is then covered even when the cap cuts the big ones short.
            run("repin", repin_seqs.len(), os_workers * 2, 4, &|i, acc| case_repin(&real, &repin_seqs[i], acc)),
            run("pin", pin_masks.len(), os_workers, 8, &|i, acc| case_pin(&real, &real.ids_of(pin_masks[i]), acc)),
            run("spawn_thread", spawn_masks.len(), os_workers, 8, &|i, acc| case_spawn_thread(&real, &real.ids_of(spawn_masks[i]), acc)),
            run("spawn_threads", spawn_masks.len(), os_workers, 4, &|i, acc| case_spawn_threads(&real, &real.ids_of(spawn_masks[i]), acc)),
        ];
        out.push(part2.join().expect("HARNESS: PART 2 driver"));
        // ---- PART 2b: order sweep (after PART 2 so that it does not compete for its workers) --
        out.push(run("fake_order", order_cases.len(), jobs, 16, &|i, acc| case_fake_order(&order_cases[i].0, &order_cases[i].1, acc)));
        out
    });
    let mut total = Acc::default();
    let mut timing = BTreeMap::new();
    for (acc, (name, t), cap) in families {
        total.merge(acc);
        timing.insert(name, t);
        if let Some(cap) = cap {
            c.cap_hit(&cap);
        }
    }
    // The main thread never pinned either.
    {
        let view = LibView::take(hw);
        judge_unpinned_thread(&real, "main", "main", &os_affinity(), &view, &json!({"part": "main-thread-at-the-end"}), &mut total);
    }

    // ---- fold into the check -----------------------------------------------------------------
    if let Some(e) = total.engine.first() {
        c.engine_failure(e);
    }
    c.evaluations = total.evaluations;
    let n_hashes = total.hashes.len();
    for h in total.hashes.drain(..) {
        c.distinct_hash(h);
    }
    for (k, v) in &total.outcomes {
        c.outcome_n(k, *v);
    }
    c.max_samples = 12;
    for (_, s) in std::mem::take(&mut total.samples) {
        c.sample(s);
    }
    for (key, summary, replay) in std::mem::take(&mut total.violations) {
        c.violation(&key, &summary, replay);
    }

    // ---- anti-vacuity ------------------------------------------------------------------------
    let seen = |prefix: &str| total.outcomes.keys().any(|k| k.starts_with(prefix));
    if total.per_key.is_empty() {
        let mut missing = Vec::new();
        for want in [
            "fake:never-pinned:tp=none-unpinned",
            "fake:single:tp=exact",
            "fake:multi-one-region:",
            "fake:cross-region:",
            "real:pin:single:",
            "real:spawn_thread:",
            "real:spawn_threads:single:",
            "real:repin:",
        ] {
            if !seen(want) {
                missing.push(want);
            }
        }
        if n >= 2 && !(seen("real:pin:multi-one-region:") || seen("real:pin:cross-region:")) {
            missing.push("real:pin:<multi>");
        }
        if !missing.is_empty() {
            if c.caps_hit.is_empty() {
                c.engine_failure(&format!("anti-vacuity: outcome classes never observed: {missing:?}"));
            }
            // A family that the wall-clock cap cut off entirely is reported as not covered.
            c.cap_hit(&format!("outcome classes not reached before the cap: {missing:?}"));
        }
        if c.distinct_count() != n_hashes as u64 && c.caps_hit.is_empty() {
            c.engine_failure(&format!("enumeration produced duplicate cases: {} hashes, {} distinct", n_hashes, c.distinct_count()));
        }
    }

    c.rule = format!(
        "Every case is enumerated exactly once (distinct = distinct (family, set / sequence / topology+history) tuples, hashed); every case pins at least once, so none is trivial. \
         PART 1, real platform, universe U = {n} processors {universe:?} (process affinity ∩ inventory, capped at 16), each case on fresh threads started by never-pinned workers: \
         pin_current_thread_to for {} non-empty subsets of U ({}); spawn_thread and spawn_threads for {} subsets each ({}); \
         re-pin: all {} sequences of length <= 3 over the {} non-empty subsets of the sub-universe {sub:?}, with a live never-pinned sibling observed after every pin. \
         Kernel side read directly with libc::sched_getaffinity(0)/sched_getcpu(). \
         PART 2, fake hardware: {} topologies (n = 1..4 processors, every assignment to 2 regions, dense and sparse/non-monotone ids) x 2 independent instances (second one with mirrored regions) x 2 threads; \
         {}all histories of steps (thread, instance, non-empty subset) of length <= 3{}, executed on shared thread pairs in lockstep groups of {LANES} with brand-new instances per history; after every step (and before the first) all 4 (thread, instance) views judged against a last-pin-per-(thread, instance) reference; {} histories.",
        pin_masks.len(),
        if thorough { "all".to_string() } else { format!("all subsets of the first {low}, plus all subsets of U of size <= 2 and >= {}", n.saturating_sub(1)) },
        spawn_masks.len(),
        if thorough { "all".to_string() } else { format!("all subsets of size <= 3 of the first {low}") },
        repin_seqs.len(),
        sub_sets.len(),
        blocks.iter().map(|b| (b.ft.ids.clone(), b.ft.regions[0].clone())).collect::<BTreeSet<_>>().len(),
        if thorough { "" } else { "(quick: one of each two assignments that only swap the two instances) " },
        if thorough { "" } else { " (length <= 2 for the 4-processor topologies and for the sparse-id topologies of 3 processors)" },
        fake_total,
    );
    c.extra.insert("universe".into(), json!(universe));
    c.extra.insert("process_affinity".into(), json!(process));
    c.extra.insert("memory_regions_of_universe".into(), json!(real.topo.regions(&universe)));
    c.extra.insert("families".into(), json!(timing));
    c.extra.insert("counters".into(), json!(total.counters));
    c.extra.insert("worker_threads".into(), json!(jobs));
    if !total.per_key.is_empty() {
        c.extra.insert("witnesses_per_key".into(), json!(total.per_key));
    }
    c.assumptions.push("The kernel's sched_getaffinity/sched_getcpu answers are the ground truth for PART 1; nobody outside the harness changes the affinity of harness threads while it runs.".into());
    c.assumptions.push(format!(
        "The real machine exposes {} memory region(s) to the enumerated universe, so cross-region pins are only exercised on fake hardware (PART 2).",
        real.topo.regions(&universe).len()
    ));
    c.assumptions.push("thread_processors() after a multi-processor pin inside one region may be the pinned set or the whole region (only the region is remembered), and None after a cross-region pin; is_thread_*_pinned only know pins made through the library. Random answers of the fake platform (current processor of a thread not pinned to one processor) are only checked for membership.".into());
    c.assumptions.push("Configurations and pin histories are enumerated, schedules are not: nothing is claimed about migration between two reads beyond what the affinity mask makes stable.".into());
    c.finish();
}

//! C19 — benchmark history store: objects are write-once and appear atomically.
//!
//! Four exhaustively enumerated parts, all on the real `cbh_storage` local backend:
//!
//! * `crash`  — every crash point of one `put`/`put_overwrite` (named abort points through the
//!   `cfg(folo_verif)` hook; every file-system syscall entry through the ptrace injector, plus
//!   ENOSPC/EIO at each of them), for every store state × op × payload class; a fresh process
//!   inspects the store afterwards.
//! * `nocrash` — write-once and byte-identical read-back for every payload class.
//! * `keys`   — every key of up to N tokens over `a . / \ ~ NUL .cbh-tmp-`.
//! * `sched`  — all 20 interleavings of the three segments of two writers of one key (gated at
//!   the named points, one thread running at a time), a reader observing at every point.

mod sched;
mod tracer;

use std::collections::BTreeMap;
use std::path::{Path, PathBuf};
use std::process::Command;
use std::time::Duration;

use cbh_storage::{Storage, StorageError, StorageFacade};
use vcommon::serde_json::{Map, Value, json};

pub const KEY: &str = "v1/p/k.json";
pub const SIB_SAME: &str = "v1/p/sib.json";
pub const SIB_OTHER: &str = "v1/q/sib.json";
pub const TEMP_PREFIX: &str = ".cbh-tmp-";
pub const OLD: &[u8] = b"OLD object \x00\x01\xfe\xff { \"schema\": 1 } -- must survive untouched";
pub const SIB: &[u8] = b"sibling";

// ------------------------------------------------------------------------------------------
// Small shared pieces
// ------------------------------------------------------------------------------------------

pub fn rt() -> tokio::runtime::Runtime {
    tokio::runtime::Builder::new_current_thread().build().expect("tokio runtime")
}

pub fn store(root: &Path) -> StorageFacade {
    cbh_storage::build_storage(Some(root), &cbh_config::Config::default(), Path::new("/"), None)
        .expect("build_storage(local)")
}

fn xorshift_bytes(n: usize, mut s: u64) -> Vec<u8> {
    let mut v = Vec::with_capacity(n + 8);
    while v.len() < n {
        s ^= s << 13;
        s ^= s >> 7;
        s ^= s << 17;
        v.extend_from_slice(&s.to_le_bytes());
    }
    v.truncate(n);
    v
}

pub const PAYLOADS_QUICK: &[&str] = &["empty", "1B", "64KiB", "all256", "gzipmagic"];
pub const QUICK_PTRACE_PAYLOADS: &[&str] = &["empty", "64KiB"];
pub const PAYLOADS_THOROUGH: &[&str] = &["empty", "1B", "64KiB", "3MiB", "all256", "gzipmagic"];

/// Deterministic payload of a class; incompressible for the large classes so that the stored
/// (gzip) file really is that large and is written in more than one chunk.
pub fn payload(class: &str) -> Vec<u8> {
    match class {
        "empty" => Vec::new(),
        "1B" => vec![0x5a],
        "64KiB" => xorshift_bytes(64 * 1024, 0x9e37_79b9_7f4a_7c15),
        "3MiB" => xorshift_bytes(3 * 1024 * 1024, 0xdead_beef_cafe_f00d),
        "all256" => (0..=255u8).collect(),
        "gzipmagic" => {
            // Looks like the start of a gzip member (and of the store's own header) but is not one.
            let mut v = vec![0x1f, 0x8b, 0x08, 0x00, 0x00, 0x00, 0x00, 0x00, 0x00, 0xff];
            v.extend_from_slice(b"not a deflate stream");
            v.extend_from_slice(&[0u8; 8]);
            v
        }
        other => panic!("unknown payload class {other}"),
    }
}

pub fn err_class(e: &StorageError) -> String {
    if e.already_existing_key().is_some() {
        return "exists".into();
    }
    if e.is_not_found() {
        return "notfound".into();
    }
    let text = format!("{e}").replace('\n', " | ");
    let short: String = text.chars().take(200).collect();
    format!("err:{short}")
}

fn tmp_base() -> PathBuf {
    if let Ok(v) = std::env::var("C19_TMP") {
        return PathBuf::from(v);
    }
    vcommon::verif_root().join("target").join("tmp").join(format!("c19-{}", std::process::id()))
}

/// Accumulator a child job sends back and the parent merges into the `Check`.
#[derive(Default)]
pub struct Acc {
    pub evals: u64,
    pub hashes: Vec<u64>,
    pub outcomes: BTreeMap<String, u64>,
    pub violations: Vec<Value>,
    pub samples: Vec<Value>,
    pub engine: Vec<String>,
    pub extra: Map<String, Value>,
}

impl Acc {
    pub fn outcome(&mut self, c: &str) {
        *self.outcomes.entry(c.to_string()).or_insert(0) += 1;
    }
    pub fn violation(&mut self, key: &str, summary: String, replay: Value) {
        self.violations.push(json!({"key": key, "summary": summary, "replay": replay}));
    }
    pub fn to_json(&self) -> Value {
        json!({
            "evals": self.evals,
            "hashes": self.hashes.iter().map(|h| h.to_string()).collect::<Vec<_>>(),
            "outcomes": self.outcomes,
            "violations": self.violations,
            "samples": self.samples,
            "engine": self.engine,
            "extra": self.extra,
        })
    }
}

// ------------------------------------------------------------------------------------------
// Child: writer (performs exactly one put between two marker syscalls)
// ------------------------------------------------------------------------------------------

fn job_writer(root: &str, op: &str, class: &str) -> Value {
    // A crash must not leave core files around.
    let lim = libc::rlimit { rlim_cur: 0, rlim_max: 0 };
    // SAFETY: plain setrlimit with a valid pointer.
    unsafe { libc::setrlimit(libc::RLIMIT_CORE, &lim) };
    let rt = rt();
    let st = store(Path::new(root));
    let bytes = payload(class);
    // SAFETY: close(2) of a descriptor number that is never open; returns EBADF. It is the
    // marker the ptrace injector recognises.
    unsafe { libc::close(tracer::MARK_BEGIN) };
    let r = match op {
        "put" => rt.block_on(st.put(KEY, &bytes)),
        "overwrite" => rt.block_on(st.put_overwrite(KEY, &bytes)),
        other => panic!("unknown op {other}"),
    };
    // SAFETY: as above.
    unsafe { libc::close(tracer::MARK_END) };
    json!({"result": match &r { Ok(()) => "ok".to_string(), Err(e) => err_class(e) }})
}

// ------------------------------------------------------------------------------------------
// Child: inspector (a fresh process looks at the store through the public API)
// ------------------------------------------------------------------------------------------

fn walk_files(dir: &Path, out: &mut Vec<PathBuf>) {
    let Ok(rd) = std::fs::read_dir(dir) else { return };
    for e in rd.flatten() {
        let p = e.path();
        match e.file_type() {
            Ok(t) if t.is_dir() => walk_files(&p, out),
            _ => out.push(p),
        }
    }
}

fn job_inspect(root: &str, class: &str) -> Value {
    let rt = rt();
    let st = store(Path::new(root));
    let new = payload(class);
    let get = match rt.block_on(st.get(KEY)) {
        Ok(b) if b == new => "new".to_string(),
        Ok(b) if b == OLD => "old".to_string(),
        Ok(b) => format!("garbage:len={}", b.len()),
        Err(e) => err_class(&e),
    };
    let mut lists = Map::new();
    for prefix in ["", "v1/", "v1/p/", "v1/p/k", "v1/q/", "v1/p/.cbh"] {
        let v = match rt.block_on(st.list(prefix)) {
            Ok(keys) => json!(keys),
            Err(e) => json!(format!("error {}", err_class(&e))),
        };
        lists.insert(prefix.to_string(), v);
    }
    let mut sib = Map::new();
    for s in [SIB_SAME, SIB_OTHER] {
        let v = match rt.block_on(st.get(s)) {
            Ok(b) if b == SIB => "intact".to_string(),
            Ok(_) => "changed".to_string(),
            Err(e) => err_class(&e),
        };
        sib.insert(s.to_string(), json!(v));
    }
    let mut files = Vec::new();
    walk_files(Path::new(root), &mut files);
    let temps = files
        .iter()
        .filter(|p| p.file_name().and_then(|n| n.to_str()).is_some_and(|n| n.starts_with(TEMP_PREFIX)))
        .count();
    json!({"get": get, "lists": lists, "siblings": sib, "disk_files": files.len(), "disk_temps": temps})
}

fn spawn_self(job: &str, env: &[(&str, String)]) -> Command {
    let mut c = Command::new(std::env::current_exe().expect("current_exe"));
    c.env("VERIF_JOB", job);
    c.env_remove("FOLO_VERIF_CRASH_AT");
    c.env("RUST_BACKTRACE", "0");
    for (k, v) in env {
        c.env(k, v);
    }
    c
}

fn result_of(stdout: &str) -> Option<Value> {
    stdout
        .lines()
        .rev()
        .find_map(|l| l.strip_prefix("@@RESULT "))
        .and_then(|s| vcommon::serde_json::from_str(s).ok())
}

// ------------------------------------------------------------------------------------------
// Child: one crash/fault group = all crash points of (engine, state, op, payload, fault)
// ------------------------------------------------------------------------------------------

/// Prepares a store directory for `state` and returns its root.
fn prepare(dir: &Path, state: &str) -> PathBuf {
    let _ = std::fs::remove_dir_all(dir);
    let root = dir.join("store");
    let rt = rt();
    match state {
        // The root directory itself does not exist yet.
        "absent-fresh" => {
            std::fs::create_dir_all(dir).expect("mkdir case dir");
        }
        "absent" | "present" => {
            let st = store(&root);
            rt.block_on(st.put(SIB_SAME, SIB)).expect("prepare sibling");
            rt.block_on(st.put(SIB_OTHER, SIB)).expect("prepare sibling");
            if state == "present" {
                rt.block_on(st.put(KEY, OLD)).expect("prepare old object");
            }
        }
        other => panic!("unknown state {other}"),
    }
    root
}

struct CaseIn<'a> {
    engine: &'a str,
    state: &'a str,
    op: &'a str,
    class: &'a str,
    fault: &'a str,
    /// Crash point: hook name, or 1-based syscall index rendered with its name.
    point: String,
    /// Whether the crash/fault actually fired.
    fired: bool,
    /// `Some(result)` if the writer returned from the put and reported its result.
    returned: Option<String>,
    /// The new object must be visible (the put returned Ok or the crash was after the publish).
    must_be_new: bool,
    job: String,
}

/// The oracle applied after every crash/fault case. Returns the outcome class.
fn judge(acc: &mut Acc, c: &CaseIn<'_>, insp: &Value) {
    let desc = format!(
        "{} state={} op={} payload={} fault={} point={} fired={} returned={:?}",
        c.engine, c.state, c.op, c.class, c.fault, c.point, c.fired, c.returned
    );
    let replay = json!({"part": "crash", "job": c.job, "point": c.point, "inspector": insp});
    let get = insp["get"].as_str().unwrap_or("?").to_string();
    let present = c.state == "present";
    let killed = c.fault == "kill" || c.fault == "abort";

    // 1. The key holds exactly the old object or exactly the complete new one.
    let state_class = match get.as_str() {
        "new" => "new-complete",
        "old" if present => "old-intact",
        "notfound" if !present => "absent",
        "notfound" => {
            acc.violation("crash-existing-object-lost", format!("get reports not-found for a key that held an object: {desc}"), replay.clone());
            "VIOLATION-lost"
        }
        _ => {
            acc.violation("reader-sees-partial-or-corrupt-object", format!("get returned {get}: {desc}"), replay.clone());
            "VIOLATION-corrupt"
        }
    };
    // 2. Write-once: without overwrite an existing object is never replaced.
    if present && c.op == "put" && get == "new" {
        acc.violation("put-replaced-existing-object", format!("plain put replaced an existing object: {desc}"), replay.clone());
    }
    if present && c.op == "put" && c.returned.as_deref().is_some_and(|r| r != "exists") && c.fault != "ENOSPC" && c.fault != "EIO" {
        acc.violation("put-on-existing-key-did-not-fail", format!("put on an existing key returned {:?}: {desc}", c.returned), replay.clone());
    }
    if present && c.op == "put" && c.returned.as_deref() == Some("ok") {
        acc.violation("put-on-existing-key-did-not-fail", format!("put on an existing key returned ok: {desc}"), replay.clone());
    }
    // 3. A reported success (or a crash after the publishing step) means the object is there.
    if c.must_be_new && get != "new" {
        acc.violation("put-succeeded-but-object-missing", format!("the put had completed/published but get returned {get}: {desc}"), replay.clone());
    }
    // 4. Listings never show temporary files and agree with get.
    let mut expected: Vec<String> = Vec::new();
    if c.state != "absent-fresh" {
        expected.push(SIB_SAME.to_string());
        expected.push(SIB_OTHER.to_string());
    }
    if get == "new" || get == "old" {
        expected.push(KEY.to_string());
    }
    expected.sort();
    if let Some(lists) = insp["lists"].as_object() {
        for (prefix, v) in lists {
            let Some(arr) = v.as_array() else {
                acc.violation("list-failed-after-crash", format!("list({prefix:?}) -> {v}: {desc}"), replay.clone());
                continue;
            };
            let got: Vec<String> = arr.iter().filter_map(|x| x.as_str().map(str::to_string)).collect();
            if got.iter().any(|k| k.rsplit('/').next().is_some_and(|n| n.starts_with(TEMP_PREFIX))) {
                acc.violation("list-shows-temporary-file", format!("list({prefix:?}) = {got:?}: {desc}"), replay.clone());
                continue;
            }
            let want: Vec<String> = expected.iter().filter(|k| k.starts_with(prefix.as_str())).cloned().collect();
            let get_is_valid = matches!(get.as_str(), "new" | "old" | "notfound");
            if got != want && get_is_valid {
                acc.violation("list-disagrees-with-get", format!("list({prefix:?}) = {got:?}, expected {want:?}: {desc}"), replay.clone());
            }
        }
    }
    // 5. Neighbours are untouched.
    if c.state != "absent-fresh"
        && let Some(sibs) = insp["siblings"].as_object()
    {
        for (k, v) in sibs {
            if v.as_str() != Some("intact") {
                acc.violation("sibling-object-damaged", format!("{k} is {v}: {desc}"), replay.clone());
            }
        }
    }
    // Outcome classes (anti-vacuity) and coverage accounting.
    let temps = insp["disk_temps"].as_u64().unwrap_or(0);
    let mut class = String::from(state_class);
    if temps > 0 {
        class.push_str("+orphan-temp-hidden");
    }
    if !killed && c.fired && c.fault != "none" {
        class.push_str(match c.returned.as_deref() {
            Some("ok") => "/fault-absorbed-put-ok",
            Some(_) => "/put-failed-cleanly",
            None => "/writer-died",
        });
    }
    if !c.fired {
        class = format!("point-not-reached/{state_class}");
    }
    acc.outcome(&class);
    acc.evals += 1;
    if c.fired {
        acc.hashes.push(vcommon::hash_str(&format!(
            "{}|{}|{}|{}|{}|{}",
            c.engine, c.state, c.op, c.class, c.fault, c.point
        )));
    }
    if acc.samples.len() < 2 && c.fired {
        acc.samples.push(json!({"part": format!("crash-{}", c.engine), "case": desc, "get": get, "list_all": insp["lists"][""], "disk_temps": temps}));
    }
}

fn inspect(acc: &mut Acc, root: &Path, class: &str) -> Option<Value> {
    let out = spawn_self(&format!("inspect|{}|{class}", root.display()), &[]).output();
    match out {
        Ok(o) if o.status.success() => {
            let v = result_of(&String::from_utf8_lossy(&o.stdout));
            if v.is_none() {
                acc.engine.push("inspector printed no result".into());
            }
            v
        }
        Ok(o) => {
            // The inspector itself must never crash: a panic inside get/list is a reader failure.
            acc.engine.push(format!(
                "inspector exited with {:?}: {}",
                o.status,
                String::from_utf8_lossy(&o.stderr).chars().take(300).collect::<String>()
            ));
            None
        }
        Err(e) => {
            acc.engine.push(format!("cannot spawn inspector: {e}"));
            None
        }
    }
}

/// Points after which the new object has been published.
const PUBLISHED_POINTS: &[&str] = &["after-rename", "put-return"];

fn job_group(engine: &str, state: &str, op: &str, class: &str, fault: &str) -> Acc {
    let mut acc = Acc::default();
    let job = format!("group|{engine}|{state}|{op}|{class}|{fault}");
    let dir = tmp_base().join(format!("g-{engine}-{state}-{op}-{class}-{fault}"));
    let expect_ok = !(state == "present" && op == "put");

    if engine == "hook" {
        // Baseline without a crash, then every named point.
        let mut points: Vec<Option<&str>> = vec![None];
        points.extend(cbh_storage::verif_hook::POINTS.iter().map(|p| Some(*p)));
        for p in points {
            let root = prepare(&dir, state);
            let mut cmd = spawn_self(&format!("writer|{}|{op}|{class}", root.display()), &[]);
            if let Some(p) = p {
                cmd.env("FOLO_VERIF_CRASH_AT", format!("{p}:1"));
            }
            let out = match cmd.output() {
                Ok(o) => o,
                Err(e) => {
                    acc.engine.push(format!("cannot spawn writer: {e}"));
                    continue;
                }
            };
            use std::os::unix::process::ExitStatusExt;
            let aborted = out.status.signal() == Some(libc::SIGABRT);
            let returned = result_of(&String::from_utf8_lossy(&out.stdout))
                .and_then(|v| v["result"].as_str().map(str::to_string));
            if !aborted && returned.is_none() {
                acc.engine.push(format!("writer neither aborted nor reported ({:?}) in {job} point {p:?}", out.status));
                continue;
            }
            if let Some(r) = &returned
                && r.starts_with("err:")
            {
                acc.engine.push(format!("writer failed without an injected fault: {r} in {job}"));
            }
            let Some(insp) = inspect(&mut acc, &root, class) else { continue };
            let published = p.is_some_and(|p| PUBLISHED_POINTS.contains(&p));
            let c = CaseIn {
                engine,
                state,
                op,
                class,
                fault: if p.is_some() { "abort" } else { "none" },
                point: p.unwrap_or("no-crash").to_string(),
                fired: aborted || p.is_none(),
                returned: returned.clone(),
                must_be_new: (aborted && published) || returned.as_deref() == Some("ok"),
                job: job.clone(),
            };
            if p.is_none() && expect_ok && returned.as_deref() != Some("ok") {
                acc.engine.push(format!("baseline put did not succeed: {returned:?} in {job}"));
            }
            judge(&mut acc, &c, &insp);
        }
    } else {
        // ptrace engine. Run 0 counts the file-system syscalls of the put.
        let f = match fault {
            "kill" => tracer::Fault::Kill,
            "ENOSPC" => tracer::Fault::Errno(libc::ENOSPC),
            "EIO" => tracer::Fault::Errno(libc::EIO),
            other => panic!("unknown fault {other}"),
        };
        let root = prepare(&dir, state);
        let base = match tracer::run(spawn_self(&format!("writer|{}|{op}|{class}", root.display()), &[]), tracer::Fault::None, 0) {
            Ok(t) => t,
            Err(e) => {
                acc.engine.push(format!("tracer: {e} in {job}"));
                return acc;
            }
        };
        if !base.saw_begin || !base.saw_end || !base.unknown.is_empty() || base.matched.is_empty() {
            acc.engine.push(format!(
                "counting run unusable in {job}: begin={} end={} unknown syscalls={:?} matched={}",
                base.saw_begin, base.saw_end, base.unknown, base.matched.len()
            ));
            return acc;
        }
        let n = base.matched.len();
        acc.extra.insert(format!("syscalls {state}/{op}/{class}"), json!(base.matched.join(" ")));
        // The position of the publishing syscall (the last rename/link of the successful put).
        let publish = base.matched.iter().rposition(|s| s.starts_with("rename") || s.starts_with("link")).map(|i| i + 1);
        for k in 1..=n {
            let root = prepare(&dir, state);
            let t = match tracer::run(spawn_self(&format!("writer|{}|{op}|{class}", root.display()), &[]), f, k) {
                Ok(t) => t,
                Err(e) => {
                    acc.engine.push(format!("tracer: {e} in {job} k={k}"));
                    continue;
                }
            };
            if t.injected_at != Some(k) || t.matched[..k] != base.matched[..k] || !t.unknown.is_empty() {
                acc.engine.push(format!(
                    "syscall sequence not reproducible in {job} k={k}: counting run {:?}, this run {:?}, unknown {:?}",
                    base.matched, t.matched, t.unknown
                ));
                continue;
            }
            let returned = result_of(&t.stdout).and_then(|v| v["result"].as_str().map(str::to_string));
            if fault == "kill" && (t.signal != Some(libc::SIGKILL) || returned.is_some()) {
                acc.engine.push(format!("writer survived SIGKILL in {job} k={k}"));
                continue;
            }
            if fault != "kill" && returned.is_none() {
                // An injected error must surface as an error value, not as a crash of the writer.
                acc.violation(
                    "writer-crashed-on-io-error",
                    format!("{fault} at syscall {k} ({}) made the writer die (exit {:?} signal {:?}): {job}", base.matched[k - 1], t.exit_code, t.signal),
                    json!({"part": "crash", "job": job, "k": k}),
                );
            }
            let Some(insp) = inspect(&mut acc, &root, class) else { continue };
            let c = CaseIn {
                engine,
                state,
                op,
                class,
                fault,
                point: format!("{k}/{n}:{}", base.matched[k - 1]),
                fired: true,
                returned: returned.clone(),
                must_be_new: returned.as_deref() == Some("ok") || (fault == "kill" && expect_ok && publish.is_some_and(|p| k > p)),
                job: job.clone(),
            };
            judge(&mut acc, &c, &insp);
        }
        // The counting run itself is the "crash after the last step" case.
        if fault == "kill" {
            let returned = result_of(&base.stdout).and_then(|v| v["result"].as_str().map(str::to_string));
            let root = root_after_base(&dir, state, op, class, &mut acc);
            if let Some(insp) = inspect(&mut acc, &root, class) {
                let c = CaseIn {
                    engine,
                    state,
                    op,
                    class,
                    fault: "none",
                    point: format!("after-all-{n}"),
                    fired: true,
                    returned: returned.clone(),
                    must_be_new: returned.as_deref() == Some("ok"),
                    job: job.clone(),
                };
                if expect_ok && returned.as_deref() != Some("ok") {
                    acc.engine.push(format!("baseline put did not succeed: {returned:?} in {job}"));
                }
                judge(&mut acc, &c, &insp);
            }
        }
    }
    let _ = std::fs::remove_dir_all(&dir);
    acc
}

/// Re-runs the un-faulted put under the tracer on a fresh store (the loop above reused the
/// directory) and returns the store root for inspection.
fn root_after_base(dir: &Path, state: &str, op: &str, class: &str, acc: &mut Acc) -> PathBuf {
    let root = prepare(dir, state);
    if let Err(e) = tracer::run(spawn_self(&format!("writer|{}|{op}|{class}", root.display()), &[]), tracer::Fault::None, 0) {
        acc.engine.push(format!("tracer: {e}"));
    }
    root
}

// ------------------------------------------------------------------------------------------
// Child: no-crash semantics
// ------------------------------------------------------------------------------------------

fn job_nocrash(class: &str) -> Acc {
    let mut acc = Acc::default();
    let rt = rt();
    let new = payload(class);
    let other = b"another object".to_vec();
    for state in ["absent-fresh", "absent", "present"] {
        let dir = tmp_base().join(format!("n-{class}-{state}"));
        let root = prepare(&dir, state);
        let st = store(&root);
        let replay = json!({"part": "nocrash", "job": format!("nocrash|{class}"), "state": state});
        let desc = format!("state={state} payload={class}");
        let r = rt.block_on(st.put(KEY, &new));
        let got = rt.block_on(st.get(KEY));
        if state == "present" {
            match &r {
                Err(e) if e.already_existing_key() == Some(KEY) => acc.outcome("put-existing-rejected"),
                other_r => acc.violation("put-on-existing-key-did-not-fail", format!("put on an existing key returned {:?}: {desc}", other_r.as_ref().map_err(err_class)), replay.clone()),
            }
            if got.as_deref().ok() != Some(OLD) {
                acc.violation("put-replaced-existing-object", format!("after a rejected put the key no longer holds the old object: {desc}"), replay.clone());
            }
        } else {
            if r.is_err() {
                acc.violation("put-on-free-key-failed", format!("{:?}: {desc}", r.as_ref().map_err(err_class)), replay.clone());
            }
            if got.as_deref().ok() != Some(new.as_slice()) {
                acc.violation("object-not-byte-identical", format!("read-back differs: {desc}"), replay.clone());
            } else {
                acc.outcome("roundtrip-byte-identical");
            }
            // Second put of the same key must fail and change nothing.
            let r2 = rt.block_on(st.put(KEY, &other));
            if r2.as_ref().err().and_then(|e| e.already_existing_key()) != Some(KEY) {
                acc.violation("put-on-existing-key-did-not-fail", format!("second put returned {:?}: {desc}", r2.as_ref().map_err(err_class)), replay.clone());
            }
            if rt.block_on(st.get(KEY)).ok().as_deref() != Some(new.as_slice()) {
                acc.violation("put-replaced-existing-object", format!("second put changed the object: {desc}"), replay.clone());
            }
        }
        acc.evals += 1;
        acc.hashes.push(vcommon::hash_str(&format!("nocrash|put|{state}|{class}")));
        // Overwrite replaces in full, whatever was there.
        let r3 = rt.block_on(st.put_overwrite(KEY, &new));
        if r3.is_err() || rt.block_on(st.get(KEY)).ok().as_deref() != Some(new.as_slice()) {
            acc.violation("overwrite-did-not-replace", format!("put_overwrite -> {:?}: {desc}", r3.as_ref().map_err(err_class)), replay.clone());
        } else {
            acc.outcome("overwrite-replaced");
        }
        let listed = rt.block_on(st.list("v1/p/k")).unwrap_or_default();
        if listed != vec![KEY.to_string()] {
            acc.violation("list-disagrees-with-get", format!("list(\"v1/p/k\") = {listed:?}: {desc}"), replay.clone());
        }
        let mut files = Vec::new();
        walk_files(&root, &mut files);
        if files.iter().any(|p| p.file_name().and_then(|n| n.to_str()).is_some_and(|n| n.starts_with(TEMP_PREFIX))) {
            acc.outcome("temp-left-after-successful-put");
        }
        acc.evals += 1;
        acc.hashes.push(vcommon::hash_str(&format!("nocrash|overwrite|{state}|{class}")));
        let _ = std::fs::remove_dir_all(&dir);
    }
    acc
}

// ------------------------------------------------------------------------------------------
// Child: keys
// ------------------------------------------------------------------------------------------

const TOKENS: &[&str] = &["a", ".", "/", "\\", "~", "\0", TEMP_PREFIX];

fn job_keys(max_len: usize, first: usize) -> Acc {
    let mut acc = Acc::default();
    let rt = rt();
    let sandbox = tmp_base().join(format!("k-{max_len}-{first}"));
    let _ = std::fs::remove_dir_all(&sandbox);
    let root = sandbox.join("r").join("root");
    std::fs::create_dir_all(&root).expect("mkdir root");
    // Decoys that an escaping key such as "../a" would reach (valid objects, so a wrongly
    // resolved get would succeed rather than fail on the gzip magic).
    let decoy_store = store(&sandbox.join("decoy-src"));
    rt.block_on(decoy_store.put("d", b"DECOY")).expect("decoy");
    let decoy_bytes = std::fs::read(sandbox.join("decoy-src").join("d")).expect("decoy bytes");
    let decoys = [sandbox.join("a"), sandbox.join("r").join("a"), sandbox.join("r").join("~"), sandbox.join("r").join(".cbh-tmp-")];
    for d in &decoys {
        std::fs::write(d, &decoy_bytes).expect("write decoy");
    }
    let canon_root = root.canonicalize().expect("canonical root");
    let st = store(&root);
    let body = b"key-test-object".to_vec();

    // Enumerate every token string of length 1..=max_len whose first token index is `first`.
    let mut stack: Vec<Vec<usize>> = vec![vec![first]];
    while let Some(toks) = stack.pop() {
        if toks.len() < max_len {
            for t in 0..TOKENS.len() {
                let mut n = toks.clone();
                n.push(t);
                stack.push(n);
            }
        }
        let key: String = toks.iter().map(|t| TOKENS[*t]).collect();
        let shown = format!("{key:?}");
        let replay = json!({"part": "keys", "job": format!("keys|{max_len}|{first}"), "key_tokens": toks});
        acc.evals += 1;
        acc.hashes.push(vcommon::hash_str(&format!("key|{shown}")));

        // Checks that nothing exists outside the root and returns the files inside it.
        let outside_violation = |acc: &mut Acc, after: &str| -> Vec<PathBuf> {
            let mut files = Vec::new();
            walk_files(&sandbox, &mut files);
            let mut inside = Vec::new();
            for f in files {
                if decoys.contains(&f) {
                    if std::fs::read(&f).ok().as_deref() != Some(decoy_bytes.as_slice()) {
                        acc.violation("key-escapes-store-root", format!("key {shown}: {after} modified {} outside the root", f.display()), replay.clone());
                        let _ = std::fs::write(&f, &decoy_bytes);
                    }
                    continue;
                }
                if f.starts_with(sandbox.join("decoy-src")) {
                    continue;
                }
                let canon = f.canonicalize().unwrap_or_else(|_| f.clone());
                if canon.starts_with(&canon_root) && canon != canon_root {
                    inside.push(f);
                } else {
                    acc.violation("key-escapes-store-root", format!("key {shown}: {after} created {} outside the root", f.display()), replay.clone());
                    let _ = std::fs::remove_file(&f);
                }
            }
            for d in &decoys {
                if !d.is_file() {
                    acc.violation("key-escapes-store-root", format!("key {shown}: {after} removed {} outside the root", d.display()), replay.clone());
                    let _ = std::fs::write(d, &decoy_bytes);
                }
            }
            inside
        };

        // Read / delete through the key on an empty store: must find nothing.
        if let Ok(b) = rt.block_on(st.get(&key)) {
            acc.violation("key-escapes-store-root", format!("key {shown}: get on an empty store returned {} bytes", b.len()), replay.clone());
        }
        if rt.block_on(st.delete(&key)).is_ok() {
            acc.violation("key-escapes-store-root", format!("key {shown}: delete on an empty store succeeded"), replay.clone());
        }
        let _ = outside_violation(&mut acc, "get/delete");

        let r = rt.block_on(st.put(&key, &body));
        let inside = outside_violation(&mut acc, "put");
        match r {
            Err(e) => {
                if !inside.is_empty() {
                    acc.violation("rejected-key-left-files", format!("key {shown}: put failed ({}) but left {inside:?}", err_class(&e)), replay.clone());
                }
                let text = format!("{e}");
                acc.outcome(if text.contains("invalid storage key") {
                    "key-rejected-by-validation"
                } else {
                    "key-rejected-by-os"
                });
                // The overwrite path must reject it too.
                if rt.block_on(st.put_overwrite(&key, &body)).is_ok() {
                    acc.outcome("key-accepted-by-overwrite-only");
                }
                let _ = outside_violation(&mut acc, "put_overwrite");
            }
            Ok(()) => {
                if inside.len() != 1 {
                    acc.violation("key-put-file-count", format!("key {shown}: put created {} files under the root: {inside:?}", inside.len()), replay.clone());
                }
                if rt.block_on(st.get(&key)).ok().as_deref() != Some(body.as_slice()) {
                    acc.violation("object-not-byte-identical", format!("key {shown}: get after put does not return the object"), replay.clone());
                }
                let listed = rt.block_on(st.list("")).unwrap_or_default();
                let reserved = key.rsplit('/').next().is_some_and(|n| n.starts_with(TEMP_PREFIX));
                if reserved {
                    // The reserved prefix is documented as "never a real key"; the store accepts
                    // it but hides it from listings. Recorded, not demanded by the property.
                    acc.outcome(if listed.is_empty() { "key-accepted-reserved-prefix-hidden-from-list" } else { "key-accepted-reserved-prefix-listed" });
                } else if listed != vec![key.clone()] {
                    acc.violation("key-does-not-roundtrip-through-list", format!("key {shown}: list(\"\") = {listed:?}"), replay.clone());
                } else {
                    acc.outcome("key-accepted-roundtrip");
                    if acc.samples.is_empty() {
                        acc.samples.push(json!({"part": "keys", "key": shown, "verdict": "accepted, one file strictly under the root, get/list/second-put/delete as specified"}));
                    }
                }
                if rt.block_on(st.put(&key, b"second")).err().and_then(|e| e.already_existing_key().map(str::to_string)).as_deref() != Some(key.as_str()) {
                    acc.violation("put-on-existing-key-did-not-fail", format!("key {shown}: second put did not fail with already-exists"), replay.clone());
                }
                if rt.block_on(st.get(&key)).ok().as_deref() != Some(body.as_slice()) {
                    acc.violation("put-replaced-existing-object", format!("key {shown}: second put changed the object"), replay.clone());
                }
                if rt.block_on(st.delete(&key)).is_err() {
                    acc.violation("key-delete-failed", format!("key {shown}: delete after put failed"), replay.clone());
                }
                let _ = outside_violation(&mut acc, "second put/delete");
            }
        }
        // Reset the root for the next key.
        let _ = std::fs::remove_dir_all(&root);
        std::fs::create_dir_all(&root).expect("mkdir root");
    }
    let _ = std::fs::remove_dir_all(&sandbox);
    acc
}

// ------------------------------------------------------------------------------------------
// Child: payload-size sweep. "Every stored object reads back byte-identical for every payload":
// the codec works in 32 KiB windows, so every size in a band around k * 32 KiB is stored and read
// back, for several content patterns (highly repetitive content compresses to almost nothing and
// is where inflate finishes its input long before its output).
// ------------------------------------------------------------------------------------------

fn sweep_payload(pattern: &str, len: usize) -> Vec<u8> {
    match pattern {
        "const" => vec![b'A'; len],
        "pair" => (0..len).map(|i| if i % 2 == 0 { b'a' } else { b'\n' }).collect(),
        "record" => {
            let rec = br#"{"benchmark":"x","value":1.0,"unit":"ns"},"#;
            (0..len).map(|i| rec[i % rec.len()]).collect()
        }
        "counter" => (0..len).map(|i| (i / 7) as u8).collect(),
        "random" => xorshift_bytes(len, 0x51ce_5eed ^ len as u64),
        other => panic!("unknown pattern {other}"),
    }
}

fn job_sizes(pattern: &str, k: usize, below: usize, above: usize) -> Acc {
    let mut acc = Acc::default();
    let rt = rt();
    let dir = tmp_base().join(format!("sizes-{pattern}-{k}"));
    let _ = std::fs::remove_dir_all(&dir);
    let st = store(&dir.join("store"));
    let centre = k * 32 * 1024;
    let lo = centre.saturating_sub(below);
    for len in lo..=centre + above {
        let bytes = sweep_payload(pattern, len);
        let key = format!("v1/sz/{pattern}-{len}.json");
        acc.evals += 1;
        acc.hashes.push(vcommon::hash_str(&format!("size|{pattern}|{len}")));
        let replay = json!({"part": "sizes", "job": format!("sizes|{pattern}|{k}|{below}|{above}"), "len": len});
        if let Err(e) = rt.block_on(st.put(&key, &bytes)) {
            acc.violation("payload-roundtrip:put-failed", format!("put of a {len}-byte '{pattern}' payload failed: {e}"), replay);
            continue;
        }
        match rt.block_on(st.get(&key)) {
            Ok(back) if back == bytes => acc.outcome("size-sweep:round-trip-ok"),
            Ok(back) => acc.violation(
                "payload-roundtrip:bytes-differ",
                format!("a {len}-byte '{pattern}' payload read back as {} bytes that differ", back.len()),
                replay,
            ),
            Err(e) => acc.violation(
                "payload-roundtrip:stored-object-unreadable",
                format!("a {len}-byte '{pattern}' payload was stored but get fails: {e}"),
                replay,
            ),
        }
        let _ = rt.block_on(st.delete(&key));
    }
    let _ = std::fs::remove_dir_all(&dir);
    acc
}

// ------------------------------------------------------------------------------------------
// Parent
// ------------------------------------------------------------------------------------------

fn run_child(job: &str) -> Value {
    let parts: Vec<&str> = job.split('|').collect();
    match parts[0] {
        "writer" => job_writer(parts[1], parts[2], parts[3]),
        "inspect" => job_inspect(parts[1], parts[2]),
        "group" => job_group(parts[1], parts[2], parts[3], parts[4], parts[5]).to_json(),
        "nocrash" => job_nocrash(parts[1]).to_json(),
        "sizes" => job_sizes(parts[1], parts[2].parse().unwrap(), parts[3].parse().unwrap(), parts[4].parse().unwrap()).to_json(),
        "keys" => job_keys(parts[1].parse().unwrap(), parts[2].parse().unwrap()).to_json(),
        "sched" => sched::job_sched(parts[1], parts[2], parts[3], parts[4], parts[5]).to_json(),
        other => panic!("unknown job {other}"),
    }
}

fn main() {
    if let Some(job) = vcommon::child_job() {
        let v = run_child(&job);
        vcommon::child_result(&v);
        return;
    }
    let thorough = vcommon::is_thorough();
    let base = tmp_base();
    let _ = std::fs::remove_dir_all(&base);
    std::fs::create_dir_all(&base).expect("create temp base");
    // SAFETY: single-threaded at this point.
    unsafe {
        std::env::set_var("C19_TMP", &base);
        // Error values of the store capture a backtrace when this is on; symbolizing them is slow.
        std::env::set_var("RUST_BACKTRACE", "0");
    }

    // Replay of one recorded violation: re-run the job that produced it.
    if let Ok(path) = std::env::var("VERIF_REPLAY") {
        let text = std::fs::read_to_string(&path).expect("read replay file");
        let v: Value = vcommon::serde_json::from_str(&text).expect("parse replay file");
        let job = v["replay"]["job"].as_str().expect("replay.job").to_string();
        let r = vcommon::run_jobs(&[job.clone()], 1, Duration::from_secs(600));
        let res = r[0].result_json().unwrap_or(Value::Null);
        let vs = res["violations"].as_array().cloned().unwrap_or_default();
        println!("REPLAY job={job} violations={}", vs.len());
        for x in &vs {
            println!("  {} :: {}", x["key"].as_str().unwrap_or("?"), x["summary"].as_str().unwrap_or("?"));
        }
        let _ = std::fs::remove_dir_all(&base);
        std::process::exit(i32::from(!vs.is_empty()));
    }

    let mut c = vcommon::Check::new("C19", "fault_enumeration");
    c.max_samples = 10;
    let payloads = if thorough { PAYLOADS_THOROUGH } else { PAYLOADS_QUICK };
    let key_len = if thorough { 4 } else { 3 };
    let states = ["absent-fresh", "absent", "present"];
    let ops = ["put", "overwrite"];

    let mut jobs: Vec<String> = Vec::new();
    for state in states {
        for op in ops {
            for class in payloads {
                jobs.push(format!("group|hook|{state}|{op}|{class}|abort"));
                // Quick tier: the syscall-level engine runs SIGKILL only, on two payload classes.
                let faults: &[&str] = if thorough {
                    &["kill", "ENOSPC", "EIO"]
                } else if QUICK_PTRACE_PAYLOADS.contains(class) {
                    &["kill"]
                } else {
                    &[]
                };
                for fault in faults {
                    jobs.push(format!("group|ptrace|{state}|{op}|{class}|{fault}"));
                }
            }
        }
    }
    for class in payloads {
        jobs.push(format!("nocrash|{class}"));
    }
    // Payload-size sweep: every size in [k*32KiB - below, k*32KiB + above] x content pattern.
    let (ks, below, above): (&[usize], usize, usize) = if thorough { (&[0, 1, 2, 3, 4, 8, 10], 64, 512) } else { (&[0, 1, 2], 16, 128) };
    for pattern in ["const", "pair", "record", "counter", "random"] {
        for k in ks {
            jobs.push(format!("sizes|{pattern}|{k}|{below}|{above}"));
        }
    }
    for first in 0..TOKENS.len() {
        jobs.push(format!("keys|{key_len}|{first}"));
    }
    let sched_payloads: &[(&str, &str)] = if thorough { &[("64KiB", "all256"), ("3MiB", "empty")] } else { &[("64KiB", "all256")] };
    for (p0, p1) in sched_payloads {
        for initial in ["absent", "present"] {
            for op0 in ops {
                for op1 in ops {
                    jobs.push(format!("sched|{initial}|{op0}|{op1}|{p0}|{p1}"));
                }
            }
        }
    }
    // Largest jobs first.
    jobs.sort_by_key(|j| (!j.contains("3MiB"), !j.starts_with("group|ptrace"), !j.starts_with("keys")));

    let results = vcommon::run_jobs(&jobs, vcommon::default_parallelism(), Duration::from_secs(if thorough { 3000 } else { 900 }));
    let mut engine: Vec<String> = Vec::new();
    let mut part_evals: BTreeMap<String, u64> = BTreeMap::new();
    let mut violation_keys: Vec<String> = Vec::new();
    for r in &results {
        let Some(v) = r.result_json() else {
            engine.push(format!(
                "job {} gave no result (exit {:?}, timed_out {}): {}",
                r.job,
                r.exit_code,
                r.timed_out,
                r.stderr.chars().rev().take(400).collect::<String>().chars().rev().collect::<String>()
            ));
            continue;
        };
        let part = r.job.split('|').take(2).collect::<Vec<_>>().join("-");
        let part = if part.starts_with("group") { part } else { r.job.split('|').next().unwrap().to_string() };
        let n = v["evals"].as_u64().unwrap_or(0);
        *part_evals.entry(part).or_insert(0) += n;
        c.evaluations += n;
        for h in v["hashes"].as_array().into_iter().flatten() {
            if let Some(h) = h.as_str().and_then(|s| s.parse::<u64>().ok()) {
                c.distinct_hash(h);
            }
        }
        for (k, n) in v["outcomes"].as_object().into_iter().flatten() {
            c.outcome_n(k, n.as_u64().unwrap_or(0));
        }
        for x in v["violations"].as_array().into_iter().flatten() {
            violation_keys.push(x["key"].as_str().unwrap_or("?").to_string());
            c.violation(x["key"].as_str().unwrap_or("?"), x["summary"].as_str().unwrap_or("?"), x["replay"].clone());
        }
        for s in v["samples"].as_array().into_iter().flatten() {
            if c.samples.iter().filter(|e| e["part"] == s["part"]).count() < 2 {
                c.sample(s.clone());
            }
        }
        for e in v["engine"].as_array().into_iter().flatten() {
            engine.push(e.as_str().unwrap_or("?").to_string());
        }
        for (k, x) in v["extra"].as_object().into_iter().flatten() {
            if k.starts_with("syscalls") && !(k.ends_with("/64KiB") || k.ends_with("/3MiB")) {
                continue;
            }
            c.extra.insert(k.clone(), x.clone());
        }
    }
    let _ = std::fs::remove_dir_all(&base);
    c.extra.insert("evaluations_by_part".into(), json!(part_evals));
    c.rule = format!(
        "crash: store states {{root absent, key absent, key present}} x op {{put, put_overwrite}} x payload {payloads:?} x EVERY crash point of the put: \
         (hook engine) abort() at each of the {} named points {:?}; (ptrace engine{}) SIGKILL at the entry of each file-system syscall the put issues between two markers, counted globally over all threads{}; \
         after each, a fresh process runs get/list(\"\")/list(prefixes). A case is distinct by (engine, state, op, payload, fault, crash point) and non-trivial when the crash/fault actually fired. \
         nocrash: every payload x state. keys: every string of 1..={key_len} tokens over {:?} ({} keys). \
         sched: initial {{absent, present}} x (op0, op1) in {{put, put_overwrite}}^2 x all 20 interleavings of the writers' three segments [mkdir+exists-check][temp write+flush][publish], one thread running at a time, reader (get + list) after every named point.",
        cbh_storage::verif_hook::POINTS.len(),
        cbh_storage::verif_hook::POINTS,
        if thorough { String::new() } else { format!("; quick tier: payloads {QUICK_PTRACE_PAYLOADS:?} only") },
        if thorough { ", and additionally ENOSPC and EIO returned from each of those syscalls without executing it" } else { " (ENOSPC/EIO injection: thorough tier only)" },
        TOKENS,
        (1..=key_len).map(|l| TOKENS.len().pow(l as u32)).sum::<usize>(),
    );
    c.assumptions.push("Process-crash model only: data handed to a completed write(2) survives the death of the process. Power loss with an unsynced page cache is a different fault model and is NOT claimed (the store never calls fsync).".into());
    c.assumptions.push("Process death cannot happen inside a syscall's effect, so the entries of the file-system syscalls are all the distinguishable crash points of one put; the ptrace injector delivers SIGKILL while the thread is stopped at syscall entry, so the syscall does not execute.".into());
    c.assumptions.push("One fault per run (no fault sequences of length > 1); two writers and one reader per schedule; segments are the code between the named hook points, finer preemption inside a segment is not explored.".into());
    c.assumptions.push("Local file system of the verification machine (same-directory rename/link atomicity as provided by the kernel).".into());

    // Anti-vacuity.
    if !engine.is_empty() {
        engine.sort();
        engine.dedup();
        c.engine_failure(&format!("{} engine problems, first: {}", engine.len(), engine[0]));
    }
    // A violation that is not a listed known finding is a verdict (exit 1); the vacuity self-check
    // must not turn it into an engine failure (a defect can be the very reason a class is missing).
    let known: Vec<String> = vcommon::load_known_findings(&vcommon::verif_root(), "C19").into_iter().filter(|k| k.status == "known").map(|k| k.key).collect();
    if violation_keys.iter().any(|k| !known.contains(k)) {
        c.extra.insert("vacuity_self_check".into(), json!("skipped: unlisted violations present"));
        c.finish();
    }
    let seen = |p: &str| c.outcomes().keys().any(|k| k.contains(p));
    for needed in [
        "old-intact",
        "new-complete",
        "absent",
        "orphan-temp-hidden",
        "key-accepted-roundtrip",
        "key-rejected-by-validation",
        "put-existing-rejected",
        "sched:one-ok-one-exists",
        "sched:reader-saw-absent",
        "sched:reader-saw-object",
    ] {
        if !seen(needed) {
            c.engine_failure(&format!("vacuous run: outcome class {needed:?} was never observed; outcomes = {:?}", c.outcomes()));
        }
    }
    if thorough && !seen("put-failed-cleanly") {
        c.engine_failure("vacuous run: no injected I/O error ever made a put fail");
    }
    c.finish();
}

//! Two writers (+ a reader) of the same key, on real threads, serialized by the gate callback of
//! `cbh_storage::verif_hook` so that exactly one thread runs at a time and every interleaving of
//! the writers' three segments is executed deterministically.

use std::cell::Cell;
use std::sync::{Arc, Condvar, Mutex, OnceLock};
use std::time::{Duration, Instant};

use cbh_storage::Storage;
use vcommon::serde_json::{Value, json};

use crate::{Acc, KEY, OLD, SIB_OTHER, SIB_SAME, TEMP_PREFIX, err_class, payload, prepare, rt, store, tmp_base};

#[derive(Default)]
struct State {
    at: [Option<&'static str>; 2],
    go: [bool; 2],
    done: [Option<String>; 2],
}

struct Ctl {
    m: Mutex<State>,
    cv: Condvar,
}

static CTL: OnceLock<Arc<Ctl>> = OnceLock::new();

thread_local! {
    static ROLE: Cell<Option<usize>> = const { Cell::new(None) };
}

fn ctl() -> &'static Arc<Ctl> {
    CTL.get_or_init(|| Arc::new(Ctl { m: Mutex::new(State::default()), cv: Condvar::new() }))
}

/// The gate: a writer thread announces the point it reached and blocks until the controller lets
/// it continue. Threads without a role (controller/reader, preparation) pass through.
fn gate(name: &'static str) {
    let Some(i) = ROLE.with(Cell::get) else { return };
    let c = ctl();
    let mut st = c.m.lock().unwrap();
    st.at[i] = Some(name);
    c.cv.notify_all();
    while !st.go[i] {
        st = c.cv.wait(st).unwrap();
    }
    st.go[i] = false;
}

enum Event {
    At(&'static str),
    Done(String),
    Hang,
}

fn wait_for(i: usize) -> Event {
    let c = ctl();
    let deadline = Instant::now() + Duration::from_secs(300);
    let mut st = c.m.lock().unwrap();
    loop {
        if let Some(p) = st.at[i] {
            return Event::At(p);
        }
        if let Some(r) = st.done[i].clone() {
            return Event::Done(r);
        }
        let now = Instant::now();
        if now >= deadline {
            return Event::Hang;
        }
        st = c.cv.wait_timeout(st, deadline - now).unwrap().0;
    }
}

fn resume(i: usize) {
    let c = ctl();
    let mut st = c.m.lock().unwrap();
    st.at[i] = None;
    st.go[i] = true;
    c.cv.notify_all();
}

/// All orderings of three segments of writer 0 and three of writer 1.
fn schedules() -> Vec<Vec<usize>> {
    let mut out = Vec::new();
    for mask in 0u32..64 {
        if mask.count_ones() == 3 {
            out.push((0..6).map(|b| ((mask >> b) & 1) as usize).collect());
        }
    }
    out
}

#[derive(Clone, Debug, PartialEq, Eq)]
enum Content {
    Absent,
    Object(&'static str),
    Bad(String),
}

pub fn job_sched(initial: &str, op0: &str, op1: &str, p0: &str, p1: &str) -> Acc {
    let mut acc = Acc::default();
    cbh_storage::verif_hook::install(Box::new(gate));
    let ops = [op0.to_string(), op1.to_string()];
    let bodies: [Arc<Vec<u8>>; 2] = [Arc::new(payload(p0)), Arc::new(payload(p1))];
    let job = format!("sched|{initial}|{op0}|{op1}|{p0}|{p1}");
    let all = schedules();
    assert_eq!(all.len(), 20);
    let reader_rt = rt();

    for schedule in &all {
        let dir = tmp_base().join(format!("s-{initial}-{op0}-{op1}-{p0}"));
        let root = prepare(&dir, initial);
        let st = store(&root);
        {
            let mut s = ctl().m.lock().unwrap();
            *s = State::default();
        }
        let desc = format!("initial={initial} ops=[{op0},{op1}] payloads=[{p0},{p1}] schedule={schedule:?}");
        let mut trace: Vec<Value> = Vec::new();
        let mut steps: Vec<(usize, String, Content, Content)> = Vec::new();
        let mut bad_reads: Vec<String> = Vec::new();

        // The reader: one get and two listings, on the controller thread, while no writer runs.
        let mut observe = |acc: &mut Acc| -> Content {
            let content = match reader_rt.block_on(st.get(KEY)) {
                Ok(b) if b == *bodies[0] => Content::Object("x0"),
                Ok(b) if b == *bodies[1] => Content::Object("x1"),
                Ok(b) if b == OLD => Content::Object("init"),
                Ok(b) => Content::Bad(format!("get returned {} unexpected bytes", b.len())),
                Err(e) if e.is_not_found() => Content::Absent,
                Err(e) => Content::Bad(format!("get failed: {}", err_class(&e))),
            };
            for prefix in ["", "v1/p/"] {
                match reader_rt.block_on(st.list(prefix)) {
                    Ok(keys) => {
                        let mut want = vec![SIB_SAME.to_string()];
                        if prefix.is_empty() {
                            want.push(SIB_OTHER.to_string());
                        }
                        if matches!(content, Content::Object(_)) {
                            want.push(KEY.to_string());
                        }
                        want.sort();
                        if keys.iter().any(|k| k.contains(TEMP_PREFIX)) {
                            bad_reads.push(format!("TEMP list({prefix:?}) = {keys:?}"));
                        } else if keys != want {
                            bad_reads.push(format!("LIST list({prefix:?}) = {keys:?}, expected {want:?}"));
                        }
                    }
                    Err(e) => bad_reads.push(format!("LIST list({prefix:?}) failed: {}", err_class(&e))),
                }
            }
            match &content {
                Content::Absent => acc.outcome("sched:reader-saw-absent"),
                Content::Object(_) => acc.outcome("sched:reader-saw-object"),
                Content::Bad(m) => bad_reads.push(format!("GET {m}")),
            }
            content
        };

        // Start both writers; each runs to its first point ("put-enter": nothing touched yet).
        let mut handles = Vec::new();
        let mut hang = false;
        for i in 0..2 {
            let st_i = st.clone();
            let body = Arc::clone(&bodies[i]);
            let op = ops[i].clone();
            handles.push(std::thread::spawn(move || {
                ROLE.with(|r| r.set(Some(i)));
                let rt = rt();
                let r = if op == "put" { rt.block_on(st_i.put(KEY, &body)) } else { rt.block_on(st_i.put_overwrite(KEY, &body)) };
                let text = match &r {
                    Ok(()) => "ok".to_string(),
                    Err(e) => err_class(e),
                };
                let c = ctl();
                let mut s = c.m.lock().unwrap();
                s.done[i] = Some(text);
                c.cv.notify_all();
            }));
            match wait_for(i) {
                Event::At("put-enter") => {}
                _ => hang = true,
            }
        }
        let mut before = observe(&mut acc);
        let initial_content = before.clone();
        let mut finished: [Option<String>; 2] = [None, None];
        if !hang {
            'outer: for &i in schedule {
                if finished[i].is_some() {
                    trace.push(json!({"writer": i, "segment": "none (already returned)"}));
                    continue;
                }
                loop {
                    resume(i);
                    let ev = wait_for(i);
                    let after = observe(&mut acc);
                    let label = match &ev {
                        Event::At(p) => (*p).to_string(),
                        Event::Done(r) => format!("returned {r}"),
                        Event::Hang => "HANG".to_string(),
                    };
                    trace.push(json!({"writer": i, "ran_until": label, "key_now": format!("{after:?}")}));
                    steps.push((i, label, before.clone(), after.clone()));
                    before = after;
                    match ev {
                        Event::Done(r) => {
                            finished[i] = Some(r);
                            break;
                        }
                        Event::Hang => {
                            hang = true;
                            break 'outer;
                        }
                        Event::At(p) => {
                            let first_gate = if ops[i] == "put" { "after-exists-check" } else { "after-mkdir" };
                            if p == first_gate || p == "after-flush" {
                                break;
                            }
                        }
                    }
                }
            }
        }
        if hang || finished.iter().any(Option::is_none) {
            acc.engine.push(format!("schedule did not run to completion (hang={hang}, finished={finished:?}): {desc}"));
            // Threads may be blocked for good: leave them; the job process exits afterwards.
            return acc;
        }
        for h in handles {
            let _ = h.join();
        }
        let final_content = observe(&mut acc);
        let results = [finished[0].clone().unwrap(), finished[1].clone().unwrap()];
        let replay = json!({"part": "sched", "job": job, "schedule": schedule, "initial": initial, "ops": ops, "results": results, "trace": trace});

        // ---- oracle ----
        for m in &bad_reads {
            let key = if m.starts_with("TEMP") {
                "list-shows-temporary-file"
            } else if m.starts_with("GET") {
                "reader-sees-partial-or-corrupt-object"
            } else {
                "list-disagrees-with-get"
            };
            acc.violation(key, format!("{m}: {desc}"), replay.clone());
        }
        let tag = |i: usize| if i == 0 { "x0" } else { "x1" };
        let mut both_succeed_reported = false;
        for (i, label, b, a) in &steps {
            if b == a {
                continue;
            }
            // The key changed during a step of writer i.
            match (b, a) {
                (Content::Object(x), Content::Absent) => {
                    acc.violation("object-vanished", format!("a step of writer {i} (until {label}) made object {x} disappear: {desc}"), replay.clone());
                }
                (Content::Object(x), Content::Object(y)) if ops[*i] == "put" => {
                    // A write without overwrite replaced an object the key already held.
                    let by_other_writer = *x == tag(1 - *i);
                    let key = if by_other_writer { "concurrent-put-same-key-both-succeed" } else { "put-replaced-existing-object" };
                    both_succeed_reported |= by_other_writer;
                    acc.violation(
                        key,
                        format!(
                            "writer {i} (put, no overwrite) passed its existence check before writer {}'s object {x} was published, then published {y} over it; results: writer0={} writer1={}: {desc}",
                            1 - *i, results[0], results[1]
                        ),
                        replay.clone(),
                    );
                }
                (_, Content::Object(y)) if *y != tag(*i) => {
                    acc.violation("object-changed-by-wrong-writer", format!("a step of writer {i} made the key hold {y}: {desc}"), replay.clone());
                }
                _ => {}
            }
        }
        for i in 0..2 {
            let changed_by_i = steps.iter().any(|(w, _, b, a)| *w == i && b != a);
            if results[i] == "ok" {
                // A successful write has published its object (visible right after its last step).
                let published = steps.iter().any(|(w, _, _, a)| *w == i && *a == Content::Object(tag(i)));
                if !published {
                    acc.violation("put-succeeded-but-object-missing", format!("writer {i} returned ok but its object was never visible: {desc}"), replay.clone());
                }
            } else if changed_by_i {
                acc.violation("failed-put-changed-key", format!("writer {i} returned {} but the key changed during one of its steps: {desc}", results[i]), replay.clone());
            }
            if results[i] != "ok" && results[i] != "exists" {
                acc.violation("put-failed-unexpectedly", format!("writer {i} returned {}: {desc}", results[i]), replay.clone());
            }
            if results[i] == "exists" && ops[i] != "put" {
                acc.violation("overwrite-rejected", format!("writer {i} (put_overwrite) returned already-exists: {desc}"), replay.clone());
            }
        }
        // Write-once: at most one plain put of a key that did not exist reports success.
        if initial_content == Content::Absent && ops[0] == "put" && ops[1] == "put" && results[0] == "ok" && results[1] == "ok" && !both_succeed_reported {
            acc.violation("concurrent-put-same-key-both-succeed", format!("both puts of a not-yet-existing key reported success; final object {final_content:?}: {desc}"), replay.clone());
        }
        if initial_content == Content::Object("init") {
            for i in 0..2 {
                if ops[i] == "put" && results[i] == "ok" {
                    acc.violation("put-on-existing-key-did-not-fail", format!("writer {i} put on an existing key returned ok: {desc}"), replay.clone());
                }
            }
            if ops[0] == "put" && ops[1] == "put" && final_content != Content::Object("init") {
                acc.violation("put-replaced-existing-object", format!("final object {final_content:?}: {desc}"), replay.clone());
            }
        }

        let class = match (ops[0].as_str(), ops[1].as_str(), results[0].as_str(), results[1].as_str()) {
            ("put", "put", "ok", "ok") => "sched:both-plain-puts-ok".to_string(),
            ("put", "put", "ok", "exists") | ("put", "put", "exists", "ok") => "sched:one-ok-one-exists".to_string(),
            ("put", "put", "exists", "exists") => "sched:both-exists".to_string(),
            (a, b, x, y) => format!("sched:{a}={x},{b}={y}"),
        };
        acc.outcome(&class);
        acc.outcome(&format!("sched:final-{final_content:?}"));
        acc.evals += 1;
        acc.hashes.push(vcommon::hash_str(&format!("{job}|{schedule:?}")));
        if acc.samples.is_empty() {
            acc.samples.push(json!({"part": "sched", "case": desc, "results": results, "final": format!("{final_content:?}"), "trace": trace}));
        }
        let _ = std::fs::remove_dir_all(&dir);
    }
    acc
}

//! A minimal ptrace-based syscall fault injector (x86_64 Linux).
//!
//! `strace -e inject=…:when=k` counts per *thread*, and the store issues its file-system syscalls
//! from a tokio blocking-pool thread while the handle is closed on the caller's thread, so the
//! k-th syscall "of the put" cannot be addressed with strace. This tracer follows every thread of
//! the traced process, keeps ONE global counter of file-system syscall *entries* between two
//! marker syscalls (`close(MARK_BEGIN)` … `close(MARK_END)`), and at the k-th entry either kills
//! the whole process (SIGKILL delivered while the thread is stopped at syscall entry: the syscall
//! never executes) or makes the syscall fail with a chosen errno without executing it.
//!
//! Must be driven from a single thread of a process that has no other children.

use std::collections::{BTreeSet, HashMap};
use std::io::Read;
use std::os::unix::process::CommandExt;
use std::process::{Command, Stdio};

pub const MARK_BEGIN: i32 = 1_000_000_001;
pub const MARK_END: i32 = 1_000_000_002;

#[derive(Clone, Copy, Debug, PartialEq, Eq)]
pub enum Fault {
    None,
    Kill,
    Errno(i32),
}

#[derive(Debug, Default)]
pub struct Trace {
    /// Names of the file-system syscalls entered between the markers, in global order.
    pub matched: Vec<&'static str>,
    /// Syscall numbers seen between the markers that are in neither the file-system nor the
    /// benign table (the harness refuses to claim coverage when this is non-empty).
    pub unknown: BTreeSet<i64>,
    /// `Some(k)` when the fault was injected at the k-th (1-based) matched syscall.
    pub injected_at: Option<usize>,
    pub saw_begin: bool,
    pub saw_end: bool,
    pub exit_code: Option<i32>,
    pub signal: Option<i32>,
    pub stdout: String,
}

/// File-system syscalls: every one of these entered between the markers is a crash/fault point.
#[allow(non_upper_case_globals)]
fn fs_name(nr: i64) -> Option<&'static str> {
    use libc::*;
    Some(match nr {
        SYS_open => "open",
        SYS_openat => "openat",
        SYS_openat2 => "openat2",
        SYS_creat => "creat",
        SYS_mkdir => "mkdir",
        SYS_mkdirat => "mkdirat",
        SYS_rmdir => "rmdir",
        SYS_stat => "stat",
        SYS_lstat => "lstat",
        SYS_fstat => "fstat",
        SYS_newfstatat => "newfstatat",
        SYS_statx => "statx",
        SYS_access => "access",
        SYS_faccessat => "faccessat",
        SYS_faccessat2 => "faccessat2",
        SYS_read => "read",
        SYS_pread64 => "pread64",
        SYS_readv => "readv",
        SYS_write => "write",
        SYS_pwrite64 => "pwrite64",
        SYS_writev => "writev",
        SYS_pwritev => "pwritev",
        SYS_pwritev2 => "pwritev2",
        SYS_fsync => "fsync",
        SYS_fdatasync => "fdatasync",
        SYS_sync_file_range => "sync_file_range",
        SYS_syncfs => "syncfs",
        SYS_sync => "sync",
        SYS_close => "close",
        SYS_close_range => "close_range",
        SYS_rename => "rename",
        SYS_renameat => "renameat",
        SYS_renameat2 => "renameat2",
        SYS_link => "link",
        SYS_linkat => "linkat",
        SYS_unlink => "unlink",
        SYS_unlinkat => "unlinkat",
        SYS_symlink => "symlink",
        SYS_symlinkat => "symlinkat",
        SYS_readlink => "readlink",
        SYS_readlinkat => "readlinkat",
        SYS_truncate => "truncate",
        SYS_ftruncate => "ftruncate",
        SYS_fallocate => "fallocate",
        SYS_fcntl => "fcntl",
        SYS_flock => "flock",
        SYS_lseek => "lseek",
        SYS_chmod => "chmod",
        SYS_fchmod => "fchmod",
        SYS_fchmodat => "fchmodat",
        SYS_chown => "chown",
        SYS_fchown => "fchown",
        SYS_fchownat => "fchownat",
        SYS_utimensat => "utimensat",
        SYS_getdents => "getdents",
        SYS_getdents64 => "getdents64",
        SYS_dup => "dup",
        SYS_dup2 => "dup2",
        SYS_dup3 => "dup3",
        SYS_copy_file_range => "copy_file_range",
        SYS_sendfile => "sendfile",
        SYS_ioctl => "ioctl",
        SYS_chdir => "chdir",
        SYS_fchdir => "fchdir",
        SYS_getcwd => "getcwd",
        SYS_mknod => "mknod",
        SYS_mknodat => "mknodat",
        _ => return None,
    })
}

/// Syscalls that cannot change or observe the store (memory, threads, time, signals).
fn benign(nr: i64) -> bool {
    use libc::*;
    [
        SYS_futex,
        SYS_mmap,
        SYS_munmap,
        SYS_mprotect,
        SYS_mremap,
        SYS_madvise,
        SYS_brk,
        SYS_clone,
        SYS_clone3,
        SYS_rt_sigprocmask,
        SYS_rt_sigaction,
        SYS_rt_sigreturn,
        SYS_sigaltstack,
        SYS_set_robust_list,
        SYS_rseq,
        SYS_prctl,
        SYS_arch_prctl,
        SYS_sched_yield,
        SYS_sched_getaffinity,
        SYS_sched_setaffinity,
        SYS_getrandom,
        SYS_gettid,
        SYS_getpid,
        SYS_exit,
        SYS_exit_group,
        SYS_clock_gettime,
        SYS_clock_nanosleep,
        SYS_nanosleep,
        SYS_gettimeofday,
        SYS_epoll_create1,
        SYS_epoll_ctl,
        SYS_epoll_wait,
        SYS_epoll_pwait,
        SYS_poll,
        SYS_ppoll,
        SYS_eventfd2,
        SYS_tgkill,
        SYS_membarrier,
        SYS_set_tid_address,
        SYS_prlimit64,
        SYS_getrlimit,
        SYS_sysinfo,
        SYS_uname,
    ]
    .contains(&nr)
}

fn pt(req: libc::c_uint, pid: i32, addr: usize, data: usize) -> libc::c_long {
    // SAFETY: plain ptrace request on a tracee of this thread; pointers passed by the callers
    // point to live, correctly sized buffers.
    unsafe { libc::ptrace(req, pid, addr as *mut libc::c_void, data as *mut libc::c_void) }
}

fn resume(pid: i32, sig: i32) {
    let _ = pt(libc::PTRACE_SYSCALL, pid, 0, sig as usize);
}

/// Runs `cmd` under the tracer. `k` is the 1-based index of the matched syscall to fault.
pub fn run(mut cmd: Command, fault: Fault, k: usize) -> Result<Trace, String> {
    cmd.stdin(Stdio::null()).stdout(Stdio::piped()).stderr(Stdio::null());
    // SAFETY: the closure only issues an async-signal-safe syscall between fork and exec.
    unsafe {
        cmd.pre_exec(|| {
            // Never outlive the tracer (e.g. when the tracer is killed by a job timeout).
            libc::prctl(libc::PR_SET_PDEATHSIG, libc::SIGKILL);
            if libc::ptrace(libc::PTRACE_TRACEME, 0, 0, 0) != 0 {
                return Err(std::io::Error::last_os_error());
            }
            Ok(())
        });
    }
    let mut child = cmd.spawn().map_err(|e| format!("spawn: {e}"))?;
    let main = child.id() as i32;
    let mut status: i32 = 0;
    // SAFETY: waitpid with a valid status pointer.
    let r = unsafe { libc::waitpid(main, &mut status, libc::__WALL) };
    if r != main || !libc::WIFSTOPPED(status) {
        return Err(format!("no exec stop (waitpid={r}, status={status:#x})"));
    }
    let opts = libc::PTRACE_O_TRACESYSGOOD
        | libc::PTRACE_O_TRACECLONE
        | libc::PTRACE_O_TRACEFORK
        | libc::PTRACE_O_TRACEVFORK
        | libc::PTRACE_O_EXITKILL;
    if pt(libc::PTRACE_SETOPTIONS, main, 0, opts as usize) != 0 {
        return Err(format!("PTRACE_SETOPTIONS: {}", std::io::Error::last_os_error()));
    }
    resume(main, 0);

    let mut t = Trace::default();
    let mut known: BTreeSet<i32> = BTreeSet::new();
    known.insert(main);
    let mut pending_errno: HashMap<i32, i32> = HashMap::new();
    let mut active = false;
    let mut killed = false;

    loop {
        // SAFETY: as above.
        let pid = unsafe { libc::waitpid(-1, &mut status, libc::__WALL) };
        if pid < 0 {
            let e = std::io::Error::last_os_error();
            match e.raw_os_error() {
                Some(libc::ECHILD) => break,
                Some(libc::EINTR) => continue,
                _ => return Err(format!("waitpid: {e}")),
            }
        }
        if libc::WIFEXITED(status) || libc::WIFSIGNALED(status) {
            if pid == main {
                if libc::WIFEXITED(status) {
                    t.exit_code = Some(libc::WEXITSTATUS(status));
                } else {
                    t.signal = Some(libc::WTERMSIG(status));
                }
            }
            known.remove(&pid);
            continue;
        }
        if !libc::WIFSTOPPED(status) {
            continue;
        }
        let first_stop = known.insert(pid);
        if killed {
            // The process is dying; nothing to resume.
            continue;
        }
        let sig = libc::WSTOPSIG(status);
        let event = status >> 16;
        if sig == (libc::SIGTRAP | 0x80) {
            // SAFETY: zeroed is a valid bit pattern for this plain-data struct.
            let mut info: libc::ptrace_syscall_info = unsafe { std::mem::zeroed() };
            let n = pt(
                libc::PTRACE_GET_SYSCALL_INFO,
                pid,
                size_of::<libc::ptrace_syscall_info>(),
                &raw mut info as usize,
            );
            if n <= 0 {
                resume(pid, 0);
                continue;
            }
            if info.op == libc::PTRACE_SYSCALL_INFO_ENTRY {
                // SAFETY: `op == ENTRY` selects the `entry` member of the union.
                let (nr, arg0) = unsafe { (info.u.entry.nr as i64, info.u.entry.args[0]) };
                let mark = if nr == libc::SYS_close { arg0 as u32 } else { 0 };
                if mark == MARK_BEGIN as u32 {
                    active = true;
                    t.saw_begin = true;
                } else if mark == MARK_END as u32 {
                    active = false;
                    t.saw_end = true;
                } else if active {
                    if let Some(name) = fs_name(nr) {
                        t.matched.push(name);
                        if fault != Fault::None && t.matched.len() == k {
                            t.injected_at = Some(k);
                            match fault {
                                Fault::Kill => {
                                    // SAFETY: plain kill(2) of our own child.
                                    unsafe { libc::kill(main, libc::SIGKILL) };
                                    killed = true;
                                    continue;
                                }
                                Fault::Errno(errno) => {
                                    // Replace the syscall number by -1 so the kernel executes
                                    // nothing, and patch the return value at the exit stop.
                                    // SAFETY: zeroed is valid for this plain-data struct.
                                    let mut regs: libc::user_regs_struct =
                                        unsafe { std::mem::zeroed() };
                                    if pt(libc::PTRACE_GETREGS, pid, 0, &raw mut regs as usize)
                                        != 0
                                    {
                                        return Err("PTRACE_GETREGS failed".into());
                                    }
                                    regs.orig_rax = u64::MAX;
                                    if pt(libc::PTRACE_SETREGS, pid, 0, &raw mut regs as usize)
                                        != 0
                                    {
                                        return Err("PTRACE_SETREGS failed".into());
                                    }
                                    pending_errno.insert(pid, errno);
                                }
                                Fault::None => {}
                            }
                        }
                    } else if !benign(nr) {
                        t.unknown.insert(nr);
                    }
                }
            } else if info.op == libc::PTRACE_SYSCALL_INFO_EXIT
                && let Some(errno) = pending_errno.remove(&pid)
            {
                // SAFETY: zeroed is valid for this plain-data struct.
                let mut regs: libc::user_regs_struct = unsafe { std::mem::zeroed() };
                if pt(libc::PTRACE_GETREGS, pid, 0, &raw mut regs as usize) != 0 {
                    return Err("PTRACE_GETREGS (exit) failed".into());
                }
                regs.rax = (-(i64::from(errno))) as u64;
                if pt(libc::PTRACE_SETREGS, pid, 0, &raw mut regs as usize) != 0 {
                    return Err("PTRACE_SETREGS (exit) failed".into());
                }
            }
            resume(pid, 0);
        } else if event != 0 {
            // PTRACE_EVENT_CLONE/FORK/VFORK stop of the parent thread.
            resume(pid, 0);
        } else if sig == libc::SIGSTOP && first_stop {
            // Initial stop of an auto-attached thread.
            resume(pid, 0);
        } else if sig == libc::SIGTRAP {
            resume(pid, 0);
        } else {
            // Genuine signal: deliver it.
            resume(pid, sig);
        }
    }

    if let Some(mut out) = child.stdout.take() {
        let mut s = Vec::new();
        let _ = out.read_to_end(&mut s);
        t.stdout = String::from_utf8_lossy(&s).into_owned();
    }
    Ok(t)
}

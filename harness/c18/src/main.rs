//! C18 — "Allocation tracking is exact and transparent".
//!
//! `alloc_tracker::Allocator<CheckingInner>` is used as a *value* (never installed as the global
//! allocator), so the only calls that reach the tracker's per-thread counters are the ones this
//! harness makes on purpose; everything the harness, the sessions and the tracker's own bootstrap
//! allocate goes through the untracked system allocator. The counters are process-global
//! (thread-local counters in a never-cleared registry), so cases run strictly one at a time inside
//! a process and every observation is a span delta. Parallelism comes from child processes.
//!
//! A *case* is: a global sequence of allocator calls, each assigned to one of T worker threads
//! (real OS threads, exactly one runs at a time: a baton is passed from the actor of one step to
//! the actor of the next), plus a set of spans, each with an opener, a closer, a kind (thread /
//! process), a window `(gs, ge)` of global positions (all boundaries are quiescent points), a
//! target session / operation name and an iteration count. A boring reference model (per-thread
//! and total `(calls, bytes)`) is run over the case description and says what every operation of
//! every report must show; the inner allocator's log says what the tracker forwarded.
//!
//! Families marked `fresh` create new OS threads for every case, so that a thread's first contact
//! with the tracker (lazy registration of its counters: by a call, by a thread span, by a call
//! made while process spans are already open) is part of the case; they are kept shallow because
//! the tracker's registry of per-thread counters is never cleared. The deep families run on a pool
//! of long-lived workers, whose counters start every case at a non-zero baseline.

use std::alloc::{GlobalAlloc, Layout, System};
use std::collections::{BTreeMap, BTreeSet, HashSet};
use std::panic::{AssertUnwindSafe, catch_unwind};
use std::sync::atomic::{AtomicBool, AtomicU64, AtomicUsize, Ordering};
use std::sync::mpsc::{Receiver, Sender, channel};
use std::sync::{Arc, Mutex, OnceLock};
use std::thread::ThreadId;
use std::time::{Duration, Instant};

use alloc_tracker::{Allocator, ProcessSpan, Report, ReportOperation, Session, ThreadSpan};
use vcommon::serde_json::{Value, json};

/// (size, align). Quick uses the first three, thorough all four.
const LAYOUTS: [(usize, usize); 4] = [(1, 1), (8, 8), (4096, 64), (4096, 4096)];

fn realloc_new_size(old: usize, larger: bool) -> usize {
    if larger {
        old * 2 + 3
    } else if old >= 2 {
        old / 2
    } else {
        1
    }
}

// ------------------------------------------------------------------------------------------
// Alphabet
// ------------------------------------------------------------------------------------------

#[derive(Clone, Copy, Debug, PartialEq, Eq, Hash)]
enum Op {
    Alloc(u8),
    AllocZeroed(u8),
    /// (index into the global live-block list, larger?)
    Realloc(u8, bool),
    Dealloc(u8),
    /// The inner allocator is told to fail this request (returns null without allocating).
    AllocFail(u8),
    ReallocFail(u8),
}

impl Op {
    fn kind_name(self) -> &'static str {
        match self {
            Op::Alloc(_) => "alloc",
            Op::AllocZeroed(_) => "alloc_zeroed",
            Op::Realloc(..) => "realloc",
            Op::Dealloc(_) => "dealloc",
            Op::AllocFail(_) => "alloc_fail",
            Op::ReallocFail(_) => "realloc_fail",
        }
    }

    fn encode(self) -> String {
        match self {
            Op::Alloc(l) => format!("alloc:{l}"),
            Op::AllocZeroed(l) => format!("alloc_zeroed:{l}"),
            Op::Realloc(i, larger) => format!("realloc:{i}:{}", if larger { "larger" } else { "smaller" }),
            Op::Dealloc(i) => format!("dealloc:{i}"),
            Op::AllocFail(l) => format!("alloc_fail:{l}"),
            Op::ReallocFail(i) => format!("realloc_fail:{i}"),
        }
    }

    fn decode(s: &str) -> Option<Op> {
        let p: Vec<&str> = s.split(':').collect();
        let a: u8 = p.get(1)?.parse().ok()?;
        Some(match p[0] {
            "alloc" => Op::Alloc(a),
            "alloc_zeroed" => Op::AllocZeroed(a),
            "realloc" => Op::Realloc(a, *p.get(2)? == "larger"),
            "dealloc" => Op::Dealloc(a),
            "alloc_fail" => Op::AllocFail(a),
            "realloc_fail" => Op::ReallocFail(a),
            _ => return None,
        })
    }

    fn bytes(self) -> [u8; 3] {
        match self {
            Op::Alloc(l) => [0, l, 0],
            Op::AllocZeroed(l) => [1, l, 0],
            Op::Realloc(i, g) => [2, i, u8::from(g)],
            Op::Dealloc(i) => [3, i, 0],
            Op::AllocFail(l) => [4, l, 0],
            Op::ReallocFail(i) => [5, i, 0],
        }
    }
}

#[derive(Clone, Copy, Debug, PartialEq, Eq)]
enum Kind {
    Thread,
    Process,
}

/// Actor 0 is the controller (never calls the tracker), actors 1..=T are the workers.
#[derive(Clone, Debug)]
struct SpanSpec {
    opener: u8,
    closer: u8,
    kind: Kind,
    gs: u8,
    ge: u8,
    session: u8,
    name: String,
    iters: u64,
    /// `measure_x().iterations(n)` guard pattern vs. `span.iterations(n)` just before the drop.
    at_open: bool,
}

#[derive(Clone, Debug)]
struct Case {
    family: String,
    threads: u8,
    ops: Vec<(u8, Op)>,
    spans: Vec<SpanSpec>,
    /// Compact identity of the span placement (mode, candidate indices, iteration combo).
    placement: Vec<u32>,
}

impl Case {
    fn hash(&self) -> u64 {
        let mut b: Vec<u8> = Vec::with_capacity(32);
        b.extend_from_slice(self.family.as_bytes());
        b.push(self.threads);
        for (t, op) in &self.ops {
            b.push(*t);
            b.extend_from_slice(&op.bytes());
        }
        b.push(0xff);
        for p in &self.placement {
            b.extend_from_slice(&p.to_le_bytes());
        }
        vcommon::fnv1a(&b)
    }

    fn to_json(&self) -> Value {
        json!({
            "family": self.family,
            "threads": self.threads,
            "layout_table": LAYOUTS.iter().map(|(s, a)| json!([s, a])).collect::<Vec<_>>(),
            "ops": self.ops.iter().map(|(t, op)| json!([t, op.encode()])).collect::<Vec<_>>(),
            "placement": self.placement,
            "spans": self.spans.iter().map(|s| json!({
                "opener": s.opener, "closer": s.closer,
                "kind": if s.kind == Kind::Thread { "thread" } else { "process" },
                "gs": s.gs, "ge": s.ge, "session": s.session, "name": s.name,
                "iters": s.iters, "at_open": s.at_open,
            })).collect::<Vec<_>>(),
        })
    }

    fn from_json(v: &Value) -> Option<Case> {
        let mut ops = Vec::new();
        for o in v.get("ops")?.as_array()? {
            let t = o.get(0)?.as_u64()? as u8;
            ops.push((t, Op::decode(o.get(1)?.as_str()?)?));
        }
        let mut spans = Vec::new();
        for s in v.get("spans")?.as_array()? {
            spans.push(SpanSpec {
                opener: s.get("opener")?.as_u64()? as u8,
                closer: s.get("closer")?.as_u64()? as u8,
                kind: if s.get("kind")?.as_str()? == "thread" { Kind::Thread } else { Kind::Process },
                gs: s.get("gs")?.as_u64()? as u8,
                ge: s.get("ge")?.as_u64()? as u8,
                session: s.get("session")?.as_u64()? as u8,
                name: s.get("name")?.as_str()?.to_string(),
                iters: s.get("iters")?.as_u64()?,
                at_open: s.get("at_open")?.as_bool()?,
            });
        }
        Some(Case {
            family: v.get("family")?.as_str()?.to_string(),
            threads: v.get("threads")?.as_u64()? as u8,
            ops,
            spans,
            placement: v
                .get("placement")
                .and_then(Value::as_array)
                .map(|a| a.iter().filter_map(|x| x.as_u64().map(|x| x as u32)).collect())
                .unwrap_or_default(),
        })
    }
}

// ------------------------------------------------------------------------------------------
// The checking inner allocator
// ------------------------------------------------------------------------------------------

const K_ALLOC: u8 = 0;
const K_ZEROED: u8 = 1;
const K_REALLOC: u8 = 2;
const K_DEALLOC: u8 = 3;

#[derive(Clone, Copy, Debug)]
struct Rec {
    kind: u8,
    size: usize,
    align: usize,
    ptr_in: usize,
    new_size: usize,
    ptr_out: usize,
    thread: ThreadId,
}

struct InnerShared {
    log: Mutex<Vec<Rec>>,
    fail_next: AtomicBool,
    /// Self-test only: log a realloc's new_size off by one (the oracle must notice).
    skew_log: AtomicBool,
}

impl InnerShared {
    fn push(&self, r: Rec) {
        self.log.lock().unwrap().push(r);
    }
    fn len(&self) -> usize {
        self.log.lock().unwrap().len()
    }
    fn since(&self, n: usize) -> Vec<Rec> {
        self.log.lock().unwrap()[n..].to_vec()
    }
}

struct CheckingInner(Arc<InnerShared>);

// SAFETY: every request is served by `System` with exactly the arguments received (or refused by
// returning null, which GlobalAlloc permits); logging uses the process's ordinary global allocator,
// which is not this allocator, so there is no re-entrancy.
unsafe impl GlobalAlloc for CheckingInner {
    unsafe fn alloc(&self, layout: Layout) -> *mut u8 {
        let p = if self.0.fail_next.swap(false, Ordering::SeqCst) {
            std::ptr::null_mut()
        } else {
            // SAFETY: forwarded unchanged.
            unsafe { System.alloc(layout) }
        };
        self.0.push(Rec {
            kind: K_ALLOC,
            size: layout.size(),
            align: layout.align(),
            ptr_in: 0,
            new_size: 0,
            ptr_out: p as usize,
            thread: std::thread::current().id(),
        });
        p
    }

    unsafe fn alloc_zeroed(&self, layout: Layout) -> *mut u8 {
        let p = if self.0.fail_next.swap(false, Ordering::SeqCst) {
            std::ptr::null_mut()
        } else {
            // SAFETY: forwarded unchanged.
            unsafe { System.alloc_zeroed(layout) }
        };
        self.0.push(Rec {
            kind: K_ZEROED,
            size: layout.size(),
            align: layout.align(),
            ptr_in: 0,
            new_size: 0,
            ptr_out: p as usize,
            thread: std::thread::current().id(),
        });
        p
    }

    unsafe fn realloc(&self, ptr: *mut u8, layout: Layout, new_size: usize) -> *mut u8 {
        let p = if self.0.fail_next.swap(false, Ordering::SeqCst) {
            std::ptr::null_mut()
        } else {
            // SAFETY: forwarded unchanged.
            unsafe { System.realloc(ptr, layout, new_size) }
        };
        let skew = usize::from(self.0.skew_log.load(Ordering::SeqCst));
        self.0.push(Rec {
            kind: K_REALLOC,
            size: layout.size(),
            align: layout.align(),
            ptr_in: ptr as usize,
            new_size: new_size + skew,
            ptr_out: p as usize,
            thread: std::thread::current().id(),
        });
        p
    }

    unsafe fn dealloc(&self, ptr: *mut u8, layout: Layout) {
        // SAFETY: forwarded unchanged.
        unsafe { System.dealloc(ptr, layout) };
        self.0.push(Rec {
            kind: K_DEALLOC,
            size: layout.size(),
            align: layout.align(),
            ptr_in: ptr as usize,
            new_size: 0,
            ptr_out: 0,
            thread: std::thread::current().id(),
        });
    }
}

// ------------------------------------------------------------------------------------------
// Execution
// ------------------------------------------------------------------------------------------

#[derive(Clone, Copy, Debug)]
struct Block {
    ptr: usize,
    size: usize,
    align: usize,
    pat: u8,
}

#[derive(Clone, Copy, Debug)]
enum Act {
    Op(Op),
    Open(usize),
    Close(usize),
    Cleanup,
}

struct Ctx {
    tracker: Allocator<CheckingInner>,
    inner: Arc<InnerShared>,
    sessions: [Session; 2],
    spans: Vec<SpanSpec>,
    blocks: Mutex<Vec<Block>>,
    pspans: Mutex<Vec<Option<ProcessSpan>>>,
    viol: Mutex<Vec<(String, String)>>,
    serial: AtomicU64,
    calls: AtomicU64,
    classes: Mutex<BTreeMap<&'static str, u64>>,
    /// The case as a script: consecutive actions of one actor are one step.
    steps: Vec<Step>,
    /// Index of the step whose actor holds the baton; `usize::MAX` = aborted.
    turn: AtomicUsize,
    aborted: AtomicBool,
    handles: OnceLock<Vec<std::thread::Thread>>,
}

struct Step {
    actor: usize,
    acts: Vec<Act>,
}

impl Ctx {
    fn violation(&self, key: String, summary: String) {
        self.viol.lock().unwrap().push((key, summary));
    }
    fn class(&self, c: &'static str) {
        *self.classes.lock().unwrap().entry(c).or_insert(0) += 1;
    }
}

#[allow(clippy::too_many_arguments)]
fn check_forward(
    ctx: &Ctx,
    kname: &str,
    recs: &[Rec],
    kind: u8,
    size: usize,
    align: usize,
    ptr_in: usize,
    new_size: usize,
    ret: Option<usize>,
) -> bool {
    let me = std::thread::current().id();
    let fail = |what: &str, detail: String| {
        ctx.violation(format!("transparent.forward.{kname}.{what}"), detail);
        false
    };
    if recs.len() != 1 {
        return fail("call_count", format!("{} inner allocator calls for one {kname} request: {recs:?}", recs.len()));
    }
    let r = recs[0];
    if r.kind != kind {
        return fail("kind", format!("{kname} request reached the inner allocator as call kind {} (0=alloc 1=alloc_zeroed 2=realloc 3=dealloc)", r.kind));
    }
    if (r.size, r.align) != (size, align) {
        return fail("layout", format!("{kname} requested layout size={size} align={align}, inner allocator saw size={} align={}", r.size, r.align));
    }
    if r.ptr_in != ptr_in {
        return fail("ptr", format!("{kname} passed pointer {ptr_in:#x}, inner allocator saw {:#x}", r.ptr_in));
    }
    if r.new_size != new_size {
        return fail("new_size", format!("{kname} requested new_size={new_size}, inner allocator saw new_size={}", r.new_size));
    }
    if let Some(ret) = ret {
        if r.ptr_out != ret {
            return fail("return", format!("inner allocator returned {:#x}, tracker returned {ret:#x}", r.ptr_out));
        }
    }
    if r.thread != me {
        return fail("thread", format!("{kname} was forwarded on another thread"));
    }
    true
}

fn pattern_ok(b: &Block, len: usize) -> bool {
    // SAFETY: the block is live and at least `len` bytes long (harness bookkeeping, verified
    // against the inner allocator's log before any memory is touched).
    let s = unsafe { std::slice::from_raw_parts(b.ptr as *const u8, len) };
    s.iter().all(|x| *x == b.pat)
}

fn fill(ptr: usize, len: usize, pat: u8) {
    // SAFETY: as above.
    unsafe { std::ptr::write_bytes(ptr as *mut u8, pat, len) };
}

/// Executes one allocator call through the tracker. `false` = the case cannot continue (a
/// transparency violation was recorded; no memory is touched after a forwarding mismatch).
fn exec_op(ctx: &Ctx, op: Op) -> bool {
    let t = &ctx.tracker;
    let kname = op.kind_name();
    ctx.calls.fetch_add(1, Ordering::Relaxed);
    match op {
        Op::Alloc(li) | Op::AllocZeroed(li) | Op::AllocFail(li) => {
            let (size, align) = LAYOUTS[li as usize];
            let lay = Layout::from_size_align(size, align).unwrap();
            let zeroed = matches!(op, Op::AllocZeroed(_));
            let fail = matches!(op, Op::AllocFail(_));
            let before = ctx.inner.len();
            ctx.inner.fail_next.store(fail, Ordering::SeqCst);
            // SAFETY: non-zero-sized valid layout.
            let p = unsafe { if zeroed { t.alloc_zeroed(lay) } else { t.alloc(lay) } } as usize;
            ctx.inner.fail_next.store(false, Ordering::SeqCst);
            let recs = ctx.inner.since(before);
            if !check_forward(ctx, kname, &recs, if zeroed { K_ZEROED } else { K_ALLOC }, size, align, 0, 0, Some(p)) {
                return false;
            }
            if fail {
                // p == what the inner allocator returned == null, verified above.
                ctx.class("null_returned_alloc");
                return true;
            }
            if p == 0 || p % align != 0 {
                ctx.violation("ENGINE".into(), format!("system allocator returned {p:#x} for {lay:?}"));
                return false;
            }
            if zeroed {
                // SAFETY: fresh block of `size` bytes.
                let s = unsafe { std::slice::from_raw_parts(p as *const u8, size) };
                if !s.iter().all(|x| *x == 0) {
                    ctx.violation("transparent.memory.zeroed".into(), format!("alloc_zeroed({lay:?}) returned non-zero memory"));
                    return false;
                }
                ctx.class("zeroed_verified");
            }
            let pat = (ctx.serial.fetch_add(1, Ordering::Relaxed) % 251) as u8 + 1;
            fill(p, size, pat);
            ctx.blocks.lock().unwrap().push(Block { ptr: p, size, align, pat });
            true
        }
        Op::Realloc(i, _) | Op::ReallocFail(i) => {
            let fail = matches!(op, Op::ReallocFail(_));
            let larger = match op {
                Op::Realloc(_, l) => l,
                _ => true,
            };
            let b = ctx.blocks.lock().unwrap()[i as usize];
            if !pattern_ok(&b, b.size) {
                ctx.violation("ENGINE".into(), "block content changed behind the harness".into());
                return false;
            }
            let new_size = realloc_new_size(b.size, larger);
            let lay = Layout::from_size_align(b.size, b.align).unwrap();
            let before = ctx.inner.len();
            ctx.inner.fail_next.store(fail, Ordering::SeqCst);
            // SAFETY: `b` is a live block allocated with `lay` through this allocator; new_size > 0.
            let p = unsafe { t.realloc(b.ptr as *mut u8, lay, new_size) } as usize;
            ctx.inner.fail_next.store(false, Ordering::SeqCst);
            let recs = ctx.inner.since(before);
            if !check_forward(ctx, kname, &recs, K_REALLOC, b.size, b.align, b.ptr, new_size, Some(p)) {
                return false;
            }
            if fail {
                ctx.class("null_returned_realloc");
                if !pattern_ok(&b, b.size) {
                    ctx.violation("transparent.memory.failed_realloc_keeps_block".into(), "block changed after a refused realloc".into());
                    return false;
                }
                return true;
            }
            if p == 0 || p % b.align != 0 {
                ctx.violation("ENGINE".into(), format!("system allocator realloc returned {p:#x}"));
                return false;
            }
            let nb = Block { ptr: p, size: new_size, align: b.align, pat: b.pat };
            if !pattern_ok(&nb, b.size.min(new_size)) {
                ctx.violation("transparent.memory.realloc_prefix".into(), format!("realloc {} -> {new_size} lost the prefix", b.size));
                return false;
            }
            ctx.class(if p == b.ptr { "realloc_in_place" } else { "realloc_moved" });
            fill(p, new_size, b.pat);
            ctx.blocks.lock().unwrap()[i as usize] = nb;
            true
        }
        Op::Dealloc(i) => {
            let b = ctx.blocks.lock().unwrap().remove(i as usize);
            dealloc_block(ctx, b, kname)
        }
    }
}

fn dealloc_block(ctx: &Ctx, b: Block, kname: &str) -> bool {
    if !pattern_ok(&b, b.size) {
        ctx.violation("ENGINE".into(), "block content changed behind the harness".into());
        return false;
    }
    let lay = Layout::from_size_align(b.size, b.align).unwrap();
    let before = ctx.inner.len();
    // SAFETY: `b` is a live block allocated with `lay` through this allocator.
    unsafe { ctx.tracker.dealloc(b.ptr as *mut u8, lay) };
    let recs = ctx.inner.since(before);
    check_forward(ctx, kname, &recs, K_DEALLOC, b.size, b.align, b.ptr, 0, None)
}

fn exec_act(ctx: &Ctx, act: Act, local: &mut [Option<ThreadSpan>]) -> bool {
    match act {
        Act::Op(op) => exec_op(ctx, op),
        Act::Open(id) => {
            let spec = &ctx.spans[id];
            let operation = ctx.sessions[spec.session as usize].operation(spec.name.clone());
            match spec.kind {
                Kind::Thread => {
                    let mut s = operation.measure_thread();
                    if spec.at_open {
                        s = s.iterations(spec.iters);
                    }
                    local[id] = Some(s);
                }
                Kind::Process => {
                    let mut s = operation.measure_process();
                    if spec.at_open {
                        s = s.iterations(spec.iters);
                    }
                    ctx.pspans.lock().unwrap()[id] = Some(s);
                }
            }
            true
        }
        Act::Close(id) => {
            let spec = &ctx.spans[id];
            match spec.kind {
                Kind::Thread => {
                    let mut s = local[id].take().expect("thread span open");
                    if !spec.at_open {
                        s = s.iterations(spec.iters);
                    }
                    drop(s);
                }
                Kind::Process => {
                    let mut s = ctx.pspans.lock().unwrap()[id].take().expect("process span open");
                    if !spec.at_open {
                        s = s.iterations(spec.iters);
                    }
                    drop(s);
                }
            }
            true
        }
        Act::Cleanup => {
            let blocks: Vec<Block> = std::mem::take(&mut *ctx.blocks.lock().unwrap());
            let mut ok = true;
            for b in blocks {
                ctx.calls.fetch_add(1, Ordering::Relaxed);
                if ok {
                    ok = dealloc_block(ctx, b, "dealloc");
                }
            }
            ok
        }
    }
}

fn run_acts(ctx: &Ctx, acts: &[Act], local: &mut [Option<ThreadSpan>]) -> bool {
    let r = catch_unwind(AssertUnwindSafe(|| {
        for a in acts {
            if !exec_act(ctx, *a, local) {
                return false;
            }
        }
        true
    }));
    match r {
        Ok(b) => b,
        Err(p) => {
            let msg = vcommon::panic_message(&*p);
            let short: String = msg.chars().take(60).collect();
            ctx.violation(format!("panic.{}", short.replace(' ', "_")), format!("panic while executing {acts:?}: {msg}"));
            false
        }
    }
}

/// Baton scheduler: every actor (0 = controller, 1..=T workers; real OS threads) sleeps until the
/// step at `turn` is its own, executes it, advances `turn` and wakes exactly the next step's actor.
/// Exactly one actor runs at any time; every hand-off is a quiescent point.
fn actor_loop(ctx: &Ctx, me: usize, local: &mut [Option<ThreadSpan>]) {
    while ctx.handles.get().is_none() {
        std::thread::park();
    }
    let handles = ctx.handles.get().unwrap();
    loop {
        let i = ctx.turn.load(Ordering::Acquire);
        if i >= ctx.steps.len() {
            break;
        }
        if ctx.steps[i].actor != me {
            std::thread::park();
            continue;
        }
        let ok = run_acts(ctx, &ctx.steps[i].acts, local);
        let next = if ok {
            i + 1
        } else {
            ctx.aborted.store(true, Ordering::SeqCst);
            usize::MAX
        };
        ctx.turn.store(next, Ordering::Release);
        if next >= ctx.steps.len() {
            for h in handles {
                h.unpark();
            }
        } else if ctx.steps[next].actor != me {
            handles[ctx.steps[next].actor].unpark();
        }
    }
}

fn build_steps(case: &Case) -> Vec<Step> {
    fn push(steps: &mut Vec<Step>, actor: usize, acts: Vec<Act>) {
        if acts.is_empty() {
            return;
        }
        match steps.last_mut() {
            Some(last) if last.actor == actor => last.acts.extend(acts),
            _ => steps.push(Step { actor, acts }),
        }
    }
    let n = case.ops.len();
    let t = case.threads as usize;
    let mut steps: Vec<Step> = Vec::new();
    let mut prev = 1_usize;
    for g in 0..=n {
        // Per actor: closes of earlier spans, opens, closes of its own zero-length spans. A
        // zero-length span closed by another actor than its opener is closed after all opens.
        let mut a: Vec<Vec<Act>> = vec![Vec::new(); t + 1];
        let mut cross: Vec<Vec<Act>> = vec![Vec::new(); t + 1];
        for (id, s) in case.spans.iter().enumerate() {
            if s.gs < s.ge && s.ge as usize == g {
                a[s.closer as usize].push(Act::Close(id));
            }
        }
        for (id, s) in case.spans.iter().enumerate() {
            if s.gs as usize == g {
                a[s.opener as usize].push(Act::Open(id));
            }
        }
        for (id, s) in case.spans.iter().enumerate() {
            if s.gs == s.ge && s.ge as usize == g {
                if s.opener == s.closer {
                    a[s.closer as usize].push(Act::Close(id));
                } else {
                    cross[s.closer as usize].push(Act::Close(id));
                }
            }
        }
        // The worker that made the previous call still holds the baton; the controller goes last.
        let mut order = vec![prev];
        order.extend((1..=t).filter(|w| *w != prev));
        order.push(0);
        for actor in order {
            push(&mut steps, actor, std::mem::take(&mut a[actor]));
        }
        for actor in 0..=t {
            push(&mut steps, actor, std::mem::take(&mut cross[actor]));
        }
        if g < n {
            let actor = case.ops[g].0 as usize + 1;
            push(&mut steps, actor, vec![Act::Op(case.ops[g].1)]);
            prev = actor;
        }
    }
    push(&mut steps, 1, vec![Act::Cleanup]);
    steps
}

// ------------------------------------------------------------------------------------------
// Reference model and oracle
// ------------------------------------------------------------------------------------------

#[derive(Clone, Copy, Debug, PartialEq, Eq)]
enum SelfTest {
    None,
    /// The inner allocator's log is skewed: the transparency oracle must fire.
    InnerLogSkew,
    /// The reference model counts frees as calls: the exactness oracle must fire.
    ModelSkew,
}

struct Model {
    live: Vec<usize>,
    /// Indexed by actor (0 = controller).
    per: Vec<(u64, u64)>,
    total: (u64, u64),
    skew: bool,
}

impl Model {
    fn apply(&mut self, actor: usize, op: Op) {
        let (calls, bytes): (u64, usize) = match op {
            Op::Alloc(l) | Op::AllocZeroed(l) => {
                self.live.push(LAYOUTS[l as usize].0);
                (1, LAYOUTS[l as usize].0)
            }
            Op::AllocFail(l) => (1, LAYOUTS[l as usize].0),
            Op::Realloc(i, larger) => {
                let ns = realloc_new_size(self.live[i as usize], larger);
                self.live[i as usize] = ns;
                (1, ns)
            }
            Op::ReallocFail(i) => (1, realloc_new_size(self.live[i as usize], true)),
            Op::Dealloc(i) => {
                self.live.remove(i as usize);
                (u64::from(self.skew), 0)
            }
        };
        self.per[actor].0 += calls;
        self.per[actor].1 += bytes as u64;
        self.total.0 += calls;
        self.total.1 += bytes as u64;
    }
}

#[derive(Clone, Debug, Default)]
struct Acc {
    iters: u64,
    bytes: u64,
    count: u64,
    spans: u64,
    s_nn: f64,
    s_nt_b: f64,
    s_nt_c: f64,
    members: Vec<usize>,
}

impl Acc {
    fn add(&mut self, n: u64, bytes: u64, count: u64, id: usize) {
        self.iters += n;
        self.bytes += bytes;
        self.count += count;
        self.spans += 1;
        let nf = n as f64;
        self.s_nn += nf * nf;
        self.s_nt_b += nf * bytes as f64;
        self.s_nt_c += nf * count as f64;
        self.members.push(id);
    }
    fn merge(&mut self, o: &Acc) {
        self.iters += o.iters;
        self.bytes += o.bytes;
        self.count += o.count;
        self.spans += o.spans;
        self.s_nn += o.s_nn;
        self.s_nt_b += o.s_nt_b;
        self.s_nt_c += o.s_nt_c;
        self.members.extend_from_slice(&o.members);
    }
}

fn close_enough(a: f64, b: f64) -> bool {
    (a - b).abs() <= 1e-9 * b.abs().max(1.0)
}

/// Compares one report operation with what the model says; returns (field, expected, observed).
fn diff_op(exp: &Acc, obs: &ReportOperation) -> Vec<(&'static str, String, String)> {
    let mut d = Vec::new();
    if obs.total_bytes_allocated() != exp.bytes {
        d.push(("bytes", exp.bytes.to_string(), obs.total_bytes_allocated().to_string()));
    }
    if obs.total_allocations_count() != exp.count {
        d.push(("count", exp.count.to_string(), obs.total_allocations_count().to_string()));
    }
    if obs.total_iterations() != exp.iters {
        d.push(("iterations", exp.iters.to_string(), obs.total_iterations().to_string()));
    }
    let sc = obs.statistics().map(|s| s.span_count).unwrap_or(0);
    if sc != exp.spans {
        d.push(("span_count", exp.spans.to_string(), sc.to_string()));
    }
    // Documented per-iteration figure: through-origin slope sum(n*t)/sum(n*n); no finite rate
    // (None) when no span was recorded or all recorded spans covered zero iterations.
    let (eb, ec) = if exp.spans == 0 || exp.s_nn == 0.0 {
        (None, None)
    } else {
        (Some(exp.s_nt_b / exp.s_nn), Some(exp.s_nt_c / exp.s_nn))
    };
    let same = |e: Option<f64>, o: Option<f64>| match (e, o) {
        (None, None) => true,
        (Some(e), Some(o)) => close_enough(o, e),
        _ => false,
    };
    if !same(eb, obs.bytes()) {
        d.push(("bytes_per_iteration", format!("{eb:?}"), format!("{:?}", obs.bytes())));
    }
    if !same(ec, obs.allocations()) {
        d.push(("allocations_per_iteration", format!("{ec:?}"), format!("{:?}", obs.allocations())));
    }
    d
}

struct CaseResult {
    violations: Vec<(String, String)>,
    calls: u64,
    classes: BTreeMap<&'static str, u64>,
    nontrivial: bool,
    digest: u64,
}

fn window_kinds(case: &Case, s: &SpanSpec) -> String {
    let w = &case.ops[s.gs as usize..s.ge as usize];
    match w.len() {
        0 => "empty_window".to_string(),
        1 => w[0].1.kind_name().to_string(),
        _ => "multi".to_string(),
    }
}

struct Expect {
    expected: BTreeMap<(u8, String), Acc>,
    classes: BTreeMap<&'static str, u64>,
    any_nonzero_span: bool,
}

/// The reference model, run over the case description only (it never looks at the tracker).
fn expectations(case: &Case, skew: bool) -> Expect {
    let n = case.ops.len();
    let t = case.threads as usize;
    let mut model = Model { live: Vec::new(), per: vec![(0, 0); t + 1], total: (0, 0), skew };
    let mut snap: Vec<((u64, u64), (u64, u64))> = vec![((0, 0), (0, 0)); case.spans.len()];
    let mut e = Expect { expected: BTreeMap::new(), classes: BTreeMap::new(), any_nonzero_span: false };
    let class = |e: &mut Expect, c: &'static str| *e.classes.entry(c).or_insert(0) += 1;
    let mut touched = vec![false; t + 1];
    let mut open_process = 0_usize;
    for g in 0..=n {
        for (id, s) in case.spans.iter().enumerate() {
            if s.gs as usize == g {
                let own = if s.kind == Kind::Thread { model.per[s.opener as usize] } else { model.total };
                snap[id] = (own, model.total);
                if s.kind == Kind::Process {
                    open_process += 1;
                } else if s.opener > 0 && !touched[s.opener as usize] {
                    touched[s.opener as usize] = true;
                    class(&mut e, "tls_first_touch_is_thread_span");
                }
            }
        }
        for (id, s) in case.spans.iter().enumerate() {
            if s.ge as usize == g {
                let now = if s.kind == Kind::Thread { model.per[s.opener as usize] } else { model.total };
                let (c, b) = (now.0 - snap[id].0.0, now.1 - snap[id].0.1);
                let (tc, tb) = (model.total.0 - snap[id].1.0, model.total.1 - snap[id].1.1);
                e.expected.entry((s.session, s.name.clone())).or_default().add(s.iters, b, c, id);
                if c > 0 {
                    e.any_nonzero_span = true;
                    class(&mut e, "span_nonzero");
                } else {
                    class(&mut e, "span_zero");
                }
                if s.kind == Kind::Thread && (c, b) != (tc, tb) {
                    class(&mut e, "thread_span_differs_from_process_window");
                }
                if s.kind == Kind::Process {
                    open_process -= 1;
                    if s.opener != s.closer {
                        class(&mut e, "process_span_closed_on_other_thread");
                    }
                }
                if case.ops[s.gs as usize..s.ge as usize].iter().any(|(_, o)| matches!(o, Op::Dealloc(_))) {
                    class(&mut e, "dealloc_inside_window");
                }
            }
        }
        if g < n {
            let (w, op) = case.ops[g];
            let actor = w as usize + 1;
            if !touched[actor] {
                touched[actor] = true;
                if !matches!(op, Op::Dealloc(_)) {
                    class(
                        &mut e,
                        if open_process > 0 { "tls_first_touch_is_call_under_open_process_span" } else { "tls_first_touch_is_call" },
                    );
                }
            }
            model.apply(actor, op);
        }
    }
    e
}

fn worker_body(ctx: &Ctx, me: usize) {
    let mut local: Vec<Option<ThreadSpan>> = (0..ctx.spans.len()).map(|_| None).collect();
    actor_loop(ctx, me, &mut local);
    // An aborted case may leave spans without an iteration count; dropping those would panic.
    for s in local.into_iter().flatten() {
        std::mem::forget(s);
    }
}

/// Long-lived worker threads for the families that do not need fresh threads: their per-thread
/// counters start every case at whatever the previous cases left (non-initial states), and the
/// tracker's registry stays small.
struct Pool {
    txs: Vec<Sender<(Arc<Ctx>, usize)>>,
    threads: Vec<std::thread::Thread>,
    done: Receiver<()>,
}

impl Pool {
    fn new(t: usize) -> Pool {
        let (done_tx, done) = channel::<()>();
        let mut txs = Vec::new();
        let mut threads = Vec::new();
        for _ in 0..t {
            let (tx, rx) = channel::<(Arc<Ctx>, usize)>();
            let d = done_tx.clone();
            let jh = std::thread::spawn(move || {
                while let Ok((ctx, me)) = rx.recv() {
                    worker_body(&ctx, me);
                    drop(ctx);
                    if d.send(()).is_err() {
                        break;
                    }
                }
            });
            threads.push(jh.thread().clone());
            txs.push(tx);
        }
        Pool { txs, threads, done }
    }
}

fn run_case(case: &Case, selftest: SelfTest, pool: Option<&Pool>) -> CaseResult {
    let n = case.ops.len();
    let t = case.threads as usize;
    let inner = Arc::new(InnerShared {
        log: Mutex::new(Vec::with_capacity(16)),
        fail_next: AtomicBool::new(false),
        skew_log: AtomicBool::new(selftest == SelfTest::InnerLogSkew),
    });
    let ctx = Arc::new(Ctx {
        tracker: Allocator::new(CheckingInner(Arc::clone(&inner))),
        inner,
        sessions: [Session::new().no_stdout().no_file(), Session::new().no_stdout().no_file()],
        spans: case.spans.clone(),
        blocks: Mutex::new(Vec::new()),
        pspans: Mutex::new((0..case.spans.len()).map(|_| None).collect()),
        viol: Mutex::new(Vec::new()),
        serial: AtomicU64::new(0),
        calls: AtomicU64::new(0),
        classes: Mutex::new(BTreeMap::new()),
        steps: build_steps(case),
        turn: AtomicUsize::new(0),
        aborted: AtomicBool::new(false),
        handles: OnceLock::new(),
    });
    let Expect { expected, classes: model_classes, any_nonzero_span } = expectations(case, selftest == SelfTest::ModelSkew);

    let controller = |ctx: &Ctx| {
        let mut local: Vec<Option<ThreadSpan>> = (0..case.spans.len()).map(|_| None).collect();
        actor_loop(ctx, 0, &mut local);
        for s in local.into_iter().flatten() {
            std::mem::forget(s);
        }
    };
    if let Some(pool) = pool {
        let mut hs = vec![std::thread::current()];
        hs.extend(pool.threads[..t].iter().cloned());
        let _ = ctx.handles.set(hs);
        for w in 1..=t {
            pool.txs[w - 1].send((Arc::clone(&ctx), w)).expect("pool worker alive");
        }
        controller(&ctx);
        for _ in 0..t {
            pool.done.recv().expect("pool worker alive");
        }
    } else {
        std::thread::scope(|scope| {
            let mut hs = vec![std::thread::current()];
            for w in 1..=t {
                let ctx_ref: &Ctx = &ctx;
                let jh = std::thread::Builder::new()
                    .stack_size(256 * 1024)
                    .spawn_scoped(scope, move || worker_body(ctx_ref, w))
                    .expect("spawn worker thread");
                hs.push(jh.thread().clone());
            }
            let _ = ctx.handles.set(hs);
            for h in &ctx.handles.get().unwrap()[1..] {
                h.unpark();
            }
            controller(&ctx);
        });
    }
    for s in ctx.pspans.lock().unwrap().iter_mut() {
        if let Some(s) = s.take() {
            std::mem::forget(s);
        }
    }
    let aborted = ctx.aborted.load(Ordering::SeqCst);
    for (k, v) in model_classes {
        // "First touch" is only true of threads that were created for this case.
        if pool.is_some() && k.starts_with("tls_first_touch") {
            continue;
        }
        *ctx.classes.lock().unwrap().entry(k).or_insert(0) += v;
    }

    let mut violations = std::mem::take(&mut *ctx.viol.lock().unwrap());
    let mut digest_src = String::new();

    if !aborted {
        let r0 = ctx.sessions[0].to_report();
        let r1 = ctx.sessions[1].to_report();
        let mut exact: Vec<(String, String)> = Vec::new();
        let mut exact_multi: Vec<(String, String)> = Vec::new();
        // Tiers of less and less specific witnesses; only the first non-empty tier of a case is
        // reported: [0] operation totals, [1] merged-report totals, [2] per-iteration figures.
        let mut report: [Vec<(String, String)>; 3] = [Vec::new(), Vec::new(), Vec::new()];
        let tier = |field: &str, base: usize| if field.ends_with("_per_iteration") { 2 } else { base };

        let mut exp_by_session: [BTreeMap<String, Acc>; 2] = [BTreeMap::new(), BTreeMap::new()];
        for ((s, name), acc) in &expected {
            exp_by_session[*s as usize].insert(name.clone(), acc.clone());
        }
        for (si, r) in [&r0, &r1].into_iter().enumerate() {
            let obs: BTreeMap<&str, &ReportOperation> = r.operations().collect();
            let exp = &exp_by_session[si];
            let on: BTreeSet<&str> = obs.keys().copied().collect();
            let en: BTreeSet<&str> = exp.keys().map(String::as_str).collect();
            if on != en {
                report[0].push(("report.operations.names".into(), format!("session {si}: expected operations {en:?}, report has {on:?}")));
                continue;
            }
            for (name, acc) in exp {
                let o = obs[name.as_str()];
                digest_src.push_str(&format!("{si}/{name}:{}:{}:{}:{:?};", o.total_bytes_allocated(), o.total_allocations_count(), o.total_iterations(), o.bytes()));
                for (field, e, ob) in diff_op(acc, o) {
                    if acc.members.len() == 1 && (field == "bytes" || field == "count") {
                        let s = &case.spans[acc.members[0]];
                        let kinds = window_kinds(case, s);
                        let kind = if s.kind == Kind::Thread { "thread" } else { "process" };
                        let item = (
                            format!("exact.{kind}_span.{field}.{kinds}"),
                            format!(
                                "{kind} span opened by actor {} at position {} and closed by actor {} at position {} (window {:?}) recorded {field}={ob}, the calls made in that window amount to {e}",
                                s.opener, s.gs, s.closer, s.ge,
                                case.ops[s.gs as usize..s.ge as usize].iter().map(|(t, o)| format!("w{t}:{}", o.encode())).collect::<Vec<_>>()
                            ),
                        );
                        if kinds == "multi" { exact_multi.push(item) } else { exact.push(item) }
                    } else if acc.members.len() == 1 {
                        report[tier(field, 0)].push((format!("report.single_span.{field}"), format!("operation {name:?} (one span, iterations({})) shows {field}={ob}, expected {e}", case.spans[acc.members[0]].iters)));
                    } else {
                        report[tier(field, 0)].push((format!("report.operation_sum.{field}"), format!("operation {name:?} ({} spans) shows {field}={ob}, the sum over its spans is {e}", acc.members.len())));
                    }
                }
            }
        }
        // Merged reports add up.
        let mut exp_m = exp_by_session[0].clone();
        for (name, acc) in &exp_by_session[1] {
            exp_m.entry(name.clone()).or_default().merge(acc);
        }
        let merged = Report::merge(&r0, &r1);
        let mut exp_m2 = exp_m.clone();
        for (name, acc) in &exp_by_session[0] {
            exp_m2.entry(name.clone()).or_default().merge(acc);
        }
        let merged2 = Report::merge(&merged, &r0);
        for (label, rep, exp) in [("merge(r0,r1)", &merged, &exp_m), ("merge(merge(r0,r1),r0)", &merged2, &exp_m2)] {
            let obs: BTreeMap<&str, &ReportOperation> = rep.operations().collect();
            let on: BTreeSet<&str> = obs.keys().copied().collect();
            let en: BTreeSet<&str> = exp.keys().map(String::as_str).collect();
            if on != en {
                report[1].push(("report.merge.names".into(), format!("{label}: expected operations {en:?}, report has {on:?}")));
                continue;
            }
            for (name, acc) in exp {
                for (field, e, ob) in diff_op(acc, obs[name.as_str()]) {
                    report[tier(field, 1)].push((format!("report.merge.{field}"), format!("{label}: operation {name:?} shows {field}={ob}, the sum of the merged reports is {e}")));
                }
            }
            if exp.values().any(|a| a.s_nn == 0.0) {
                ctx.class("operation_without_finite_rate");
            }
            if exp.values().any(|a| a.s_nn > 0.0 && a.spans > 1) {
                ctx.class("multi_span_rate_checked");
            }
        }
        // Attribution: the narrowest witness wins; sums are only reported when every span is right.
        if !exact.is_empty() {
            violations.extend(exact);
        } else if !exact_multi.is_empty() {
            violations.extend(exact_multi);
        } else {
            if let Some(r) = report.into_iter().find(|r| !r.is_empty()) {
                violations.extend(r);
            }
        }
    }

    // One witness per key per case.
    let mut seen = BTreeSet::new();
    violations.retain(|(k, _)| seen.insert(k.clone()));
    for (k, _) in &violations {
        digest_src.push_str(k);
    }
    let classes = std::mem::take(&mut *ctx.classes.lock().unwrap());
    CaseResult {
        violations,
        calls: ctx.calls.load(Ordering::Relaxed),
        classes,
        nontrivial: n > 0 && any_nonzero_span,
        digest: vcommon::hash_str(&digest_src),
    }
}

// ------------------------------------------------------------------------------------------
// Enumeration
// ------------------------------------------------------------------------------------------

/// All global sequences of length <= n_max over (worker, call). Workers are interchangeable
/// (fresh threads, symmetric roles), so worker indices appear in first-use order (restricted
/// growth); `Realloc`/`Dealloc` index the global live list (a block may be resized or freed by a
/// thread other than the one that allocated it).
///
/// Sharding: the subtrees below the prefixes of length `sd` are dealt round-robin to `nshards`
/// shards; histories shorter than `sd` belong to shard 0. A shard never descends into a subtree
/// that is not its own.
#[derive(Clone, Copy)]
struct Shard {
    sd: usize,
    shard: usize,
    nshards: usize,
}

struct Gen<'a> {
    t_max: u8,
    n_max: usize,
    layouts: u8,
    with_fail: bool,
    sh: Shard,
    prefix_idx: usize,
    cb: &'a mut dyn FnMut(&[(u8, Op)]),
}

impl Gen<'_> {
    fn rec(&mut self, cur: &mut Vec<(u8, Op)>, live: u8, used: u8) {
        if cur.len() < self.sh.sd {
            if self.sh.shard == 0 {
                (self.cb)(cur);
            }
        } else {
            if cur.len() == self.sh.sd {
                let k = self.prefix_idx;
                self.prefix_idx += 1;
                if k % self.sh.nshards != self.sh.shard {
                    return;
                }
            }
            (self.cb)(cur);
        }
        if cur.len() == self.n_max {
            return;
        }
        for w in 0..self.t_max.min(used + 1) {
            let used2 = used.max(w + 1);
            let mut ops: Vec<(Op, u8)> = Vec::new();
            for l in 0..self.layouts {
                ops.push((Op::Alloc(l), live + 1));
            }
            for l in 0..self.layouts {
                ops.push((Op::AllocZeroed(l), live + 1));
            }
            for i in 0..live {
                ops.push((Op::Realloc(i, false), live));
                ops.push((Op::Realloc(i, true), live));
            }
            for i in 0..live {
                ops.push((Op::Dealloc(i), live - 1));
            }
            if self.with_fail {
                ops.push((Op::AllocFail(1), live));
                for i in 0..live {
                    ops.push((Op::ReallocFail(i), live));
                }
            }
            for (op, live2) in ops {
                cur.push((w, op));
                self.rec(cur, live2, used2);
                cur.pop();
            }
        }
    }
}

fn gen_histories(fam: &Family, sh: Shard, cb: &mut dyn FnMut(&[(u8, Op)])) {
    let mut g = Gen { t_max: fam.threads, n_max: fam.depth, layouts: fam.layouts, with_fail: fam.with_fail, sh, prefix_idx: 0, cb };
    g.rec(&mut Vec::new(), 0, 0);
}

fn shard_depth(fam: &Family) -> usize {
    fam.depth.saturating_sub(1).max(1)
}

/// Number of cases the placement mode generates for one history of length `n`.
fn cases_per_history(fam: &Family, n: usize) -> u64 {
    match fam.mode {
        Mode::All { sparse } => 1 + u64::from(sparse),
        Mode::Pairs { combos } => {
            let c = candidates(fam.threads, n as u8).len() as u64;
            c * SINGLE_ITERS.len() as u64 + c * (c + 1) / 2 * combos as u64
        }
    }
}

/// Dry run: (cases, histories, prefixes at the shard depth).
fn count_family(fam: &Family) -> (u64, u64, usize) {
    let sd = shard_depth(fam);
    let mut by_len = vec![0_u64; fam.depth + 1];
    gen_histories(fam, Shard { sd, shard: 0, nshards: 1 }, &mut |h| by_len[h.len()] += 1);
    let cases = by_len.iter().enumerate().map(|(n, k)| k * cases_per_history(fam, n)).sum();
    (cases, by_len.iter().sum(), by_len[sd.min(fam.depth)] as usize)
}

const ITERS: [u64; 5] = [1, 2, 3, 0, 5];

/// (opener, closer, kind) combinations for `t` workers.
fn owners(t: u8) -> Vec<(u8, u8, Kind)> {
    let mut v = Vec::new();
    for a in 0..=t {
        v.push((a, a, Kind::Thread));
        v.push((a, a, Kind::Process));
    }
    if t >= 1 {
        // ProcessSpan is Send: opened on a worker that allocates, closed on the controller.
        v.push((1, 0, Kind::Process));
    }
    v
}

/// Every span at once: for every owner combination and every window (gs <= ge) one span recorded
/// alone into its own operation of session 0, plus duplicates of the worker thread spans and the
/// controller process spans recorded into session 1 — merged by kind into shared operations, or,
/// for windows that end at the last position, under the session-0 name so that merging the two
/// reports has to add operations with equal names.
fn spans_all(t: u8, n: u8) -> Vec<SpanSpec> {
    let mut v: Vec<SpanSpec> = Vec::new();
    for (opener, closer, kind) in owners(t) {
        for gs in 0..=n {
            for ge in gs..=n {
                let id = v.len();
                v.push(SpanSpec { opener, closer, kind, gs, ge, session: 0, name: format!("s{id}"), iters: ITERS[id % 5], at_open: id % 2 == 0 });
            }
        }
    }
    let base = v.len();
    for i in 0..base {
        let s = v[i].clone();
        let dup = (s.kind == Kind::Thread && s.opener > 0) || (s.kind == Kind::Process && s.opener == 0);
        if !dup {
            continue;
        }
        let id = v.len();
        let name = if s.ge == n {
            s.name.clone()
        } else if s.kind == Kind::Thread {
            "all_thread_spans".to_string()
        } else {
            "all_process_spans".to_string()
        };
        v.push(SpanSpec { session: 1, name, iters: ITERS[(id + 2) % 5], at_open: id % 2 == 1, ..s });
    }
    v
}

/// Only controller-owned process spans over every window: the workers' first contact with the
/// tracker is an allocator call made while process spans are already open.
fn spans_sparse(n: u8) -> Vec<SpanSpec> {
    let mut v = Vec::new();
    for gs in 0..=n {
        for ge in gs..=n {
            let id = v.len();
            v.push(SpanSpec { opener: 0, closer: 0, kind: Kind::Process, gs, ge, session: 0, name: format!("s{id}"), iters: ITERS[id % 5], at_open: id % 2 == 0 });
        }
    }
    v
}

fn candidates(t: u8, n: u8) -> Vec<(u8, u8, Kind, u8, u8)> {
    let mut v = Vec::new();
    for (o, c, k) in owners(t) {
        for gs in 0..=n {
            for ge in gs..=n {
                v.push((o, c, k, gs, ge));
            }
        }
    }
    v
}

const PAIR_ITERS: [(u64, u64); 4] = [(1, 1), (2, 3), (0, 1), (0, 0)];
const SINGLE_ITERS: [u64; 3] = [1, 0, 3];

#[derive(Clone, Copy, Debug, PartialEq, Eq)]
enum Mode {
    /// all-spans placement (+ the sparse placement when `sparse`)
    All { sparse: bool },
    /// every single span and every unordered pair of spans, merged into one operation
    Pairs { combos: usize },
}

#[derive(Clone, Debug)]
struct Family {
    name: &'static str,
    threads: u8,
    depth: usize,
    layouts: u8,
    with_fail: bool,
    mode: Mode,
    /// Fresh OS threads for every case (first contact with the tracker's thread-local state is
    /// part of the case) vs. a pool of long-lived workers.
    fresh: bool,
}

fn families(thorough: bool) -> Vec<Family> {
    let f = |name, threads, depth, layouts, with_fail, mode, fresh| Family { name, threads, depth, layouts, with_fail, mode, fresh };
    let all = Mode::All { sparse: true };
    if thorough {
        vec![
            f("fresh_all_t1", 1, 3, 4, false, all, true),
            f("fresh_all_t2", 2, 3, 3, false, all, true),
            f("fresh_all_t3", 3, 2, 3, false, all, true),
            f("fresh_pairs_t1", 1, 2, 3, false, Mode::Pairs { combos: 2 }, true),
            f("fresh_pairs_t2", 2, 1, 3, false, Mode::Pairs { combos: 2 }, true),
            f("all_t1", 1, 5, 4, false, all, false),
            f("all_t2", 2, 5, 3, false, all, false),
            f("all_t2_align4096", 2, 4, 4, false, all, false),
            f("all_t3", 3, 5, 3, false, all, false),
            f("all_t4_align4096", 4, 4, 4, false, all, false),
            f("fail_t1", 1, 4, 3, true, Mode::All { sparse: false }, false),
            f("fail_t2", 2, 3, 3, true, Mode::All { sparse: false }, false),
            f("pairs_t1", 1, 3, 4, false, Mode::Pairs { combos: 4 }, false),
            f("pairs_t2", 2, 3, 3, false, Mode::Pairs { combos: 2 }, false),
        ]
    } else {
        vec![
            f("fresh_all_t1", 1, 3, 3, false, all, true),
            f("fresh_all_t2", 2, 2, 3, false, all, true),
            f("fresh_pairs_t1", 1, 1, 3, false, Mode::Pairs { combos: 2 }, true),
            f("all_t1", 1, 4, 3, false, all, false),
            f("all_t2", 2, 4, 3, false, all, false),
            f("fail_t1", 1, 3, 3, true, Mode::All { sparse: false }, false),
            f("pairs_t1", 1, 2, 3, false, Mode::Pairs { combos: 4 }, false),
            f("pairs_t2", 2, 2, 3, false, Mode::Pairs { combos: 2 }, false),
        ]
    }
}

/// Calls `f` for every case of the family whose history index falls into the shard.
fn for_each_case(fam: &Family, sh: Shard, f: &mut dyn FnMut(Case) -> bool) {
    let mut stop = false;
    let mut all_cache: BTreeMap<u8, Vec<SpanSpec>> = BTreeMap::new();
    let mut sparse_cache: BTreeMap<u8, Vec<SpanSpec>> = BTreeMap::new();
    let mut cand_cache: BTreeMap<u8, Vec<(u8, u8, Kind, u8, u8)>> = BTreeMap::new();
    gen_histories(fam, sh, &mut |h| {
        if stop {
            return;
        }
        let n = h.len() as u8;
        let mk = |spans: Vec<SpanSpec>, placement: Vec<u32>| Case {
            family: fam.name.to_string(),
            threads: fam.threads,
            ops: h.to_vec(),
            spans,
            placement,
        };
        match fam.mode {
            Mode::All { sparse } => {
                let spans = all_cache.entry(n).or_insert_with(|| spans_all(fam.threads, n)).clone();
                if !f(mk(spans, vec![0])) {
                    stop = true;
                    return;
                }
                if sparse {
                    let spans = sparse_cache.entry(n).or_insert_with(|| spans_sparse(n)).clone();
                    if !f(mk(spans, vec![1])) {
                        stop = true;
                    }
                }
            }
            Mode::Pairs { combos } => {
                let cands = cand_cache.entry(n).or_insert_with(|| candidates(fam.threads, n)).clone();
                let spec = |c: (u8, u8, Kind, u8, u8), iters: u64, at_open: bool| SpanSpec {
                    opener: c.0,
                    closer: c.1,
                    kind: c.2,
                    gs: c.3,
                    ge: c.4,
                    session: 0,
                    name: "x".to_string(),
                    iters,
                    at_open,
                };
                for i in 0..cands.len() {
                    for (k, it) in SINGLE_ITERS.iter().enumerate() {
                        if !f(mk(vec![spec(cands[i], *it, k % 2 == 0)], vec![2, i as u32, k as u32])) {
                            stop = true;
                            return;
                        }
                    }
                    for j in i..cands.len() {
                        for (k, (a, b)) in PAIR_ITERS.iter().take(combos).enumerate() {
                            let spans = vec![spec(cands[i], *a, true), spec(cands[j], *b, false)];
                            if !f(mk(spans, vec![3, i as u32, j as u32, k as u32])) {
                                stop = true;
                                return;
                            }
                        }
                    }
                }
            }
        }
    });
}

// ------------------------------------------------------------------------------------------
// Child / parent
// ------------------------------------------------------------------------------------------

fn child_main(job: &str) -> ! {
    vcommon::quiet_panics();
    let parts: Vec<&str> = job.split(':').collect();
    let fam_name = parts[0];
    let shard: usize = parts[1].parse().unwrap();
    let nshards: usize = parts[2].parse().unwrap();
    let budget = Duration::from_secs(parts[3].parse().unwrap());
    let fam = families(vcommon::is_thorough()).into_iter().find(|f| f.name == fam_name).expect("family");
    let start = Instant::now();

    let mut evaluations = 0_u64;
    let mut calls = 0_u64;
    let mut distinct: HashSet<u64> = HashSet::new();
    let mut nontrivial: HashSet<u64> = HashSet::new();
    let mut classes: BTreeMap<String, u64> = BTreeMap::new();
    let mut viol: BTreeMap<String, (u64, String, Value)> = BTreeMap::new();
    let mut samples: Vec<Value> = Vec::new();
    let mut capped = false;
    let mut max_len = 0_usize;

    let sh = Shard { sd: shard_depth(&fam), shard, nshards };
    let pool = if fam.fresh { None } else { Some(Pool::new(fam.threads as usize)) };
    for_each_case(&fam, sh, &mut |case| {
        if evaluations % 256 == 0 && start.elapsed() > budget {
            capped = true;
            return false;
        }
        let r = run_case(&case, SelfTest::None, pool.as_ref());
        evaluations += 1;
        calls += r.calls;
        max_len = max_len.max(case.ops.len());
        let h = case.hash();
        distinct.insert(h);
        if r.nontrivial {
            nontrivial.insert(h);
            if shard == 0 && samples.len() < 2 && case.ops.len() >= 2 && case.spans.len() <= 6 {
                samples.push(case.to_json());
            }
        }
        for (k, v) in r.classes {
            *classes.entry(k.to_string()).or_insert(0) += v;
        }
        for (k, s) in r.violations {
            let e = viol.entry(k).or_insert_with(|| (0, s, case.to_json()));
            e.0 += 1;
        }
        true
    });

    vcommon::child_result(&json!({
        "family": fam.name,
        "evaluations": evaluations,
        "calls": calls,
        "distinct": distinct.len(),
        "nontrivial": nontrivial.len(),
        "classes": classes,
        "capped": capped,
        "max_len": max_len,
        "samples": samples,
        "violations": viol.into_iter().map(|(k, (n, s, c))| json!({"key": k, "n": n, "summary": s, "case": c})).collect::<Vec<_>>(),
    }));
    std::process::exit(0);
}

fn replay_main(path: &str) -> ! {
    vcommon::quiet_panics();
    let text = std::fs::read_to_string(path).expect("replay file");
    let v: Value = vcommon::serde_json::from_str(&text).expect("replay json");
    let cv = v.get("replay").unwrap_or(&v);
    let Some(case) = Case::from_json(cv) else {
        println!("ENGINE-FAILURE property=C18 replay file does not describe a case");
        std::process::exit(2);
    };
    let r = run_case(&case, SelfTest::None, None);
    println!("replayed case: {} calls, {} spans, classes {:?}", case.ops.len(), case.spans.len(), r.classes.keys().collect::<Vec<_>>());
    for (k, s) in &r.violations {
        println!("VIOLATION property=C18 replay={path} key={k} :: {s}");
    }
    std::process::exit(if r.violations.is_empty() { 0 } else { 1 });
}

fn demo_case() -> Case {
    let ops = vec![(0, Op::Alloc(1)), (1, Op::AllocZeroed(2)), (1, Op::Realloc(0, true)), (0, Op::Dealloc(1))];
    Case { family: "selftest".into(), threads: 2, spans: spans_all(2, ops.len() as u8), ops, placement: vec![0] }
}

fn main() {
    if let Some(job) = vcommon::child_job() {
        child_main(&job);
    }
    if let Ok(p) = std::env::var("VERIF_REPLAY") {
        replay_main(&p);
    }
    if std::env::var("C18_LOUD").is_err() {
        vcommon::quiet_panics();
    }
    let thorough = vcommon::is_thorough();
    let mut c = vcommon::Check::new("C18", "model_checking");
    c.max_samples = 8;

    // Determinism obligation + oracle self-tests (the harness must be able to fail).
    let demo = demo_case();
    let a = run_case(&demo, SelfTest::None, None);
    let pool = Pool::new(2);
    let b = run_case(&demo, SelfTest::None, Some(&pool));
    let b2 = run_case(&demo, SelfTest::None, Some(&pool));
    if a.digest != b.digest || b.digest != b2.digest {
        c.engine_failure("the same case produced two different observation digests");
    }
    if !a.violations.is_empty() {
        // Not an engine failure: a real verdict on the demo case will also show up below.
        eprintln!("note: demo case already violates: {:?}", a.violations);
    }
    let s1 = run_case(&demo, SelfTest::InnerLogSkew, None);
    // The self-tests are calibrated against a tracker that passes the demo case; if it does not,
    // the verdict comes from the exploration below and the self-tests say nothing.
    let calibrated = a.violations.is_empty();
    if calibrated && !s1.violations.iter().any(|(k, _)| k == "transparent.forward.realloc.new_size") {
        c.engine_failure(&format!("self-test: a skewed inner-allocator log was not noticed ({:?})", s1.violations));
    }
    let s2 = run_case(&demo, SelfTest::ModelSkew, Some(&pool));
    if calibrated && !s2.violations.iter().any(|(k, _)| k.starts_with("exact.") && k.ends_with(".count.dealloc")) {
        c.engine_failure(&format!("self-test: a model that counts frees agreed with the tracker ({:?})", s2.violations));
    }
    c.extra.insert("self_tests".into(), json!({
        "determinism": "demo case run twice, identical digests",
        "inner_log_skew_detected_as": s1.violations.iter().map(|(k, _)| k.clone()).collect::<Vec<_>>(),
        "model_counting_frees_detected_as": s2.violations.iter().map(|(k, _)| k.clone()).collect::<Vec<_>>(),
    }));

    let fams = families(thorough);
    if std::env::var("C18_COUNT").is_ok() {
        for f in &fams {
            let t0 = Instant::now();
            let (cases, histories, prefixes) = count_family(f);
            println!("{}: cases={cases} histories={histories} prefixes={prefixes} ({:?})", f.name, t0.elapsed());
        }
        return;
    }
    let par = vcommon::default_parallelism();
    let budget_s: u64 = if thorough { 1500 } else { 50 };
    // Shard so that one child process registers a bounded number of threads with the tracker:
    // its registry of per-thread counters is never cleared, and every process-span snapshot walks
    // all of it, so cost per case grows with the number of cases a process has already run.
    let mut jobs: Vec<String> = Vec::new();
    let mut planned: BTreeMap<String, u64> = BTreeMap::new();
    for f in &fams {
        let (cases, _histories, prefixes) = count_family(f);
        planned.insert(f.name.to_string(), cases);
        let per_shard: u64 = match (f.fresh, f.mode) {
            (true, Mode::All { .. }) => 3000 / u64::from(f.threads),
            (true, Mode::Pairs { .. }) => 40_000 / u64::from(f.threads),
            (false, _) => 200_000,
        };
        let shards = (cases.div_ceil(per_shard) as usize).max(par).min(prefixes.max(1));
        for s in 0..shards {
            jobs.push(format!("{}:{s}:{shards}:{budget_s}", f.name));
        }
    }
    let results = vcommon::run_jobs(&jobs, par, Duration::from_secs(budget_s + 120));

    let mut per_family: BTreeMap<String, (u64, u64, u64, u64, u64)> = BTreeMap::new();
    for r in &results {
        let Some(v) = r.result_json() else {
            c.engine_failure(&format!(
                "child {} produced no result (exit {:?}, timed_out {}): {}",
                r.job,
                r.exit_code,
                r.timed_out,
                r.stderr.chars().rev().take(600).collect::<String>().chars().rev().collect::<String>()
            ));
        };
        let ev = v["evaluations"].as_u64().unwrap_or(0);
        let calls = v["calls"].as_u64().unwrap_or(0);
        let d = v["distinct"].as_u64().unwrap_or(0);
        let nt = v["nontrivial"].as_u64().unwrap_or(0);
        c.evaluations += ev;
        c.traces_validated += ev;
        c.transitions += calls;
        c.states += d;
        c.distinct_add(nt);
        let e = per_family.entry(v["family"].as_str().unwrap_or("?").to_string()).or_default();
        e.0 += ev;
        e.1 += d;
        e.2 += nt;
        e.3 += calls;
        e.4 = e.4.max(v["max_len"].as_u64().unwrap_or(0));
        if v["capped"].as_bool().unwrap_or(false) {
            c.cap_hit(&format!("time budget hit in job {} after {ev} cases", r.job));
        }
        if let Some(m) = v["classes"].as_object() {
            for (k, n) in m {
                c.outcome_n(k, n.as_u64().unwrap_or(0));
            }
        }
        for s in v["samples"].as_array().cloned().unwrap_or_default() {
            c.sample(s);
        }
        for x in v["violations"].as_array().cloned().unwrap_or_default() {
            let key = x["key"].as_str().unwrap_or("?").to_string();
            if key == "ENGINE" {
                c.engine_failure(&format!("harness-side failure: {}", x["summary"]));
            }
            c.violation(&key, &format!("{} [{} cases in job {}]", x["summary"].as_str().unwrap_or(""), x["n"], r.job), x["case"].clone());
        }
    }
    if c.samples.is_empty() {
        c.sample(demo.to_json());
    }
    // Exhaustiveness cross-check: the shards together must have run exactly the cases a dry run of
    // the enumerator counts.
    if c.caps_hit.is_empty() {
        for (name, want) in &planned {
            let got = per_family.get(name).map(|e| e.0).unwrap_or(0);
            if got != *want {
                c.engine_failure(&format!("family {name}: the shards ran {got} cases, the enumerator counts {want}"));
            }
        }
    }

    // Anti-vacuity: all of these classes must have been seen, otherwise the enumeration did not
    // reach the situations the oracle is about.
    let mut required = vec![
        "span_zero",
        "span_nonzero",
        "thread_span_differs_from_process_window",
        "dealloc_inside_window",
        "zeroed_verified",
        "null_returned_alloc",
        "null_returned_realloc",
        "tls_first_touch_is_thread_span",
        "tls_first_touch_is_call",
        "tls_first_touch_is_call_under_open_process_span",
        "process_span_closed_on_other_thread",
        "operation_without_finite_rate",
        "multi_span_rate_checked",
    ];
    if c.violation_count() > 0 {
        // Aborted cases legitimately hide classes.
        required.clear();
    }
    for k in required {
        if !c.outcomes().contains_key(k) {
            c.engine_failure(&format!("anti-vacuity: outcome class {k} was never observed"));
        }
    }
    if !c.outcomes().contains_key("realloc_moved") && !c.outcomes().contains_key("realloc_in_place") && c.violation_count() == 0 {
        c.engine_failure("anti-vacuity: no successful realloc was observed");
    }

    c.extra.insert(
        "families".into(),
        json!(per_family.iter().map(|(k, v)| (k.clone(), json!({"cases": v.0, "distinct": v.1, "nontrivial": v.2, "allocator_calls": v.3, "max_history_len": v.4}))).collect::<BTreeMap<_, _>>()),
    );
    c.extra.insert(
        "family_bounds".into(),
        json!(fams.iter().map(|f| json!({"name": f.name, "worker_threads": f.threads, "max_history_len": f.depth, "layouts": &LAYOUTS[..f.layouts as usize], "refused_requests": f.with_fail, "placement": format!("{:?}", f.mode), "fresh_threads_per_case": f.fresh})).collect::<Vec<_>>()),
    );
    c.rule = format!(
        "Exhaustive within the bound. A case = (global history, thread assignment, span placement). Histories: every sequence of \
         length <= d over alloc(L), alloc_zeroed(L), realloc(i, smaller|larger), dealloc(i) (i over the live blocks, L from the layout \
         table; the fail_* families add requests the inner allocator refuses), every call assigned to one of T worker threads (fresh OS threads per case in the fresh_* families, a pool of long-lived \
         threads with non-zero counter baselines elsewhere) in every way up to renaming of workers (first-use order), which at call granularity is every interleaving of every per-thread \
         history, including blocks resized/freed by another thread than the allocating one. Real OS threads, one runs at a time (baton). \
         Placement 'All': for every owner (controller / each worker / opened on worker closed on controller) x kind (thread, process) x \
         window gs<=ge over the positions 0..=len one span in its own operation, plus duplicates merged into shared operations and into \
         a second session whose report is merged with the first; placement 'sparse': only controller process spans over every window; \
         placement 'Pairs': every single span and every unordered pair of candidate spans recorded into one operation under {} iteration \
         combinations. Bounds ({}): {}. Distinct = distinct (family, history, assignment, placement) hashes; non-trivial = at least one \
         allocator call and at least one span whose window contains a counted call.",
        PAIR_ITERS.len(),
        c.tier(),
        fams.iter().map(|f| format!("{}: T={} d<={} layouts={}", f.name, f.threads, f.depth, f.layouts)).collect::<Vec<_>>().join("; ")
    );
    c.assumptions.push("Span boundaries are quiescent points (no allocator call is in flight); tearing between the bytes and count counters inside one call is outside the property and not asserted.".into());
    c.assumptions.push("A request the inner allocator refuses (null) is still an allocation call with a requested size and is expected to be counted; the tracker must hand the null through.".into());
    c.assumptions.push("Interleavings are at allocator-call granularity under sequential consistency; the tracker's counters are per-thread atomics touched only by the owning thread, so finer interleavings add no behaviours to a thread's own counters.".into());
    c.assumptions.push("The wrapped allocator is std::alloc::System behind a logging shim; the tracker is used as a value, not as #[global_allocator], so the counters only see the harness's explicit calls.".into());
    c.assumptions.push("The per-iteration figure is checked against the documented through-origin slope sum(n*t)/sum(n*n) (folo_utils::SpanAccumulator) with 1e-9 relative tolerance; totals are checked exactly.".into());
    c.finish();
}

//! `Put` = pool under test: one uniform face over the nine pool types and their handle types.

use std::mem::MaybeUninit;
use std::ptr::NonNull;

use infinity_pool::verif::PoolProbe;
use infinity_pool::{
    BlindPool, BlindPooled, BlindPooledMut, DropPolicy, LocalBlindPool, LocalBlindPooled,
    LocalBlindPooledMut, LocalOpaquePool, LocalPinnedPool, LocalPooled, LocalPooledMut, OpaquePool,
    PinnedPool, Pooled, PooledMut, RawBlindPool, RawBlindPooled, RawBlindPooledMut, RawOpaquePool,
    RawPinnedPool, RawPooled, RawPooledMut, define_pooled_dyn_cast,
};

use crate::payload::{Payload, Probe};

define_pooled_dyn_cast!(Probe);

/// Spelled out: inside `&Self::M<dyn Probe>` the elided object lifetime would not default to 'static.
pub type DynProbe = dyn Probe + 'static;

#[derive(Clone, Copy, PartialEq, Eq, Debug)]
pub enum Family {
    /// Manual lifetime: `pool.remove(handle)`, handles are plain (copyable when shared) pointers.
    Raw,
    /// `Rc`-style handles; dropping a handle removes the object.
    Local,
    /// `Arc`-style handles; dropping a handle removes the object.
    Managed,
}

/// Result of driving a pool iterator with a front/back script and then draining it.
pub struct IterRun {
    pub initial_len: usize,
    pub yielded: Vec<usize>,
}

pub fn run_iter<X, I>(mut it: I, script: &[bool], drain_front: bool) -> IterRun
where
    I: DoubleEndedIterator<Item = NonNull<X>> + ExactSizeIterator,
{
    let initial_len = it.len();
    let mut yielded = Vec::with_capacity(initial_len);
    let mut step = 0_usize;
    loop {
        let front = if step < script.len() { script[step] } else { drain_front };
        step += 1;
        let item = if front { it.next() } else { it.next_back() };
        match item {
            Some(p) => {
                yielded.push(p.as_ptr() as *const () as usize);
                if yielded.len() > initial_len.saturating_add(4) {
                    // Runaway iterator: stop, the caller reports the mismatch.
                    break;
                }
            }
            None => break,
        }
    }
    IterRun { initial_len, yielded }
}

pub trait Put<T: Payload>: Sized {
    const NAME: &'static str;
    const FAMILY: Family;
    const BLIND: bool;
    type M<U: ?Sized + Send + 'static>;
    type S<U: ?Sized + Send + 'static>;

    fn new(policy: DropPolicy) -> Self;
    fn insert(&mut self, v: T) -> Self::M<T>;
    fn insert_with(&mut self, id: u64) -> Self::M<T>;
    /// `insert_with` whose initialiser panics before writing anything; the panic is caught here.
    /// The pool must be left exactly as it was.
    fn insert_with_panic(&mut self);
    /// Blind pools only: insert an object of another layout.
    fn insert_sib<X: Payload>(&mut self, v: X) -> Self::M<X>;
    fn len(&self) -> usize;
    fn is_empty(&self) -> bool;
    fn capacity(&self) -> usize;
    fn reserve(&mut self, n: usize);
    fn shrink_to_fit(&mut self);
    /// `None` for pools without an iterator (blind pools).
    fn iterate(&self, script: &[bool], drain_front: bool) -> Option<IterRun>;
    fn probes(&self) -> Vec<PoolProbe>;

    fn m_ptr<U: ?Sized + Send + 'static>(h: &Self::M<U>) -> usize;
    fn s_ptr<U: ?Sized + Send + 'static>(h: &Self::S<U>) -> usize;
    fn m_ref<U: Payload>(h: &Self::M<U>) -> &U;
    fn s_ref<U: Payload>(h: &Self::S<U>) -> &U;
    fn m_dyn(h: &Self::M<DynProbe>) -> &DynProbe;
    fn s_dyn(h: &Self::S<DynProbe>) -> &DynProbe;
    fn m_into_shared<U: ?Sized + Send + 'static>(h: Self::M<U>) -> Self::S<U>;
    fn m_erase<U: ?Sized + Send + 'static>(h: Self::M<U>) -> Self::M<()>;
    fn s_erase<U: ?Sized + Send + 'static>(h: Self::S<U>) -> Self::S<()>;
    fn m_cast(h: Self::M<T>) -> Self::M<DynProbe>;
    fn s_cast(h: Self::S<T>) -> Self::S<DynProbe>;
    fn s_clone<U: ?Sized + Send + 'static>(h: &Self::S<U>) -> Self::S<U>;
    /// Raw: `pool.remove(handle)`. Local/managed: drop the handle (which removes the object).
    fn remove_m<U: ?Sized + Send + 'static>(&mut self, h: Self::M<U>);
    /// Raw: `pool.remove(handle)`. Local/managed: drop this shared handle (removes if it is the last).
    fn remove_s<U: ?Sized + Send + 'static>(&mut self, h: Self::S<U>);
    /// Raw: `remove_unpin`. Local/managed: `into_inner`.
    fn take_m<X: Payload>(&mut self, h: Self::M<X>) -> X;
    /// Raw only: `remove_unpin` through a shared typed handle.
    fn take_s(&mut self, h: Self::S<T>) -> T;
}

fn thin<U: ?Sized>(p: NonNull<U>) -> usize {
    p.as_ptr() as *const () as usize
}

macro_rules! raw_handles {
    ($M:ident, $S:ident) => {
        type M<U: ?Sized + Send + 'static> = $M<U>;
        type S<U: ?Sized + Send + 'static> = $S<U>;
        const FAMILY: Family = Family::Raw;

        fn m_ptr<U: ?Sized + Send + 'static>(h: &$M<U>) -> usize {
            thin(h.ptr())
        }
        fn s_ptr<U: ?Sized + Send + 'static>(h: &$S<U>) -> usize {
            thin(h.ptr())
        }
        fn m_ref<U: Payload>(h: &$M<U>) -> &U {
            // SAFETY: the harness keeps the pool alive while it holds handles.
            unsafe { h.as_ref() }
        }
        fn s_ref<U: Payload>(h: &$S<U>) -> &U {
            // SAFETY: as above.
            unsafe { h.as_ref() }
        }
        fn m_dyn(h: &$M<DynProbe>) -> &DynProbe {
            // SAFETY: as above.
            unsafe { h.as_ref() }
        }
        fn s_dyn(h: &$S<DynProbe>) -> &DynProbe {
            // SAFETY: as above.
            unsafe { h.as_ref() }
        }
        fn m_into_shared<U: ?Sized + Send + 'static>(h: $M<U>) -> $S<U> {
            h.into_shared()
        }
        fn m_erase<U: ?Sized + Send + 'static>(h: $M<U>) -> $M<()> {
            h.erase()
        }
        fn s_erase<U: ?Sized + Send + 'static>(h: $S<U>) -> $S<()> {
            h.erase()
        }
        fn m_cast(h: $M<T>) -> $M<DynProbe> {
            // SAFETY: the pool is alive.
            unsafe { h.cast_probe() }
        }
        fn s_cast(h: $S<T>) -> $S<DynProbe> {
            // SAFETY: the pool is alive.
            unsafe { h.cast_probe() }
        }
        fn s_clone<U: ?Sized + Send + 'static>(h: &$S<U>) -> $S<U> {
            *h
        }
        fn remove_m<U: ?Sized + Send + 'static>(&mut self, h: $M<U>) {
            // SAFETY: the harness only passes handles of objects its model says are in the pool.
            unsafe { self.remove(h) }
        }
        fn remove_s<U: ?Sized + Send + 'static>(&mut self, h: $S<U>) {
            // SAFETY: as above.
            unsafe { self.remove(h) }
        }
    };
}

macro_rules! counted_handles {
    ($family:expr, $M:ident, $S:ident) => {
        type M<U: ?Sized + Send + 'static> = $M<U>;
        type S<U: ?Sized + Send + 'static> = $S<U>;
        const FAMILY: Family = $family;

        fn m_ptr<U: ?Sized + Send + 'static>(h: &$M<U>) -> usize {
            thin(h.ptr())
        }
        fn s_ptr<U: ?Sized + Send + 'static>(h: &$S<U>) -> usize {
            thin(h.ptr())
        }
        fn m_ref<U: Payload>(h: &$M<U>) -> &U {
            h
        }
        fn s_ref<U: Payload>(h: &$S<U>) -> &U {
            h
        }
        fn m_dyn(h: &$M<DynProbe>) -> &DynProbe {
            &**h
        }
        fn s_dyn(h: &$S<DynProbe>) -> &DynProbe {
            &**h
        }
        fn m_into_shared<U: ?Sized + Send + 'static>(h: $M<U>) -> $S<U> {
            h.into_shared()
        }
        fn m_erase<U: ?Sized + Send + 'static>(h: $M<U>) -> $M<()> {
            h.erase()
        }
        fn s_erase<U: ?Sized + Send + 'static>(h: $S<U>) -> $S<()> {
            h.erase()
        }
        fn m_cast(h: $M<T>) -> $M<DynProbe> {
            h.cast_probe()
        }
        fn s_cast(h: $S<T>) -> $S<DynProbe> {
            h.cast_probe()
        }
        fn s_clone<U: ?Sized + Send + 'static>(h: &$S<U>) -> $S<U> {
            h.clone()
        }
        fn remove_m<U: ?Sized + Send + 'static>(&mut self, h: $M<U>) {
            drop(h);
        }
        fn remove_s<U: ?Sized + Send + 'static>(&mut self, h: $S<U>) {
            drop(h);
        }
        fn take_m<X: Payload>(&mut self, h: $M<X>) -> X {
            h.into_inner()
        }
        fn take_s(&mut self, _h: $S<T>) -> T {
            unreachable!("shared counted handles cannot extract by value")
        }
    };
}

macro_rules! common_sizes {
    () => {
        fn len(&self) -> usize {
            Self::len(self)
        }
        fn is_empty(&self) -> bool {
            Self::is_empty(self)
        }
        fn shrink_to_fit(&mut self) {
            Self::shrink_to_fit(self);
        }
    };
}

macro_rules! single_layout {
    () => {
        const BLIND: bool = false;
        fn capacity(&self) -> usize {
            Self::capacity(self)
        }
        fn reserve(&mut self, n: usize) {
            Self::reserve(self, n);
        }
        fn insert_sib<X: Payload>(&mut self, _v: X) -> Self::M<X> {
            unreachable!("only blind pools take other layouts")
        }
        fn probes(&self) -> Vec<PoolProbe> {
            vec![self.verif_probe()]
        }
    };
}

macro_rules! blind_layout {
    () => {
        const BLIND: bool = true;
        fn capacity(&self) -> usize {
            self.capacity_for::<T>()
        }
        fn reserve(&mut self, n: usize) {
            self.reserve_for::<T>(n);
        }
        fn insert_sib<X: Payload>(&mut self, v: X) -> Self::M<X> {
            Self::insert(self, v)
        }
        fn probes(&self) -> Vec<PoolProbe> {
            self.verif_probe()
        }
        fn iterate(&self, _script: &[bool], _drain_front: bool) -> Option<IterRun> {
            None
        }
    };
}

// ---------------------------------------------------------------- raw

impl<T: Payload> Put<T> for RawOpaquePool {
    const NAME: &'static str = "RawOpaquePool";
    raw_handles!(RawPooledMut, RawPooled);
    common_sizes!();
    single_layout!();

    fn new(policy: DropPolicy) -> Self {
        Self::builder().layout_of::<T>().drop_policy(policy).build()
    }
    fn insert(&mut self, v: T) -> RawPooledMut<T> {
        Self::insert(self, v)
    }
    fn insert_with(&mut self, id: u64) -> RawPooledMut<T> {
        // SAFETY: `init` fully initialises the object.
        unsafe { Self::insert_with(self, |u: &mut MaybeUninit<T>| T::init(u, id)) }
    }
    fn insert_with_panic(&mut self) {
        let r = std::panic::catch_unwind(std::panic::AssertUnwindSafe(|| {
            // SAFETY: the initialiser never returns, so no uninitialised object is ever exposed.
            let _h = unsafe { Self::insert_with(self, |_u: &mut MaybeUninit<T>| panic!("c01: initialiser fails")) };
        }));
        assert!(r.is_err(), "insert_with returned although its initialiser panicked");
    }
    fn iterate(&self, script: &[bool], drain_front: bool) -> Option<IterRun> {
        Some(run_iter(self.iter(), script, drain_front))
    }
    fn take_m<X: Payload>(&mut self, h: RawPooledMut<X>) -> X {
        // SAFETY: the model says the object is in the pool.
        unsafe { self.remove_unpin(h) }
    }
    fn take_s(&mut self, h: RawPooled<T>) -> T {
        // SAFETY: the model says the object is in the pool.
        unsafe { self.remove_unpin(h) }
    }
}

impl<T: Payload> Put<T> for RawPinnedPool<T> {
    const NAME: &'static str = "RawPinnedPool";
    raw_handles!(RawPooledMut, RawPooled);
    common_sizes!();
    single_layout!();

    fn new(policy: DropPolicy) -> Self {
        Self::builder().drop_policy(policy).build()
    }
    fn insert(&mut self, v: T) -> RawPooledMut<T> {
        Self::insert(self, v)
    }
    fn insert_with(&mut self, id: u64) -> RawPooledMut<T> {
        // SAFETY: `init` fully initialises the object.
        unsafe { Self::insert_with(self, |u: &mut MaybeUninit<T>| T::init(u, id)) }
    }
    fn insert_with_panic(&mut self) {
        let r = std::panic::catch_unwind(std::panic::AssertUnwindSafe(|| {
            // SAFETY: the initialiser never returns, so no uninitialised object is ever exposed.
            let _h = unsafe { Self::insert_with(self, |_u: &mut MaybeUninit<T>| panic!("c01: initialiser fails")) };
        }));
        assert!(r.is_err(), "insert_with returned although its initialiser panicked");
    }
    fn iterate(&self, script: &[bool], drain_front: bool) -> Option<IterRun> {
        Some(run_iter(self.iter(), script, drain_front))
    }
    fn take_m<X: Payload>(&mut self, h: RawPooledMut<X>) -> X {
        // Only ever called with X = T (a pinned pool holds one type); go through the typed API.
        let typed: RawPooledMut<T> = cast_same::<RawPooledMut<X>, RawPooledMut<T>>(h);
        // SAFETY: the model says the object is in the pool.
        let v = unsafe { self.remove_unpin(typed) };
        cast_same::<T, X>(v)
    }
    fn take_s(&mut self, h: RawPooled<T>) -> T {
        // SAFETY: the model says the object is in the pool.
        unsafe { self.remove_unpin(h) }
    }
}

impl<T: Payload> Put<T> for RawBlindPool {
    const NAME: &'static str = "RawBlindPool";
    raw_handles!(RawBlindPooledMut, RawBlindPooled);
    common_sizes!();
    blind_layout!();

    fn new(policy: DropPolicy) -> Self {
        Self::builder().drop_policy(policy).build()
    }
    fn insert(&mut self, v: T) -> RawBlindPooledMut<T> {
        Self::insert(self, v)
    }
    fn insert_with(&mut self, id: u64) -> RawBlindPooledMut<T> {
        // SAFETY: `init` fully initialises the object.
        unsafe { Self::insert_with(self, |u: &mut MaybeUninit<T>| T::init(u, id)) }
    }
    fn insert_with_panic(&mut self) {
        let r = std::panic::catch_unwind(std::panic::AssertUnwindSafe(|| {
            // SAFETY: the initialiser never returns, so no uninitialised object is ever exposed.
            let _h = unsafe { Self::insert_with(self, |_u: &mut MaybeUninit<T>| panic!("c01: initialiser fails")) };
        }));
        assert!(r.is_err(), "insert_with returned although its initialiser panicked");
    }
    fn take_m<X: Payload>(&mut self, h: RawBlindPooledMut<X>) -> X {
        // SAFETY: the model says the object is in the pool.
        unsafe { self.remove_unpin(h) }
    }
    fn take_s(&mut self, h: RawBlindPooled<T>) -> T {
        // SAFETY: the model says the object is in the pool.
        unsafe { self.remove_unpin(h) }
    }
}

/// Identity conversion between two types that are the same at run time (checked).
fn cast_same<A: 'static, B: 'static>(a: A) -> B {
    assert_eq!(std::any::TypeId::of::<A>(), std::any::TypeId::of::<B>());
    let a = std::mem::ManuallyDrop::new(a);
    // SAFETY: A and B are the same type.
    unsafe { std::ptr::read((&raw const *a).cast::<B>()) }
}

// ---------------------------------------------------------------- local

impl<T: Payload> Put<T> for LocalOpaquePool {
    const NAME: &'static str = "LocalOpaquePool";
    counted_handles!(Family::Local, LocalPooledMut, LocalPooled);
    common_sizes!();
    single_layout!();

    fn new(_policy: DropPolicy) -> Self {
        Self::with_layout_of::<T>()
    }
    fn insert(&mut self, v: T) -> LocalPooledMut<T> {
        Self::insert(self, v)
    }
    fn insert_with(&mut self, id: u64) -> LocalPooledMut<T> {
        // SAFETY: `init` fully initialises the object.
        unsafe { Self::insert_with(self, |u: &mut MaybeUninit<T>| T::init(u, id)) }
    }
    fn insert_with_panic(&mut self) {
        let r = std::panic::catch_unwind(std::panic::AssertUnwindSafe(|| {
            // SAFETY: the initialiser never returns, so no uninitialised object is ever exposed.
            let _h = unsafe { Self::insert_with(self, |_u: &mut MaybeUninit<T>| panic!("c01: initialiser fails")) };
        }));
        assert!(r.is_err(), "insert_with returned although its initialiser panicked");
    }
    fn iterate(&self, script: &[bool], drain_front: bool) -> Option<IterRun> {
        Some(self.with_iter(|it| run_iter(it, script, drain_front)))
    }
}

impl<T: Payload> Put<T> for LocalPinnedPool<T> {
    const NAME: &'static str = "LocalPinnedPool";
    counted_handles!(Family::Local, LocalPooledMut, LocalPooled);
    common_sizes!();
    single_layout!();

    fn new(_policy: DropPolicy) -> Self {
        Self::new()
    }
    fn insert(&mut self, v: T) -> LocalPooledMut<T> {
        Self::insert(self, v)
    }
    fn insert_with(&mut self, id: u64) -> LocalPooledMut<T> {
        // SAFETY: `init` fully initialises the object.
        unsafe { Self::insert_with(self, |u: &mut MaybeUninit<T>| T::init(u, id)) }
    }
    fn insert_with_panic(&mut self) {
        let r = std::panic::catch_unwind(std::panic::AssertUnwindSafe(|| {
            // SAFETY: the initialiser never returns, so no uninitialised object is ever exposed.
            let _h = unsafe { Self::insert_with(self, |_u: &mut MaybeUninit<T>| panic!("c01: initialiser fails")) };
        }));
        assert!(r.is_err(), "insert_with returned although its initialiser panicked");
    }
    fn iterate(&self, script: &[bool], drain_front: bool) -> Option<IterRun> {
        Some(self.with_iter(|it| run_iter(it, script, drain_front)))
    }
}

impl<T: Payload> Put<T> for LocalBlindPool {
    const NAME: &'static str = "LocalBlindPool";
    counted_handles!(Family::Local, LocalBlindPooledMut, LocalBlindPooled);
    common_sizes!();
    blind_layout!();

    fn new(_policy: DropPolicy) -> Self {
        Self::new()
    }
    fn insert(&mut self, v: T) -> LocalBlindPooledMut<T> {
        Self::insert(self, v)
    }
    fn insert_with(&mut self, id: u64) -> LocalBlindPooledMut<T> {
        // SAFETY: `init` fully initialises the object.
        unsafe { Self::insert_with(self, |u: &mut MaybeUninit<T>| T::init(u, id)) }
    }
    fn insert_with_panic(&mut self) {
        let r = std::panic::catch_unwind(std::panic::AssertUnwindSafe(|| {
            // SAFETY: the initialiser never returns, so no uninitialised object is ever exposed.
            let _h = unsafe { Self::insert_with(self, |_u: &mut MaybeUninit<T>| panic!("c01: initialiser fails")) };
        }));
        assert!(r.is_err(), "insert_with returned although its initialiser panicked");
    }
}

// ---------------------------------------------------------------- managed

impl<T: Payload> Put<T> for OpaquePool {
    const NAME: &'static str = "OpaquePool";
    counted_handles!(Family::Managed, PooledMut, Pooled);
    common_sizes!();
    single_layout!();

    fn new(_policy: DropPolicy) -> Self {
        Self::with_layout_of::<T>()
    }
    fn insert(&mut self, v: T) -> PooledMut<T> {
        Self::insert(self, v)
    }
    fn insert_with(&mut self, id: u64) -> PooledMut<T> {
        // SAFETY: `init` fully initialises the object.
        unsafe { Self::insert_with(self, |u: &mut MaybeUninit<T>| T::init(u, id)) }
    }
    fn insert_with_panic(&mut self) {
        let r = std::panic::catch_unwind(std::panic::AssertUnwindSafe(|| {
            // SAFETY: the initialiser never returns, so no uninitialised object is ever exposed.
            let _h = unsafe { Self::insert_with(self, |_u: &mut MaybeUninit<T>| panic!("c01: initialiser fails")) };
        }));
        assert!(r.is_err(), "insert_with returned although its initialiser panicked");
    }
    fn iterate(&self, script: &[bool], drain_front: bool) -> Option<IterRun> {
        Some(self.with_iter(|it| run_iter(it, script, drain_front)))
    }
}

impl<T: Payload> Put<T> for PinnedPool<T> {
    const NAME: &'static str = "PinnedPool";
    counted_handles!(Family::Managed, PooledMut, Pooled);
    common_sizes!();
    single_layout!();

    fn new(_policy: DropPolicy) -> Self {
        Self::new()
    }
    fn insert(&mut self, v: T) -> PooledMut<T> {
        Self::insert(self, v)
    }
    fn insert_with(&mut self, id: u64) -> PooledMut<T> {
        // SAFETY: `init` fully initialises the object.
        unsafe { Self::insert_with(self, |u: &mut MaybeUninit<T>| T::init(u, id)) }
    }
    fn insert_with_panic(&mut self) {
        let r = std::panic::catch_unwind(std::panic::AssertUnwindSafe(|| {
            // SAFETY: the initialiser never returns, so no uninitialised object is ever exposed.
            let _h = unsafe { Self::insert_with(self, |_u: &mut MaybeUninit<T>| panic!("c01: initialiser fails")) };
        }));
        assert!(r.is_err(), "insert_with returned although its initialiser panicked");
    }
    fn iterate(&self, script: &[bool], drain_front: bool) -> Option<IterRun> {
        Some(self.with_iter(|it| run_iter(it, script, drain_front)))
    }
}

impl<T: Payload> Put<T> for BlindPool {
    const NAME: &'static str = "BlindPool";
    counted_handles!(Family::Managed, BlindPooledMut, BlindPooled);
    common_sizes!();
    blind_layout!();

    fn new(_policy: DropPolicy) -> Self {
        Self::new()
    }
    fn insert(&mut self, v: T) -> BlindPooledMut<T> {
        Self::insert(self, v)
    }
    fn insert_with(&mut self, id: u64) -> BlindPooledMut<T> {
        // SAFETY: `init` fully initialises the object.
        unsafe { Self::insert_with(self, |u: &mut MaybeUninit<T>| T::init(u, id)) }
    }
    fn insert_with_panic(&mut self) {
        let r = std::panic::catch_unwind(std::panic::AssertUnwindSafe(|| {
            // SAFETY: the initialiser never returns, so no uninitialised object is ever exposed.
            let _h = unsafe { Self::insert_with(self, |_u: &mut MaybeUninit<T>| panic!("c01: initialiser fails")) };
        }));
        assert!(r.is_err(), "insert_with returned although its initialiser panicked");
    }
}

//! C01 / C02: bounded exhaustive exploration of operation histories on the real infinity_pool pools
//! against a boring reference model. One binary, two oracle sets; `VERIF_PROPERTY` picks the
//! authoritative one (and the evidence file).

mod engine;
mod payload;
mod pools;
mod sweep;

use std::collections::BTreeMap;
use std::sync::atomic::{AtomicUsize, Ordering};
use std::time::Duration;

use engine::{Cfg, Op, Prop, RunResult, Viol, run_history};
use infinity_pool::{
    BlindPool, LocalBlindPool, LocalOpaquePool, LocalPinnedPool, OpaquePool, PinnedPool, RawBlindPool, RawOpaquePool, RawPinnedPool,
};
use payload::{HasSibs, P8, P24, P64};
use pools::Put;
use vcommon::explore::{Visit, explore};
use vcommon::serde_json::{Value, json};

// ------------------------------------------------------------------------------------------
// Crash context: a history that makes the real pool abort / segfault must still be reported.
// ------------------------------------------------------------------------------------------

static mut CRASH_BUF: [u8; 2048] = [0; 2048];
static CRASH_LEN: AtomicUsize = AtomicUsize::new(0);

fn set_crash_context(text: &str) {
    let b = text.as_bytes();
    let n = b.len().min(2048);
    // SAFETY: single-threaded child; the signal handler only reads.
    unsafe {
        let buf = &raw mut CRASH_BUF;
        (&mut (*buf))[..n].copy_from_slice(&b[..n]);
    }
    CRASH_LEN.store(n, Ordering::SeqCst);
}

extern "C" fn crash_handler(sig: libc::c_int) {
    let head = b"\n@@CRASH ";
    // SAFETY: async-signal-safe calls only (write, _exit).
    unsafe {
        libc::write(2, head.as_ptr().cast(), head.len());
        let n = CRASH_LEN.load(Ordering::SeqCst);
        let buf = &raw const CRASH_BUF;
        libc::write(2, (*buf).as_ptr().cast(), n);
        let tail = b"\n";
        libc::write(2, tail.as_ptr().cast(), 1);
        libc::_exit(100 + sig);
    }
}

fn install_crash_handler() {
    // SAFETY: installing plain signal handlers.
    unsafe {
        for sig in [libc::SIGSEGV, libc::SIGBUS, libc::SIGABRT, libc::SIGILL] {
            libc::signal(sig, crash_handler as *const () as libc::sighandler_t);
        }
    }
}

// ------------------------------------------------------------------------------------------
// Dispatch over (pool type, payload)
// ------------------------------------------------------------------------------------------

enum Mode<'a> {
    Explore,
    Replay(&'a [Op]),
}

fn dispatch(cfg: &Cfg, mode: Mode<'_>) -> Value {
    match cfg.pay.as_str() {
        "P8" => dispatch_pay::<P8>(cfg, mode),
        "P24" => dispatch_pay::<P24>(cfg, mode),
        "P64" => dispatch_pay::<P64>(cfg, mode),
        other => json!({"engine_failure": format!("unknown payload {other}")}),
    }
}

fn dispatch_pay<T: HasSibs>(cfg: &Cfg, mode: Mode<'_>) -> Value {
    match cfg.pool.as_str() {
        "RawOpaquePool" => entry::<RawOpaquePool, T>(cfg, mode),
        "RawPinnedPool" => entry::<RawPinnedPool<T>, T>(cfg, mode),
        "RawBlindPool" => entry::<RawBlindPool, T>(cfg, mode),
        "LocalOpaquePool" => entry::<LocalOpaquePool, T>(cfg, mode),
        "LocalPinnedPool" => entry::<LocalPinnedPool<T>, T>(cfg, mode),
        "LocalBlindPool" => entry::<LocalBlindPool, T>(cfg, mode),
        "OpaquePool" => entry::<OpaquePool, T>(cfg, mode),
        "PinnedPool" => entry::<PinnedPool<T>, T>(cfg, mode),
        "BlindPool" => entry::<BlindPool, T>(cfg, mode),
        other => json!({"engine_failure": format!("unknown pool {other}")}),
    }
}

fn replay_json(cfg: &Cfg, hist: &[Op]) -> Value {
    json!({"job": cfg.to_job(), "history": hist.iter().map(|o| o.to_text()).collect::<Vec<_>>()})
}

fn entry<P: Put<T>, T: HasSibs>(cfg: &Cfg, mode: Mode<'_>) -> Value {
    match mode {
        Mode::Replay(hist) => {
            println!("REPLAY {} history {:?}", cfg.to_job(), hist.iter().map(|o| o.to_text()).collect::<Vec<_>>());
            let r: RunResult = run_history::<P, T>(cfg, hist, true);
            println!("final: {} ; {} violation(s)", r.summary, r.violations.len());
            for v in &r.violations {
                println!("VIOLATED {} :: {}", v.key, v.msg);
            }
            json!({"violations": r.violations.len()})
        }
        Mode::Explore => {
            let mut viols: BTreeMap<String, (Viol, Value, u64)> = BTreeMap::new();
            let mut outcomes: BTreeMap<String, u64> = BTreeMap::new();
            let mut samples: Vec<Value> = Vec::new();
            let mut engine_failure: Option<String> = None;
            let mut prefix_ops = 0_u64;
            let mut max_enabled = 0_usize;
            let job = cfg.to_job();
            let stats = explore(cfg.depth, |hist: &[Op]| {
                let ctx = format!("{job} | {}", hist.iter().map(|o| o.to_text()).collect::<Vec<_>>().join(","));
                set_crash_context(&ctx);
                let r = run_history::<P, T>(cfg, hist, false);
                prefix_ops += r.prefix_ops;
                max_enabled = max_enabled.max(r.enabled.len());
                for o in &r.outcomes {
                    *outcomes.entry(o.clone()).or_insert(0) += 1;
                }
                if let Some(last) = hist.last() {
                    *outcomes.entry(format!("op:{}", last.name())).or_insert(0) += 1;
                }
                if samples.len() < 2 && hist.len() == cfg.depth && r.violations.is_empty() {
                    samples.push(json!({"job": job, "history": hist.iter().map(|o| o.to_text()).collect::<Vec<_>>(), "end_state": r.summary}));
                }
                let stop = !r.violations.is_empty();
                for v in r.violations {
                    if v.key == "ENGINE" {
                        engine_failure.get_or_insert(v.msg.clone());
                        continue;
                    }
                    let e = viols.entry(v.key.clone()).or_insert_with(|| (v.clone(), replay_json(cfg, hist), 0));
                    e.2 += 1;
                }
                Visit { enabled: r.enabled, canon: if cfg.prune { r.canon } else { None }, stop }
            });
            json!({
                "histories": stats.histories,
                "steps": stats.steps,
                "states": stats.states,
                "edges": stats.edges,
                "pruned": stats.pruned,
                "max_depth": stats.max_depth,
                "prefix_ops": prefix_ops,
                "max_enabled": max_enabled,
                "outcomes": outcomes,
                "samples": samples,
                "engine_failure": engine_failure,
                "violations": viols.iter().map(|(k, (v, replay, n))| json!({"key": k, "msg": v.msg, "replay": replay, "count": n})).collect::<Vec<_>>(),
            })
        }
    }
}

// ------------------------------------------------------------------------------------------
// Sweep jobs
// ------------------------------------------------------------------------------------------

fn sweep_job(job: &str, prop: Prop) -> Value {
    // "sweep kind=raw size=<declared size>" | "sweep kind=blind pool=<name> big=<0|1>"
    let mut m = BTreeMap::new();
    for kv in job.split_whitespace().skip(1) {
        if let Some((k, v)) = kv.split_once('=') {
            m.insert(k.to_string(), v.to_string());
        }
    }
    set_crash_context(job);
    let out = if m.get("kind").map(String::as_str) == Some("raw") {
        let size: usize = m["size"].parse().unwrap_or(0);
        let mut v = sweep::RawSweep { prop, out: sweep::SweepOut::default() };
        sweep::for_each_layout(&mut v, |n, _a| n == size);
        v.out
    } else {
        let big = m.get("big").map(String::as_str) == Some("1");
        // Every layout up to 4097 bytes; the two huge sizes only where asked (memory: one slab of
        // 32 objects each) and then with the smallest and the largest alignment.
        let want = move |n: usize, a: usize| n <= 4097 || (big && (n == 32 * 1024 + 1 || (a == 1 || a == 4096)));
        match m.get("pool").map(String::as_str) {
            Some("RawBlindPool") => sweep::blind_sweep::<RawBlindPool>(prop, want),
            Some("LocalBlindPool") => sweep::blind_sweep::<LocalBlindPool>(prop, want),
            _ => sweep::blind_sweep::<BlindPool>(prop, want),
        }
    };
    json!({
        "sweep": true,
        "layouts": out.layouts,
        "steps": out.steps,
        "checks": out.checks,
        "objects": out.objects,
        "capacities": out.capacities,
        "violations": out.violations.iter().map(|(v, replay)| json!({"key": v.key, "msg": v.msg, "replay": {"job": job, "sweep": replay}, "count": 1})).collect::<Vec<_>>(),
    })
}

// ------------------------------------------------------------------------------------------
// Job lists per tier
// ------------------------------------------------------------------------------------------

const BIG_PREFIXES: [&str; 13] = [
    "s63-full", "s63-lastempty", "s63-hole0", "s63-holelast",
    "s64-full", "s64-lastempty", "s64-hole0", "s64-holelast",
    "s65-full", "s65-lastempty", "s65-hole0", "s65-holelast", "s65-hole63",
];

/// (depth from empty, from one full slab, from the boundary prefixes); overridable for experiments.
fn depths(thorough: bool) -> (usize, usize, usize) {
    let env = |name: &str, default: usize| std::env::var(name).ok().and_then(|s| s.parse().ok()).unwrap_or(default);
    if thorough {
        (env("C01_D_EMPTY", 9), env("C01_D_FULL1", 7), env("C01_D_BIG", 5))
    } else {
        (env("C01_D_EMPTY", 7), env("C01_D_FULL1", 5), env("C01_D_BIG", 4))
    }
}

fn jobs_for(prop: Prop, thorough: bool) -> Vec<String> {
    let mut jobs = Vec::new();
    let mut add = |pool: &str, pay: &str, cap: usize, prefix: &str, strict: bool, depth: usize| {
        jobs.push(Cfg { prop, pool: pool.into(), pay: pay.into(), cap, prefix: prefix.into(), strict, depth, prune: true }.to_job());
    };
    // Depth from a 63/64/65-slab prefix: the 64-slab ones and s65-hole63 sit exactly on the block
    // boundary of the vacancy map and get one level more.
    let on_boundary = |p: &str| p.starts_with("s64") || p == "s65-hole63";
    if !thorough {
        let (d_empty, d_full1, d_big) = depths(false);
        for (pool, pay) in [("RawOpaquePool", "P24"), ("RawBlindPool", "P8"), ("LocalBlindPool", "P64"), ("PinnedPool", "P8")] {
            for strict in [false, true] {
                add(pool, pay, 2, "empty", strict, d_empty);
                add(pool, pay, 2, "full1", strict, d_full1);
                for p in BIG_PREFIXES {
                    add(pool, pay, 2, p, strict, if on_boundary(p) { d_big } else { d_big - 1 });
                }
            }
        }
        // The five remaining pool types (their own handle and drop-policy plumbing over the same
        // slab code): shallower, from the empty pool and from one full slab only.
        for (pool, pay) in [("RawPinnedPool", "P64"), ("LocalOpaquePool", "P8"), ("LocalPinnedPool", "P24"), ("OpaquePool", "P64"), ("BlindPool", "P24")] {
            for strict in [false, true] {
                add(pool, pay, 2, "empty", strict, d_empty - 1);
                add(pool, pay, 2, "full1", strict, d_full1 - 1);
            }
        }
    } else {
        let (d_empty, d_full1, d_big) = depths(true);
        let pools = ["RawOpaquePool", "RawPinnedPool", "RawBlindPool", "LocalOpaquePool", "LocalPinnedPool", "LocalBlindPool", "OpaquePool", "PinnedPool", "BlindPool"];
        for (pi, pool) in pools.iter().enumerate() {
            for cap in 1..=3_usize {
                // Rotate the payload layouts over (pool, cap) so every pool sees every layout.
                let pay = ["P8", "P24", "P64"][(pi + cap) % 3];
                for strict in [false, true] {
                    add(pool, pay, cap, "empty", strict, d_empty);
                    add(pool, pay, cap, "full1", strict, d_full1);
                    for p in BIG_PREFIXES {
                        add(pool, pay, cap, p, strict, if on_boundary(p) { d_big } else { d_big - 1 });
                    }
                }
            }
        }
    }
    // Layout sweep at the real capacities.
    for n in sweep::SIZES {
        if thorough || n <= 32 * 1024 + 1 {
            jobs.push(format!("sweep kind=raw size={n}"));
        }
    }
    for pool in ["RawBlindPool", "LocalBlindPool", "BlindPool"] {
        jobs.push(format!("sweep kind=blind pool={pool} big={}", u8::from(thorough)));
    }
    jobs
}

// ------------------------------------------------------------------------------------------
// main
// ------------------------------------------------------------------------------------------

fn prop_from_env() -> Prop {
    match std::env::var("VERIF_PROPERTY").as_deref() {
        Ok("C02") => Prop::C02,
        _ => Prop::C01,
    }
}

/// Thorough tier, C01 only: the memory-error oracle. The same bounded history exploration (all
/// nine pool types, slab capacity 2, depth 4 from the empty pool) is re-run inside the Miri
/// interpreter, which reports use of released slab memory, overlapping or misaligned objects,
/// double drops and invalid pointer arithmetic directly instead of by their symptoms. Miri executes
/// each enumerated history; it is an interpreter, not a solver.
fn miri_stage(c: &mut vcommon::Check) {
    if std::env::var("C01_NO_MIRI").is_ok() {
        c.assumptions.push("Miri pass disabled by C01_NO_MIRI".into());
        return;
    }
    let root = vcommon::verif_root();
    let pools = ["RawOpaquePool", "RawPinnedPool", "RawBlindPool", "LocalOpaquePool", "LocalPinnedPool", "LocalBlindPool", "OpaquePool", "PinnedPool", "BlindPool"];
    let start = std::time::Instant::now();
    let mut children = Vec::new();
    for pool in pools {
        let pay = if pool.contains("Blind") { "P64" } else { "P24" };
        let job = format!("explore pool={pool} pay={pay} cap=2 prefix=empty strict=0 depth=4 prune=1 prop=C01");
        let ch = std::process::Command::new("cargo")
            .args(["+nightly", "miri", "run", "--offline", "-q", "-p", "c01", "--", "--job", &job])
            .current_dir(root.join("harness"))
            .env("CARGO_NET_OFFLINE", "true")
            .env("RUSTFLAGS", "--cfg folo_verif")
            .env("CARGO_TARGET_DIR", root.join("target").join("miri"))
            .env("MIRIFLAGS", "-Zmiri-disable-isolation -Zmiri-permissive-provenance")
            .env_remove("VERIF_JOB")
            .env_remove("VERIF_REPLAY")
            .stdout(std::process::Stdio::piped())
            .stderr(std::process::Stdio::piped())
            .spawn();
        children.push((pool, job, ch));
    }
    let (mut histories, mut clean, mut not_run) = (0_u64, 0_u64, Vec::new());
    for (pool, job, ch) in children {
        let out = match ch.and_then(std::process::Child::wait_with_output) {
            Ok(o) => o,
            Err(e) => {
                not_run.push(format!("{pool}: cannot run cargo miri: {e}"));
                continue;
            }
        };
        let (stdout, stderr) = (String::from_utf8_lossy(&out.stdout).into_owned(), String::from_utf8_lossy(&out.stderr).into_owned());
        if let Some(i) = stderr.find("error: Undefined Behavior") {
            let tail: String = stderr[i..].lines().take(12).collect::<Vec<_>>().join(" | ");
            c.violation(&format!("miri-undefined-behavior:{pool}"), &format!("Miri: {tail}"), json!({"job": job, "miri": tail}));
            continue;
        }
        let res = stdout.lines().rev().find_map(|l| l.strip_prefix("@@RESULT ")).and_then(|t| vcommon::serde_json::from_str::<Value>(t).ok());
        match res {
            Some(v) if out.status.success() => {
                histories += v["histories"].as_u64().unwrap_or(0);
                if v["violations"].as_array().is_none_or(Vec::is_empty) {
                    clean += 1;
                } else {
                    for viol in v["violations"].as_array().into_iter().flatten() {
                        c.violation(&format!("{}[under-miri]", viol["key"].as_str().unwrap_or("?")), viol["msg"].as_str().unwrap_or(""), json!({"job": job}));
                    }
                }
            }
            _ => not_run.push(format!("{pool}: no result (exit {:?}): {}", out.status.code(), stderr.lines().rev().take(3).collect::<Vec<_>>().join(" | "))),
        }
    }
    c.extra.insert("miri".into(), json!({"pools": pools.len(), "clean": clean, "histories_interpreted": histories, "depth": 4, "wall_s": start.elapsed().as_secs_f64(), "not_run": not_run}));
    c.outcome_n("miri-clean-pool", clean);
    if !not_run.is_empty() {
        c.cap_hit(&format!("Miri pass incomplete: {not_run:?}"));
    }
}

fn main() {
    vcommon::quiet_panics();
    let args: Vec<String> = std::env::args().collect();
    let arg_job = if args.len() >= 3 && args[1] == "--job" { Some(args[2].clone()) } else { None };
    if let Some(job) = arg_job.or_else(vcommon::child_job) {
        if !cfg!(miri) {
            install_crash_handler(); // signal handlers are not supported by the Miri interpreter
        }
        // Big stack: 1 MiB payload types are initialised in place, but debug-assertion frames are fat.
        let t = std::thread::Builder::new().stack_size(if cfg!(miri) { 8 << 20 } else { 256 << 20 }).spawn(move || {
            let v = if job.starts_with("sweep") {
                let prop = if job.contains("prop=C02") { Prop::C02 } else { Prop::C01 };
                sweep_job(&job, prop)
            } else {
                match Cfg::from_job(&job) {
                    Some(cfg) => dispatch(&cfg, Mode::Explore),
                    None => json!({"engine_failure": format!("bad job {job}")}),
                }
            };
            vcommon::child_result(&v);
        });
        let ok = t.expect("spawn").join().is_ok();
        std::process::exit(if ok { 0 } else { 3 });
    }

    let prop = prop_from_env();
    let id = if prop == Prop::C01 { "C01" } else { "C02" };

    if let Ok(path) = std::env::var("VERIF_REPLAY") {
        let text = std::fs::read_to_string(&path).expect("replay file readable");
        let v: Value = vcommon::serde_json::from_str(&text).expect("replay file is JSON");
        let r = v.get("replay").unwrap_or(&v);
        let job = r.get("job").and_then(Value::as_str).expect("replay.job");
        if job.starts_with("sweep") {
            println!("REPLAY {job}");
            let out = sweep_job(job, prop);
            println!("{}", vcommon::serde_json::to_string_pretty(&out["violations"]).unwrap());
            std::process::exit(i32::from(!out["violations"].as_array().is_none_or(Vec::is_empty)));
        }
        let cfg = Cfg::from_job(job).expect("replay.job parses");
        let hist: Vec<Op> = r["history"].as_array().expect("replay.history").iter().map(|s| Op::parse(s.as_str().unwrap()).expect("op parses")).collect();
        let out = std::thread::Builder::new().stack_size(if cfg!(miri) { 8 << 20 } else { 256 << 20 }).spawn(move || dispatch(&cfg, Mode::Replay(&hist))).unwrap().join().unwrap();
        std::process::exit(i32::from(out["violations"].as_u64().unwrap_or(0) > 0));
    }

    let mut c = vcommon::Check::new(id, "model_checking");
    let thorough = vcommon::is_thorough();
    let mut jobs = jobs_for(prop, thorough);
    for j in &mut jobs {
        if j.starts_with("sweep") {
            j.push_str(&format!(" prop={id}"));
        }
    }
    // Longest jobs first.
    jobs.sort_by_key(|j| {
        let d = Cfg::from_job(j).map_or(0, |c| c.depth * 10 + usize::from(c.prefix == "empty") * 5);
        std::cmp::Reverse(d)
    });
    // Generous: a timeout is a cap (never a verdict); unloaded, the slowest quick job needs ~4 s of CPU.
    let timeout = Duration::from_secs(if thorough { 2400 } else { 300 });
    let results = vcommon::run_jobs(&jobs, vcommon::default_parallelism(), timeout);

    let mut per_pool: BTreeMap<String, (u64, u64)> = BTreeMap::new();
    let mut layouts_swept: Vec<String> = Vec::new();
    let mut capacities: Vec<u64> = Vec::new();
    let mut sweep_checks = 0_u64;
    let mut sweep_objects = 0_u64;
    let mut prefix_ops = 0_u64;
    let mut max_depths: BTreeMap<String, u64> = BTreeMap::new();
    let mut slowest: (f64, String) = (0.0, String::new());
    let mut max_enabled = 0_u64;
    let mut engine_failures: Vec<String> = Vec::new();
    for r in &results {
        if r.wall.as_secs_f64() > slowest.0 {
            slowest = (r.wall.as_secs_f64(), r.job.clone());
        }
        let Some(v) = r.result_json().filter(|_| r.exit_code == Some(0)) else {
            if r.timed_out {
                c.cap_hit(&format!("job timed out after {}s: {}", timeout.as_secs(), r.job));
                continue;
            }
            // A crash of the real pool under a deterministic single-threaded history is a verdict.
            if let Some(line) = r.stderr.lines().rev().find_map(|l| l.strip_prefix("@@CRASH ")) {
                let (job, hist) = line.split_once(" | ").unwrap_or((line, ""));
                let ops: Vec<&str> = hist.split(',').filter(|s| !s.is_empty()).collect();
                let last = ops.last().map_or("prefix", |s| s.split('(').next().unwrap_or(s));
                let pool = Cfg::from_job(job).map_or_else(|| "sweep".to_string(), |c| c.pool);
                c.violation(
                    &format!("crash:{pool}:{last}"),
                    &format!("process died (exit {:?}) while executing the last operation of {:?} in job [{job}]; stderr tail: {}", r.exit_code, ops, r.stderr.lines().rev().skip(1).take(3).collect::<Vec<_>>().join(" / ")),
                    json!({"job": job, "history": ops}),
                );
                continue;
            }
            engine_failures.push(format!("job [{}] failed: exit {:?}, stderr tail: {}", r.job, r.exit_code, r.stderr.chars().rev().take(600).collect::<String>().chars().rev().collect::<String>()));
            continue;
        };
        if let Some(e) = v.get("engine_failure").and_then(Value::as_str) {
            engine_failures.push(format!("job [{}]: {e}", r.job));
            continue;
        }
        for viol in v["violations"].as_array().cloned().unwrap_or_default() {
            let n = viol["count"].as_u64().unwrap_or(1);
            c.violation(viol["key"].as_str().unwrap_or("?"), &format!("{} ({} histories in job [{}])", viol["msg"].as_str().unwrap_or(""), n, r.job), viol["replay"].clone());
        }
        if v.get("sweep").is_some() {
            for l in v["layouts"].as_array().cloned().unwrap_or_default() {
                layouts_swept.push(format!("{}:{}", r.job.split_whitespace().nth(1).unwrap_or(""), l.as_str().unwrap_or("")));
            }
            capacities.extend(v["capacities"].as_array().cloned().unwrap_or_default().iter().filter_map(Value::as_u64));
            sweep_checks += v["checks"].as_u64().unwrap_or(0);
            sweep_objects += v["objects"].as_u64().unwrap_or(0);
            c.transitions += v["steps"].as_u64().unwrap_or(0);
            c.evaluations += v["checks"].as_u64().unwrap_or(0);
            c.outcome_n("sweep:oracle-evaluations", v["checks"].as_u64().unwrap_or(0));
            continue;
        }
        let cfg = Cfg::from_job(&r.job).expect("job parses");
        let h = v["histories"].as_u64().unwrap_or(0);
        c.evaluations += h;
        c.traces_validated += h;
        c.states += v["states"].as_u64().unwrap_or(0);
        c.distinct_add(v["states"].as_u64().unwrap_or(0));
        c.transitions += v["steps"].as_u64().unwrap_or(0);
        prefix_ops += v["prefix_ops"].as_u64().unwrap_or(0);
        max_enabled = max_enabled.max(v["max_enabled"].as_u64().unwrap_or(0));
        let e = per_pool.entry(cfg.pool.clone()).or_insert((0, 0));
        e.0 += h;
        e.1 += v["states"].as_u64().unwrap_or(0);
        let md = max_depths.entry(format!("{}:{}", cfg.pool, if cfg.prefix.starts_with('s') { "big-prefix" } else { cfg.prefix.as_str() })).or_insert(0);
        *md = (*md).max(v["max_depth"].as_u64().unwrap_or(0));
        if let Some(o) = v["outcomes"].as_object() {
            for (k, n) in o {
                c.outcome_n(k, n.as_u64().unwrap_or(0));
            }
        }
        for s in v["samples"].as_array().cloned().unwrap_or_default() {
            if c.samples.len() < 6 && (c.samples.len() < 3 || cfg.prefix.starts_with('s')) {
                c.sample(s);
            }
        }
    }
    layouts_swept.sort();
    layouts_swept.dedup();
    capacities.sort_unstable();
    capacities.dedup();

    let (de, df, db) = depths(thorough);
    c.rule = format!(
        "Every operation history over {{insert, insert_with, remove(i), take(i)=remove_unpin|into_inner, into_shared(i), clone(i), erase(i), cast_dyn(i), drop_handle(i), reserve(1|cap|cap+1), shrink_to_fit{}}} (i over every operand handle) \
         up to depth {de} from the empty pool, {df} from one full slab, {db} from the 64-slab prefixes and s65-hole63 and {} from the other prefixes of 63/64/65 slabs (13 prefixes: {{63,64,65}} x {{all full | last empty | hole in slab 0 | hole in last slab}} + 65 slabs with a hole in slab 63), with slab capacity overridden to {}, on {} pool types x both drop policies / teardown orders; \
         each history is replayed on a fresh REAL pool, the {} oracle is evaluated after its last operation and every history is closed by the terminal drop_pool check. \
         A state is distinct when its canonical form differs (complete bookkeeping of every inner pool with addresses abstracted to (slab, slot) + multiset of handle kinds per object); histories reaching a known state are executed and checked but not extended. \
         Plus the layout sweep at the REAL slab capacity: {} layouts (declared size x align) through RawOpaquePool::with_layout (3 scripted histories around the slab boundary each) and all layouts at once in each of the three blind pools. \
         Depths can be overridden by C01_D_EMPTY/C01_D_FULL1/C01_D_BIG (defaults are the stated bound).",
        ", sib_insert/sib_remove (blind pools: objects of two sibling layouts)",
        db - 1,
        if thorough { "1, 2 and 3" } else { "2" },
        per_pool.len(),
        id,
        layouts_swept.iter().filter(|l| l.starts_with("kind=raw")).count(),
    );
    c.extra.insert("histories_and_states_per_pool_type".into(), json!(per_pool.iter().map(|(k, v)| (k.clone(), json!({"histories": v.0, "states": v.1}))).collect::<BTreeMap<_, _>>()));
    c.extra.insert("max_depth_completed".into(), json!(max_depths));
    c.extra.insert("prefix_operations_replayed".into(), json!(prefix_ops));
    c.extra.insert("max_enabled_operations_in_a_state".into(), json!(max_enabled));
    c.extra.insert("jobs".into(), json!(jobs.len()));
    c.extra.insert("slowest_job".into(), json!({"wall_s": slowest.0, "job": slowest.1}));
    c.extra.insert("sweep".into(), json!({"layouts": layouts_swept.len(), "oracle_evaluations": sweep_checks, "objects_inserted": sweep_objects, "real_slab_capacities_seen": capacities}));
    c.assumptions.push("The probe (cfg(folo_verif) verif_probe) reports the pool's own bookkeeping truthfully; addresses, alignment, overlap and canaries are checked independently of it.".into());
    c.assumptions.push("Memory-error detection is by canary, address arithmetic, destructor counters and crash capture (SIGSEGV/SIGABRT of a child is reported as a violation with its history), not by an interpreter; Miri was not run.".into());
    c.assumptions.push("Pruning uses a 64-bit hash of the canonical state; a collision could hide a state, never fabricate a violation.".into());

    // An engine failure is never a verdict; but a violation found by the jobs that did finish is one.
    if !engine_failures.is_empty() {
        if c.violation_count() == 0 {
            c.engine_failure(&engine_failures.join(" ;; "));
        }
        c.cap_hit(&format!("{} job(s) failed for engine reasons: {}", engine_failures.len(), engine_failures.join(" ;; ")));
    }
    // Anti-vacuity: the exploration must have exercised the interesting transitions.
    let need: &[&str] = if prop == Prop::C02 {
        &["insert:new-slab", "insert:had-room", "shrink:released", "shrink:noop", "reserve:grew", "reserve:noop", "drop-pool:must-not-drop:panic", "drop-pool:must-not-drop:clean", "drop-pool:may-drop:clean", "drop-pool:pool-first", "drop-pool:handles-first", "vacancy-map:two-blocks", "op:take", "op:clone", "op:cast_dyn", "op:erase"]
    } else {
        &["vacancy-map:two-blocks", "op:take", "op:clone", "op:cast_dyn", "op:erase", "op:shrink_to_fit", "op:reserve", "op:sib_insert", "drop-pool:pool-first"]
    };
    if c.violation_count() == 0 {
        for n in need {
            if !c.outcomes().contains_key(*n) {
                c.engine_failure(&format!("anti-vacuity: outcome class {n} was never observed"));
            }
        }
        if c.samples.is_empty() {
            c.engine_failure("no sample history recorded");
        }
    }
    if thorough && prop == Prop::C01 {
        miri_stage(&mut c);
    }
    c.finish();
}

//! Reference model, operation alphabet, oracles and the per-history runner.
//!
//! A state is the history that reaches it: every history is replayed on a FRESH real pool (after a
//! deterministic prefix), the oracle is evaluated after the last operation (every proper prefix of an
//! explored history is itself an explored history, so every step of every history is checked exactly
//! once), and every history is closed by the terminal `drop_pool` (teardown) check.

use std::collections::BTreeMap;
use std::panic::{AssertUnwindSafe, catch_unwind};

use infinity_pool::DropPolicy;
use infinity_pool::verif::PoolProbe;

use crate::payload::{HasSibs, Payload, Probe, drops_anomalies, drops_of, drops_reset};
use crate::pools::{DynProbe, Family, Put};

#[derive(Clone, Copy, PartialEq, Eq, Debug, Hash)]
pub enum Op {
    Insert,
    InsertWith,
    /// insert_with whose initialiser panics (caught by the harness): the pool must be unchanged
    InsertWithPanic,
    Remove(u8),
    Take(u8),
    IntoShared(u8),
    Clone(u8),
    Erase(u8),
    CastDyn(u8),
    DropHandle(u8),
    /// 0: reserve(1), 1: reserve(cap), 2: reserve(cap + 1)
    Reserve(u8),
    Shrink,
    /// Blind pools: insert an object of sibling layout 1 / 2.
    SibIns(u8),
    /// Blind pools: remove the most recent object of sibling layout 1 / 2.
    SibRem(u8),
}

impl Op {
    pub fn name(self) -> &'static str {
        match self {
            Op::Insert => "insert",
            Op::InsertWith => "insert_with",
            Op::InsertWithPanic => "insert_with_panic",
            Op::Remove(_) => "remove",
            Op::Take(_) => "take",
            Op::IntoShared(_) => "into_shared",
            Op::Clone(_) => "clone",
            Op::Erase(_) => "erase",
            Op::CastDyn(_) => "cast_dyn",
            Op::DropHandle(_) => "drop_handle",
            Op::Reserve(_) => "reserve",
            Op::Shrink => "shrink_to_fit",
            Op::SibIns(_) => "sib_insert",
            Op::SibRem(_) => "sib_remove",
        }
    }

    pub fn to_text(self) -> String {
        match self {
            Op::Insert | Op::InsertWith | Op::InsertWithPanic | Op::Shrink => self.name().to_string(),
            Op::Remove(i)
            | Op::Take(i)
            | Op::IntoShared(i)
            | Op::Clone(i)
            | Op::Erase(i)
            | Op::CastDyn(i)
            | Op::DropHandle(i)
            | Op::Reserve(i)
            | Op::SibIns(i)
            | Op::SibRem(i) => format!("{}({})", self.name(), i),
        }
    }

    pub fn parse(s: &str) -> Option<Op> {
        let (name, arg) = match s.find('(') {
            Some(p) => (&s[..p], s[p + 1..].trim_end_matches(')').parse::<u8>().ok()),
            None => (s, None),
        };
        Some(match (name, arg) {
            ("insert", None) => Op::Insert,
            ("insert_with", None) => Op::InsertWith,
            ("insert_with_panic", None) => Op::InsertWithPanic,
            ("shrink_to_fit", None) => Op::Shrink,
            ("remove", Some(i)) => Op::Remove(i),
            ("take", Some(i)) => Op::Take(i),
            ("into_shared", Some(i)) => Op::IntoShared(i),
            ("clone", Some(i)) => Op::Clone(i),
            ("erase", Some(i)) => Op::Erase(i),
            ("cast_dyn", Some(i)) => Op::CastDyn(i),
            ("drop_handle", Some(i)) => Op::DropHandle(i),
            ("reserve", Some(i)) => Op::Reserve(i),
            ("sib_insert", Some(i)) => Op::SibIns(i),
            ("sib_remove", Some(i)) => Op::SibRem(i),
            _ => return None,
        })
    }
}

#[derive(Clone, Copy, PartialEq, Eq, Debug)]
pub enum Prop {
    C01,
    C02,
}

#[derive(Clone, Debug)]
pub struct Cfg {
    pub prop: Prop,
    pub pool: String,
    pub pay: String,
    /// Slab capacity override (0 = real capacity).
    pub cap: usize,
    pub prefix: String,
    /// Raw pools: true = `MustNotDropContents`. Counted pools: true = teardown drops the handles
    /// before the pool object (false = pool object first).
    pub strict: bool,
    pub depth: usize,
    pub prune: bool,
}

impl Cfg {
    pub fn to_job(&self) -> String {
        format!(
            "explore pool={} pay={} cap={} prefix={} strict={} depth={} prune={} prop={}",
            self.pool,
            self.pay,
            self.cap,
            self.prefix,
            u8::from(self.strict),
            self.depth,
            u8::from(self.prune),
            if self.prop == Prop::C01 { "C01" } else { "C02" }
        )
    }

    pub fn from_job(job: &str) -> Option<Cfg> {
        let mut it = job.split_whitespace();
        if it.next()? != "explore" {
            return None;
        }
        let mut m = BTreeMap::new();
        for kv in it {
            let (k, v) = kv.split_once('=')?;
            m.insert(k.to_string(), v.to_string());
        }
        Some(Cfg {
            prop: if m.get("prop")? == "C01" { Prop::C01 } else { Prop::C02 },
            pool: m.get("pool")?.clone(),
            pay: m.get("pay")?.clone(),
            cap: m.get("cap")?.parse().ok()?,
            prefix: m.get("prefix")?.clone(),
            strict: m.get("strict")? == "1",
            depth: m.get("depth")?.parse().ok()?,
            prune: m.get("prune")? == "1",
        })
    }
}

#[derive(Clone, Debug)]
pub struct Viol {
    pub key: String,
    pub msg: String,
}

enum H<P: Put<T>, T: Payload> {
    MT(P::M<T>),
    ME(P::M<()>),
    MD(P::M<DynProbe>),
    ST(P::S<T>),
    SE(P::S<()>),
    SD(P::S<DynProbe>),
}

impl<P: Put<T>, T: Payload> H<P, T> {
    fn kind(&self) -> u8 {
        match self {
            H::MT(_) => 0,
            H::ME(_) => 1,
            H::MD(_) => 2,
            H::ST(_) => 3,
            H::SE(_) => 4,
            H::SD(_) => 5,
        }
    }

    fn kind_name(&self) -> &'static str {
        ["mut", "mut-erased", "mut-dyn", "shared", "shared-erased", "shared-dyn"][self.kind() as usize]
    }

    fn ptr(&self) -> usize {
        match self {
            H::MT(h) => P::m_ptr(h),
            H::ME(h) => P::m_ptr(h),
            H::MD(h) => P::m_ptr(h),
            H::ST(h) => P::s_ptr(h),
            H::SE(h) => P::s_ptr(h),
            H::SD(h) => P::s_ptr(h),
        }
    }

    /// (id, canary intact) read through this handle's own access path.
    fn read(&self) -> (u64, bool) {
        match self {
            H::MT(h) => {
                let r = P::m_ref(h);
                (r.id(), r.intact())
            }
            H::ST(h) => {
                let r = P::s_ref(h);
                (r.id(), r.intact())
            }
            H::MD(h) => {
                let r = P::m_dyn(h);
                (r.id(), r.intact())
            }
            H::SD(h) => {
                let r = P::s_dyn(h);
                (r.id(), r.intact())
            }
            H::ME(_) | H::SE(_) => {
                // Erased: the harness's side table knows the type.
                // SAFETY: the caller has established (via the probe) that the pointer designates an
                // occupied slot of a live slab of the right layout.
                let r = unsafe { &*(self.ptr() as *const T) };
                (r.id(), r.intact())
            }
        }
    }
}

struct HEntry<P: Put<T>, T: Payload> {
    obj: u64,
    h: H<P, T>,
    /// Inactive handles (bulk of a large prefix) are checked by the oracle but are not operands.
    active: bool,
}

#[derive(Clone, Copy, PartialEq, Eq, Debug)]
enum Fate {
    Live,
    Removed,
    Extracted,
}

struct Sib<M> {
    id: u64,
    addr: usize,
    h: M,
}

#[derive(Default, Clone)]
pub struct StepInfo {
    pub len_before: usize,
    pub cap_before: usize,
    pub t_len_before: usize,
    pub reserve_arg: usize,
}

struct World<P: Put<T>, T: HasSibs> {
    pool: Option<P>,
    handles: Vec<HEntry<P, T>>,
    /// id -> (address recorded at insert, size, align)
    live: BTreeMap<u64, (usize, usize, usize)>,
    /// ids of live objects of the main payload type
    live_t: usize,
    fate: Vec<Fate>,
    sib1: Vec<Sib<P::M<T::S1>>>,
    sib2: Vec<Sib<P::M<T::S2>>>,
    next_id: u64,
    cap: usize,
    pending: Vec<Viol>,
    ops_on_pool: u64,
}

pub struct RunResult {
    pub violations: Vec<Viol>,
    pub enabled: Vec<Op>,
    pub canon: Option<u64>,
    pub outcomes: Vec<String>,
    pub prefix_ops: u64,
    pub summary: String,
}

fn slab_cap_of(probes: &[PoolProbe], size: usize, align: usize) -> Option<usize> {
    probes
        .iter()
        .find(|p| p.object_layout.size() == size && p.object_layout.align() == align)
        .map(|p| p.slab_capacity)
}

impl<P: Put<T>, T: HasSibs> World<P, T> {
    fn new(cfg: &Cfg) -> Self {
        let policy = if cfg.strict && P::FAMILY == Family::Raw {
            DropPolicy::MustNotDropContents
        } else {
            DropPolicy::MayDropContents
        };
        Self {
            pool: Some(P::new(policy)),
            handles: Vec::new(),
            live: BTreeMap::new(),
            live_t: 0,
            fate: Vec::new(),
            sib1: Vec::new(),
            sib2: Vec::new(),
            next_id: 0,
            cap: cfg.cap,
            pending: Vec::new(),
            ops_on_pool: 0,
        }
    }

    fn pool(&mut self) -> &mut P {
        self.pool.as_mut().expect("pool alive")
    }

    fn new_id(&mut self) -> u64 {
        let id = self.next_id;
        self.next_id += 1;
        self.fate.push(Fate::Live);
        id
    }

    fn do_insert(&mut self, with: bool, active: bool) -> usize {
        let id = self.new_id();
        let h = if with { self.pool().insert_with(id) } else { self.pool().insert(T::make(id)) };
        self.ops_on_pool += 1;
        let addr = P::m_ptr(&h);
        self.live.insert(id, (addr, size_of::<T>(), align_of::<T>()));
        self.live_t += 1;
        self.handles.push(HEntry { obj: id, h: H::MT(h), active });
        self.handles.len() - 1
    }

    fn do_sib_insert(&mut self, which: u8) {
        let id = self.new_id();
        self.ops_on_pool += 1;
        if which == 1 {
            let h = self.pool().insert_sib(<T::S1 as Payload>::make(id));
            let addr = P::m_ptr(&h);
            self.live.insert(id, (addr, size_of::<T::S1>(), align_of::<T::S1>()));
            self.sib1.push(Sib { id, addr, h });
        } else {
            let h = self.pool().insert_sib(<T::S2 as Payload>::make(id));
            let addr = P::m_ptr(&h);
            self.live.insert(id, (addr, size_of::<T::S2>(), align_of::<T::S2>()));
            self.sib2.push(Sib { id, addr, h });
        }
    }

    fn do_sib_remove(&mut self, which: u8) {
        self.ops_on_pool += 1;
        let id = if which == 1 {
            let s = self.sib1.pop().expect("sib1 present");
            self.pool().remove_m(s.h);
            s.id
        } else {
            let s = self.sib2.pop().expect("sib2 present");
            self.pool().remove_m(s.h);
            s.id
        };
        self.live.remove(&id);
        self.fate[id as usize] = Fate::Removed;
    }

    fn active_indexes(&self) -> Vec<usize> {
        self.handles.iter().enumerate().filter(|(_, e)| e.active).map(|(i, _)| i).collect()
    }

    fn mark_gone(&mut self, obj: u64, fate: Fate) {
        self.live.remove(&obj);
        self.live_t -= 1;
        self.fate[obj as usize] = fate;
    }

    /// Removes the object behind handle entry `idx` through the pool type's removal path.
    fn remove_via(&mut self, idx: usize) {
        let e = self.handles.remove(idx);
        let obj = e.obj;
        self.ops_on_pool += 1;
        let pool = self.pool.as_mut().expect("pool alive");
        match e.h {
            H::MT(h) => pool.remove_m(h),
            H::ME(h) => pool.remove_m(h),
            H::MD(h) => pool.remove_m(h),
            H::ST(h) => pool.remove_s(h),
            H::SE(h) => pool.remove_s(h),
            H::SD(h) => pool.remove_s(h),
        }
        if P::FAMILY == Family::Raw {
            // All other copies of the handle are dangling now; a raw-pool user must forget them.
            self.handles.retain(|x| x.obj != obj);
            self.mark_gone(obj, Fate::Removed);
        } else {
            let others = self.handles.iter().any(|x| x.obj == obj);
            if !others {
                self.mark_gone(obj, Fate::Removed);
            }
        }
    }

    fn apply(&mut self, op: Op) -> StepInfo {
        let mut info = StepInfo {
            len_before: self.pool().len(),
            cap_before: self.pool().capacity(),
            t_len_before: self.live_t,
            reserve_arg: 0,
        };
        let act = self.active_indexes();
        match op {
            Op::Insert => {
                self.do_insert(false, true);
            }
            Op::InsertWith => {
                self.do_insert(true, true);
            }
            Op::InsertWithPanic => {
                self.pool().insert_with_panic();
                self.ops_on_pool += 1;
            }
            Op::Remove(i) => self.remove_via(act[i as usize]),
            Op::DropHandle(i) => {
                if P::FAMILY == Family::Raw {
                    // A raw handle is a plain pointer: dropping it leaves the object in the pool.
                    drop(self.handles.remove(act[i as usize]));
                } else {
                    self.remove_via(act[i as usize]);
                }
            }
            Op::Take(i) => {
                let e = self.handles.remove(act[i as usize]);
                let obj = e.obj;
                self.ops_on_pool += 1;
                let v: T = match e.h {
                    H::MT(h) => self.pool().take_m(h),
                    H::ST(h) => self.pool().take_s(h),
                    _ => unreachable!("take is only enabled for typed handles"),
                };
                self.handles.retain(|x| x.obj != obj);
                if v.id() != obj || !v.intact() {
                    self.pending.push(Viol {
                        key: format!("extracted-value-corrupt:{}", P::NAME),
                        msg: format!("object {obj} came back as id {} intact={}", v.id(), v.intact()),
                    });
                }
                if drops_of(obj) != 0 {
                    self.pending.push(Viol {
                        key: format!("dropped-on-extract:{}", P::NAME),
                        msg: format!("destructor of object {obj} ran although it was extracted by value"),
                    });
                }
                drop(v);
                self.mark_gone(obj, Fate::Extracted);
            }
            Op::IntoShared(i) => {
                let idx = act[i as usize];
                let e = self.handles.remove(idx);
                let h = match e.h {
                    H::MT(h) => H::ST(P::m_into_shared(h)),
                    H::ME(h) => H::SE(P::m_into_shared(h)),
                    H::MD(h) => H::SD(P::m_into_shared(h)),
                    _ => unreachable!("into_shared is only enabled for unique handles"),
                };
                self.handles.insert(idx, HEntry { obj: e.obj, h, active: true });
            }
            Op::Clone(i) => {
                let e = &self.handles[act[i as usize]];
                let h = match &e.h {
                    H::ST(h) => H::ST(P::s_clone(h)),
                    H::SE(h) => H::SE(P::s_clone(h)),
                    H::SD(h) => H::SD(P::s_clone(h)),
                    _ => unreachable!("clone is only enabled for shared handles"),
                };
                let obj = e.obj;
                self.handles.push(HEntry { obj, h, active: true });
            }
            Op::Erase(i) => {
                let idx = act[i as usize];
                let e = self.handles.remove(idx);
                let h = match e.h {
                    H::MT(h) => H::ME(P::m_erase(h)),
                    H::MD(h) => H::ME(P::m_erase(h)),
                    H::ST(h) => H::SE(P::s_erase(h)),
                    H::SD(h) => H::SE(P::s_erase(h)),
                    _ => unreachable!("erase is only enabled for typed and dyn handles"),
                };
                self.handles.insert(idx, HEntry { obj: e.obj, h, active: true });
            }
            Op::CastDyn(i) => {
                let idx = act[i as usize];
                let e = self.handles.remove(idx);
                let h = match e.h {
                    H::MT(h) => H::MD(P::m_cast(h)),
                    H::ST(h) => H::SD(P::s_cast(h)),
                    _ => unreachable!("cast is only enabled for typed handles"),
                };
                self.handles.insert(idx, HEntry { obj: e.obj, h, active: true });
            }
            Op::Reserve(k) => {
                let slab_cap = self.slab_capacity();
                let n = match k {
                    0 => 1,
                    1 => slab_cap,
                    _ => slab_cap + 1,
                };
                info.reserve_arg = n;
                self.ops_on_pool += 1;
                self.pool().reserve(n);
            }
            Op::Shrink => {
                self.ops_on_pool += 1;
                self.pool().shrink_to_fit();
            }
            Op::SibIns(k) => self.do_sib_insert(k),
            Op::SibRem(k) => self.do_sib_remove(k),
        }
        info
    }

    /// Slab capacity in force for the main payload's pool (override, or the real one via the probe).
    fn slab_capacity(&mut self) -> usize {
        if self.cap != 0 {
            return self.cap;
        }
        let probes = self.pool().probes();
        slab_cap_of(&probes, size_of::<T>(), align_of::<T>()).unwrap_or(1)
    }

    fn enabled(&self) -> Vec<Op> {
        let mut ops = vec![Op::Insert, Op::InsertWith, Op::InsertWithPanic];
        let act = self.active_indexes();
        for (i, &idx) in act.iter().enumerate() {
            let i = i as u8;
            let k = self.handles[idx].h.kind();
            let raw = P::FAMILY == Family::Raw;
            if raw {
                ops.push(Op::Remove(i));
            }
            if k == 0 || (raw && k == 3) {
                ops.push(Op::Take(i));
            }
            if k < 3 {
                ops.push(Op::IntoShared(i));
            } else {
                ops.push(Op::Clone(i));
            }
            if k == 0 || k == 2 || k == 3 || k == 5 {
                ops.push(Op::Erase(i));
            }
            if k == 0 || k == 3 {
                ops.push(Op::CastDyn(i));
            }
            ops.push(Op::DropHandle(i));
        }
        ops.extend([Op::Reserve(0), Op::Reserve(1), Op::Reserve(2), Op::Shrink]);
        if P::BLIND {
            if self.sib1.len() < 2 {
                ops.push(Op::SibIns(1));
            }
            if !self.sib1.is_empty() {
                ops.push(Op::SibRem(1));
            }
            if self.sib2.len() < 2 {
                ops.push(Op::SibIns(2));
            }
            if !self.sib2.is_empty() {
                ops.push(Op::SibRem(2));
            }
        }
        ops
    }
}

// ------------------------------------------------------------------------------------------
// Oracle
// ------------------------------------------------------------------------------------------

struct Located {
    pool: usize,
    slab: usize,
    slot: usize,
}

fn vbit(p: &PoolProbe, i: usize) -> Option<bool> {
    p.vacancy_blocks.get(i / 64).map(|b| (b >> (i % 64)) & 1 == 1)
}

/// Structural checks on one pool probe. `tag` = pool type name.
pub fn check_probe(p: &PoolProbe, tag: &str, prop: Prop, out: &mut Vec<Viol>) {
    let stride = p.slot_layout.size();
    let off = p.slot_to_object_offset;
    let osz = p.object_layout.size();
    let oal = p.object_layout.align();
    let cap = p.slab_capacity;
    let lay = format!("s{osz}a{oal}");
    let mut v = |key: &str, msg: String| {
        out.push(Viol { key: format!("{key}:{tag}"), msg: format!("[layout {lay}] {msg}") });
    };
    if prop == Prop::C01 {
        if off < p.slot_meta_layout.size() {
            v("slot-object-overlaps-meta", format!("object offset {off} < metadata size {}", p.slot_meta_layout.size()));
        }
        if off + osz > stride {
            v("slot-object-exceeds-stride", format!("offset {off} + size {osz} > stride {stride}: neighbouring slots overlap"));
        }
        if p.slab_alloc_layout.size() < cap.saturating_mul(stride) {
            v("slab-alloc-short", format!("slab block {} < {cap} * {stride}", p.slab_alloc_layout.size()));
        }
        let mut ranges: Vec<(usize, usize)> = Vec::with_capacity(p.slabs.len());
        for (si, s) in p.slabs.iter().enumerate() {
            ranges.push((s.base, s.base + p.slab_alloc_layout.size()));
            // Every slot's metadata and object position must be aligned (not only the live ones).
            let bad_meta = (0..cap).find(|j| (s.base + j * stride) % p.slot_meta_layout.align() != 0);
            let bad_obj = (0..cap).find(|j| (s.base + j * stride + off) % oal != 0);
            if let Some(j) = bad_meta {
                v("slot-meta-misaligned", format!("slab {si} slot {j} metadata at {:#x}", s.base + j * stride));
            }
            if let Some(j) = bad_obj {
                v("slot-object-misaligned", format!("slab {si} slot {j} object at {:#x} not aligned to {oal}", s.base + j * stride + off));
            }
            // Free list: visits every vacant slot exactly once and nothing else.
            let vacant = s.slots.iter().filter(|x| x.is_some()).count();
            let mut seen = vec![false; s.slots.len()];
            let mut cur = s.free_head;
            let mut visited = 0_usize;
            let mut ok = true;
            while cur < s.slots.len() {
                if seen[cur] {
                    ok = false;
                    break;
                }
                seen[cur] = true;
                match s.slots[cur] {
                    Some(next) => {
                        visited += 1;
                        cur = next;
                    }
                    None => {
                        ok = false;
                        break;
                    }
                }
            }
            if !ok || visited != vacant {
                v("freelist-corrupt", format!("slab {si}: head {} slots {:?}: visited {visited} of {vacant} vacant slots", s.free_head, s.slots));
            }
            if s.slots.len() != cap {
                v("slab-slot-count", format!("slab {si} has {} slots, capacity {cap}", s.slots.len()));
            }
        }
        ranges.sort_unstable();
        for w in ranges.windows(2) {
            if w[0].1 > w[1].0 {
                v("slab-overlap", format!("slab blocks {:#x}..{:#x} and {:#x}..{:#x} overlap", w[0].0, w[0].1, w[1].0, w[1].1));
            }
        }
        // Vacancy index.
        if p.vacancy_len_bits != p.slabs.len() {
            v("vacancy-len", format!("vacancy map covers {} slabs, pool has {}", p.vacancy_len_bits, p.slabs.len()));
        }
        if p.vacancy_blocks.len() != p.vacancy_len_bits.div_ceil(64) {
            v("vacancy-blocks", format!("{} blocks for {} bits", p.vacancy_blocks.len(), p.vacancy_len_bits));
        }
        let mut lowest = None;
        for (si, s) in p.slabs.iter().enumerate() {
            let occupied = s.slots.iter().filter(|x| x.is_none()).count();
            let has_room = occupied < cap;
            match vbit(p, si) {
                Some(b) if b == has_room => {}
                other => v("vacancy-bit", format!("slab {si}: occupied {occupied}/{cap} but vacancy bit = {other:?}")),
            }
            if has_room && lowest.is_none() {
                lowest = Some(si);
            }
        }
        if p.next_vacancy != lowest {
            v("vacancy-hint", format!("cached next vacancy {:?}, lowest slab with room {lowest:?} ({} slabs)", p.next_vacancy, p.slabs.len()));
        }
    } else {
        let mut total = 0_usize;
        for (si, s) in p.slabs.iter().enumerate() {
            let occupied = s.slots.iter().filter(|x| x.is_none()).count();
            total += occupied;
            if s.count != occupied {
                v("slab-count", format!("slab {si}: cached count {} but {occupied} occupied slots", s.count));
            }
        }
        if p.length != total {
            v("pool-length", format!("cached length {} but {total} occupied slots", p.length));
        }
    }
}

fn all_scripts() -> Vec<Vec<bool>> {
    let mut v = vec![vec![]];
    for len in 1..=4_usize {
        for bits in 0..(1_u32 << len) {
            v.push((0..len).map(|i| (bits >> i) & 1 == 1).collect());
        }
    }
    v
}

impl<P: Put<T>, T: HasSibs> World<P, T> {
    fn locate(&self, probes: &[PoolProbe], index: &[(usize, usize, usize)], addr: usize, size: usize, align: usize) -> Result<Located, String> {
        // index: sorted (base, pool, slab)
        let pos = index.partition_point(|e| e.0 <= addr);
        if pos == 0 {
            return Err(format!("address {addr:#x} is below every live slab"));
        }
        let (base, pi, si) = index[pos - 1];
        let p = &probes[pi];
        if addr + size > base + p.slab_alloc_layout.size() {
            return Err(format!("address {addr:#x}+{size} is not inside any live slab block (nearest {base:#x}+{})", p.slab_alloc_layout.size()));
        }
        if p.object_layout.size() != size || p.object_layout.align() != align {
            return Err(format!("address {addr:#x} lies in a slab of layout s{}a{}, object is s{size}a{align}", p.object_layout.size(), p.object_layout.align()));
        }
        let rel = addr - base;
        let stride = p.slot_layout.size();
        if rel < p.slot_to_object_offset || (rel - p.slot_to_object_offset) % stride != 0 {
            return Err(format!("address {addr:#x} is not base + k*{stride} + {}", p.slot_to_object_offset));
        }
        let slot = (rel - p.slot_to_object_offset) / stride;
        if slot >= p.slab_capacity {
            return Err(format!("slot index {slot} >= capacity {}", p.slab_capacity));
        }
        if p.slabs[si].slots[slot].is_some() {
            return Err(format!("slab {si} slot {slot} is marked vacant but a live object is recorded there"));
        }
        Ok(Located { pool: pi, slab: si, slot })
    }

    /// Evaluates the authoritative oracle set on the current state. Returns the violations and, if the
    /// state is well-formed, its canonical hash.
    fn check(&mut self, prop: Prop, op: Option<Op>, info: &StepInfo, outcomes: &mut Vec<String>, full_iter: bool) -> (Vec<Viol>, Option<u64>) {
        let mut out = std::mem::take(&mut self.pending);
        // Findings made while applying the operation belong to one oracle set each.
        out.retain(|v| {
            if v.key.starts_with("dropped-on-extract") {
                prop == Prop::C02
            } else if v.key.starts_with("extracted-value-corrupt") {
                prop == Prop::C01
            } else {
                true
            }
        });
        let opn = op.map_or("prefix", Op::name);
        let tag = P::NAME;
        let probes = self.pool().probes();
        for p in &probes {
            check_probe(p, tag, prop, &mut out);
        }
        let mut index: Vec<(usize, usize, usize)> = Vec::new();
        for (pi, p) in probes.iter().enumerate() {
            for (si, s) in p.slabs.iter().enumerate() {
                index.push((s.base, pi, si));
            }
        }
        index.sort_unstable();

        // Where does every live object sit?
        let mut located: BTreeMap<u64, Located> = BTreeMap::new();
        let mut unreadable = false;
        for (&id, &(addr, size, align)) in &self.live {
            match self.locate(&probes, &index, addr, size, align) {
                Ok(l) => {
                    located.insert(id, l);
                }
                Err(e) => {
                    unreadable = true;
                    if prop == Prop::C01 {
                        out.push(Viol { key: format!("outside-slab:{tag}:{opn}"), msg: format!("object {id}: {e}") });
                    }
                }
            }
        }

        if prop == Prop::C01 {
            // Alignment + pairwise disjointness of all live objects.
            let mut ranges: Vec<(usize, usize, u64)> = self.live.iter().map(|(&id, &(a, s, _))| (a, a + s, id)).collect();
            ranges.sort_unstable();
            for w in ranges.windows(2) {
                if w[0].1 > w[1].0 {
                    out.push(Viol {
                        key: format!("overlap:{tag}"),
                        msg: format!("objects {} at {:#x}..{:#x} and {} at {:#x}..{:#x} share bytes (after {opn})", w[0].2, w[0].0, w[0].1, w[1].2, w[1].0, w[1].1),
                    });
                }
            }
            for (&id, &(a, _, al)) in &self.live {
                if a % al != 0 {
                    out.push(Viol { key: format!("misaligned:{tag}"), msg: format!("object {id} at {a:#x} is not aligned to {al}") });
                }
            }
            // Every handle: same address as at insert; value reads back intact through its own path.
            for e in &self.handles {
                let Some(&(addr, _, _)) = self.live.get(&e.obj) else {
                    out.push(Viol { key: format!("harness-model:{tag}"), msg: format!("handle for dead object {}", e.obj) });
                    continue;
                };
                let p = e.h.ptr();
                if p != addr {
                    out.push(Viol {
                        key: format!("addr-moved:{tag}:{opn}"),
                        msg: format!("object {} inserted at {addr:#x}, {} handle now says {p:#x}", e.obj, e.h.kind_name()),
                    });
                    continue;
                }
                if located.contains_key(&e.obj) {
                    let (id, intact) = e.h.read();
                    if id != e.obj || !intact {
                        out.push(Viol {
                            key: format!("canary:{tag}:{opn}"),
                            msg: format!("object {} read through {} handle: id {id}, canary intact = {intact}", e.obj, e.h.kind_name()),
                        });
                    }
                }
            }
            macro_rules! check_sibs {
                ($list:expr) => {
                    for s in &$list {
                        let p = P::m_ptr(&s.h);
                        if p != s.addr {
                            out.push(Viol { key: format!("addr-moved:{tag}:{opn}"), msg: format!("sibling object {} moved {:#x} -> {p:#x}", s.id, s.addr) });
                        } else if located.contains_key(&s.id) {
                            let r = P::m_ref(&s.h);
                            if r.id() != s.id || !r.intact() {
                                out.push(Viol { key: format!("canary:{tag}:{opn}"), msg: format!("sibling object {} damaged", s.id) });
                            }
                        }
                    }
                };
            }
            check_sibs!(self.sib1);
            check_sibs!(self.sib2);
            let (_, corrupt) = drops_anomalies();
            if corrupt > 0 {
                out.push(Viol { key: format!("corrupt-at-drop:{tag}:{opn}"), msg: format!("{corrupt} destructor runs saw a damaged canary") });
            }
        } else {
            // Destructor accounting.
            for id in 0..self.next_id {
                let n = drops_of(id);
                match (self.fate[id as usize], n) {
                    (Fate::Live, 0) | (Fate::Removed, 1) | (Fate::Extracted, 1) => {}
                    (Fate::Live, n) => out.push(Viol { key: format!("dropped-while-live:{tag}:{opn}"), msg: format!("object {id} is alive but its destructor ran {n} times") }),
                    (Fate::Removed, 0) => out.push(Viol { key: format!("not-dropped:{tag}:{opn}"), msg: format!("object {id} was removed but its destructor never ran") }),
                    (Fate::Removed, n) => out.push(Viol { key: format!("double-drop:{tag}:{opn}"), msg: format!("object {id} was removed and its destructor ran {n} times") }),
                    (Fate::Extracted, n) => out.push(Viol { key: format!("double-drop:{tag}:{opn}"), msg: format!("object {id} was extracted by value; destructor ran {n} times (1 = the harness's own drop)") }),
                }
            }
            let (garbage, _) = drops_anomalies();
            if garbage > 0 {
                out.push(Viol { key: format!("garbage-drop:{tag}:{opn}"), msg: format!("{garbage} destructor runs on memory that holds no object") });
            }
            // len / is_empty / capacity.
            let model_len = self.live.len();
            let len = self.pool().len();
            let cap = self.pool().capacity();
            let empty = self.pool().is_empty();
            if len != model_len {
                out.push(Viol { key: format!("len-mismatch:{tag}:{opn}"), msg: format!("len() = {len}, {model_len} objects are alive") });
            }
            if empty != (model_len == 0) {
                out.push(Viol { key: format!("is-empty-mismatch:{tag}:{opn}"), msg: format!("is_empty() = {empty}, {model_len} objects are alive") });
            }
            if cap < self.live_t {
                out.push(Viol { key: format!("capacity-lt-len:{tag}:{opn}"), msg: format!("capacity() = {cap} < {} live objects", self.live_t) });
            }
            let occupied: usize = probes.iter().map(|p| p.slabs.iter().map(|s| s.slots.iter().filter(|x| x.is_none()).count()).sum::<usize>()).sum();
            if occupied != model_len {
                out.push(Viol { key: format!("occupancy-mismatch:{tag}:{opn}"), msg: format!("{occupied} occupied slots, {model_len} objects are alive") });
            }
            match op {
                Some(Op::Insert | Op::InsertWith) => {
                    if info.t_len_before < info.cap_before && cap != info.cap_before {
                        out.push(Viol { key: format!("capacity-grew-with-room:{tag}"), msg: format!("insert with {} of {} used changed capacity to {cap}", info.t_len_before, info.cap_before) });
                    }
                    outcomes.push(if cap != info.cap_before { "insert:new-slab".into() } else { "insert:had-room".into() });
                }
                Some(Op::Reserve(_)) => {
                    if cap < self.live_t + info.reserve_arg {
                        out.push(Viol { key: format!("reserve-short:{tag}"), msg: format!("reserve({}) with {} live left capacity {cap}", info.reserve_arg, self.live_t) });
                    }
                    outcomes.push(if cap != info.cap_before { "reserve:grew".into() } else { "reserve:noop".into() });
                }
                Some(Op::Shrink) => {
                    outcomes.push(if cap != info.cap_before { "shrink:released".into() } else { "shrink:noop".into() });
                }
                Some(Op::Remove(_) | Op::DropHandle(_) | Op::Take(_)) => {
                    outcomes.push(if len != info.len_before { format!("{opn}:object-left-pool") } else { format!("{opn}:object-stays") });
                }
                _ => {}
            }
            // Iteration.
            let mut want: Vec<usize> = self.live.values().map(|x| x.0).collect();
            want.sort_unstable();
            let scripts = if full_iter { all_scripts() } else { vec![vec![]] };
            'scripts: for script in &scripts {
                for drain_front in [true, false] {
                    let Some(run) = self.pool().iterate(script, drain_front) else {
                        break 'scripts;
                    };
                    let class = if script.is_empty() { if drain_front { "fwd" } else { "back" } } else { "mixed" };
                    let mut got = run.yielded.clone();
                    got.sort_unstable();
                    if got != want {
                        out.push(Viol {
                            key: format!("iter-mismatch:{tag}:{class}"),
                            msg: format!("script {script:?} drain_front={drain_front}: yielded {} addresses ({} distinct), {} objects alive (after {opn})", run.yielded.len(), { let mut d = got.clone(); d.dedup(); d.len() }, want.len()),
                        });
                        break 'scripts;
                    }
                    if script.is_empty() {
                        if run.initial_len != model_len {
                            out.push(Viol { key: format!("iter-len:{tag}:{class}"), msg: format!("iterator len() = {} for {model_len} live objects", run.initial_len) });
                            break 'scripts;
                        }
                    }
                }
            }
        }
        if probes.iter().any(|p| p.slabs.len() > 64) {
            outcomes.push("vacancy-map:two-blocks".into());
        }

        // Canonical state: complete bookkeeping of every inner pool (addresses abstracted to
        // (pool, slab, slot)) + per occupied slot the multiset of handle kinds (and whether they are
        // operands). Sound for pruning because nothing else influences the pool's control flow or
        // the harness's future choices: object ids and base addresses are never inspected by the
        // pool, and the harness is symmetric in ids and in handle order (operations are offered for
        // every active handle). 64-bit FNV of the serialisation; a collision (p ~ 1e-7 for 1e6
        // states) could only hide states, never report a false violation.
        if unreadable || !out.is_empty() {
            return (out, None);
        }
        let mut ser: Vec<u8> = Vec::with_capacity(256);
        let mut push = |x: usize| ser.extend_from_slice(&(x as u32).to_le_bytes());
        for p in &probes {
            push(p.object_layout.size());
            push(p.object_layout.align());
            push(p.slab_capacity);
            push(p.slabs.len());
            push(p.length);
            for s in &p.slabs {
                push(s.count);
                push(s.free_head);
                for sl in &s.slots {
                    push(sl.map_or(0xFFFF_FFFF, |n| n));
                }
            }
            push(p.vacancy_len_bits);
            for b in &p.vacancy_blocks {
                push((*b & 0xFFFF_FFFF) as usize);
                push((*b >> 32) as usize);
            }
            push(p.next_vacancy.map_or(0xFFFF_FFFF, |n| n));
        }
        let mut per_slot: BTreeMap<(usize, usize, usize), Vec<u8>> = BTreeMap::new();
        for (id, l) in &located {
            per_slot.entry((l.pool, l.slab, l.slot)).or_default();
            let _ = id;
        }
        for e in &self.handles {
            let l = &located[&e.obj];
            per_slot.entry((l.pool, l.slab, l.slot)).or_default().push(e.h.kind() * 2 + u8::from(e.active));
        }
        for ((a, b, c), mut kinds) in per_slot {
            kinds.sort_unstable();
            push(a);
            push(b);
            push(c);
            push(kinds.len());
            for k in kinds {
                push(k as usize);
            }
        }
        push(self.sib1.len());
        push(self.sib2.len());
        (out, Some(vcommon::fnv1a(&ser)))
    }

    /// Terminal `drop_pool`: closes every history.
    fn teardown(mut self, cfg: &Cfg, outcomes: &mut Vec<String>) -> Vec<Viol> {
        let mut out = Vec::new();
        let tag = P::NAME;
        let prop = cfg.prop;
        let live_ids: Vec<u64> = self.live.keys().copied().collect();
        let nonempty = !live_ids.is_empty();
        let pool = self.pool.take().expect("pool alive");
        if P::FAMILY == Family::Raw {
            // Raw handles are plain pointers; forget them, then drop the pool under its policy.
            self.handles.clear();
            self.sib1.clear();
            self.sib2.clear();
            let r = catch_unwind(AssertUnwindSafe(move || drop(pool)));
            let panicked = r.is_err();
            outcomes.push(format!("drop-pool:{}:{}", if cfg.strict { "must-not-drop" } else { "may-drop" }, if panicked { "panic" } else { "clean" }));
            if prop == Prop::C02 {
                if cfg.strict {
                    if panicked != nonempty {
                        out.push(Viol {
                            key: format!("drop-policy:{tag}:{}", if panicked { "panic-on-empty" } else { "no-panic-on-nonempty" }),
                            msg: format!("MustNotDropContents pool with {} objects: drop panicked = {panicked}", live_ids.len()),
                        });
                    }
                } else if panicked {
                    out.push(Viol { key: format!("drop-policy:{tag}:may-drop-panicked"), msg: format!("MayDropContents pool with {} objects panicked on drop", live_ids.len()) });
                }
                for &id in &live_ids {
                    let n = drops_of(id);
                    if n > 1 || (n == 0 && !cfg.strict) {
                        out.push(Viol {
                            key: format!("{}:{tag}:drop_pool", if n == 0 { "not-dropped" } else { "double-drop" }),
                            msg: format!("object {id} was in the pool when it was dropped; destructor ran {n} times"),
                        });
                    }
                }
            }
        } else {
            let mut handles = std::mem::take(&mut self.handles);
            let mut pool = Some(pool);
            if !cfg.strict {
                // Pool object first: the objects must survive until their handles go.
                drop(pool.take());
                if prop == Prop::C01 {
                    for e in &handles {
                        let (id, intact) = e.h.read();
                        if id != e.obj || !intact || e.h.ptr() != self.live[&e.obj].0 {
                            out.push(Viol { key: format!("canary:{tag}:drop_pool"), msg: format!("object {} damaged after the pool object was dropped while handles exist", e.obj) });
                        }
                    }
                } else {
                    for &id in &live_ids {
                        if drops_of(id) != 0 {
                            out.push(Viol { key: format!("dropped-while-live:{tag}:drop_pool"), msg: format!("object {id} destroyed by dropping the pool object although handles exist") });
                        }
                    }
                }
            }
            outcomes.push(format!("drop-pool:{}", if cfg.strict { "handles-first" } else { "pool-first" }));
            // Drop the handles one at a time, in creation order.
            while !handles.is_empty() {
                let e = handles.remove(0);
                let obj = e.obj;
                drop(e);
                let last = !handles.iter().any(|x| x.obj == obj);
                let n = drops_of(obj);
                if prop == Prop::C02 && n != u32::from(last) {
                    out.push(Viol {
                        key: format!("{}:{tag}:drop_pool", if n == 0 { "not-dropped" } else if last { "double-drop" } else { "dropped-while-live" }),
                        msg: format!("after dropping a handle of object {obj} (last = {last}) its destructor has run {n} times"),
                    });
                }
            }
            let sib_ids: Vec<u64> = self.sib1.iter().map(|s| s.id).chain(self.sib2.iter().map(|s| s.id)).collect();
            self.sib1.clear();
            self.sib2.clear();
            drop(pool.take());
            if prop == Prop::C02 {
                for id in sib_ids {
                    if drops_of(id) != 1 {
                        out.push(Viol { key: format!("not-dropped:{tag}:drop_pool"), msg: format!("sibling object {id}: destructor ran {} times", drops_of(id)) });
                    }
                }
            }
        }
        if prop == Prop::C02 {
            // Nothing that died earlier may have been destroyed again by the teardown.
            for id in 0..self.next_id {
                if self.fate[id as usize] != Fate::Live && drops_of(id) != 1 {
                    out.push(Viol { key: format!("double-drop:{tag}:drop_pool"), msg: format!("object {id} had left the pool earlier; destructor has now run {} times", drops_of(id)) });
                }
            }
            let (garbage, _) = drops_anomalies();
            if garbage > 0 {
                out.push(Viol { key: format!("garbage-drop:{tag}:drop_pool"), msg: format!("{garbage} destructor runs on memory that holds no object") });
            }
        } else {
            let (_, corrupt) = drops_anomalies();
            if corrupt > 0 {
                out.push(Viol { key: format!("corrupt-at-drop:{tag}:drop_pool"), msg: format!("{corrupt} destructor runs saw a damaged canary") });
            }
        }
        out
    }

    /// Builds the named prefix state. Returns a description of the shape that was actually reached.
    fn build_prefix(&mut self, name: &str) -> Result<String, String> {
        if P::BLIND {
            self.do_sib_insert(1);
            self.do_sib_insert(2);
        }
        let cap = self.slab_capacity_hint();
        if name == "empty" {
            return Ok("empty".into());
        }
        if name == "full1" {
            for _ in 0..cap {
                self.do_insert(false, true);
            }
            return Ok(format!("1 slab, {cap} objects"));
        }
        // sN-<shape>
        let (n, shape) = name.strip_prefix('s').and_then(|r| r.split_once('-')).ok_or_else(|| format!("bad prefix {name}"))?;
        let n: usize = n.parse().map_err(|_| format!("bad prefix {name}"))?;
        let full_slabs = if shape == "lastempty" { n - 1 } else { n };
        // Operand handles: first slot of slab 0, of slab 62, of slab 63 (bit 63 of block 0), of the
        // last two slabs. Everything else is ballast that the oracle still checks.
        let interesting = |slab: usize| slab == 0 || slab == 62 || slab == 63 || slab + 2 >= n;
        let mut first_of_slab = Vec::new();
        for slab in 0..full_slabs {
            for slot in 0..cap {
                let idx = self.do_insert(false, slot == 0 && interesting(slab));
                if slot == 0 {
                    first_of_slab.push(idx);
                }
            }
        }
        let hole = match shape {
            "full" => None,
            "lastempty" => {
                self.pool().reserve(1);
                self.ops_on_pool += 1;
                None
            }
            "hole0" => Some(0),
            "holelast" => Some(n - 1),
            "hole63" => Some(63),
            _ => return Err(format!("bad prefix shape {shape}")),
        };
        if let Some(slab) = hole {
            // Handle indexes shift on removal; remove by object id.
            let target = self.handles[first_of_slab[slab]].obj;
            let idx = self.handles.iter().position(|e| e.obj == target).expect("handle present");
            self.remove_via(idx);
        }
        // Verify the intended shape through the probe (anti-vacuity for the prefix itself).
        let probes = self.pool().probes();
        let p = probes
            .iter()
            .find(|p| p.object_layout.size() == size_of::<T>() && p.object_layout.align() == align_of::<T>())
            .ok_or("no inner pool for the payload layout")?;
        if p.slabs.len() != n {
            return Err(format!("prefix {name}: wanted {n} slabs, got {}", p.slabs.len()));
        }
        let holes: Vec<usize> = p.slabs.iter().enumerate().filter(|(_, s)| s.slots.iter().any(Option::is_some)).map(|(i, _)| i).collect();
        let want: Vec<usize> = match shape {
            "full" => vec![],
            "lastempty" => vec![n - 1],
            _ => vec![hole.expect("hole")],
        };
        if holes != want {
            return Err(format!("prefix {name}: slabs with room {holes:?}, wanted {want:?}"));
        }
        Ok(format!("{n} slabs of {cap}, slabs with room {holes:?}"))
    }

    fn slab_capacity_hint(&mut self) -> usize {
        if self.cap != 0 {
            self.cap
        } else {
            // Real capacity: create a throwaway pool to learn it.
            let mut tmp = P::new(DropPolicy::MayDropContents);
            let h = tmp.insert(T::make(0));
            let probes = tmp.probes();
            let c = slab_cap_of(&probes, size_of::<T>(), align_of::<T>()).unwrap_or(1);
            tmp.remove_m(h);
            crate::payload::drops_reset();
            c
        }
    }
}

/// Replays `hist` on a fresh pool of type `P` from the configured prefix and evaluates the oracle
/// after the last operation, then the terminal drop.
pub fn run_history<P: Put<T>, T: HasSibs>(cfg: &Cfg, hist: &[Op], verbose: bool) -> RunResult {
    drops_reset();
    infinity_pool::verif::set_slab_capacity_override(if cfg.cap == 0 { None } else { Some(cfg.cap) });
    let mut outcomes = Vec::new();
    let mut world: World<P, T> = World::new(cfg);
    let mut violations: Vec<Viol> = Vec::new();
    let mut enabled = Vec::new();
    let mut canon = None;
    let mut prefix_ops = 0;
    let mut summary = String::new();

    let r = catch_unwind(AssertUnwindSafe(|| {
        let shape = match world.build_prefix(&cfg.prefix) {
            Ok(s) => s,
            Err(e) => {
                violations.push(Viol { key: "ENGINE".into(), msg: e });
                return;
            }
        };
        prefix_ops = world.ops_on_pool;
        if verbose {
            println!("prefix {} => {shape}; len {} capacity {}", cfg.prefix, world.pool().len(), world.pool().capacity());
        }
        let mut info = StepInfo::default();
        for (k, &op) in hist.iter().enumerate() {
            let en = world.enabled();
            if !en.contains(&op) {
                violations.push(Viol { key: "ENGINE".into(), msg: format!("step {k}: {} is not enabled (harness nondeterminism or bad replay file)", op.to_text()) });
                return;
            }
            info = world.apply(op);
            if verbose {
                // Full oracle after every step when replaying.
                let (v, c) = world.check(cfg.prop, Some(op), &info, &mut Vec::new(), true);
                println!(
                    "step {k}: {:<16} len {} capacity {} live {} operand handles {:?} canon {:?} violations {}",
                    op.to_text(),
                    world.pool().len(),
                    world.pool().capacity(),
                    world.live.len(),
                    world.handles.iter().filter(|e| e.active).map(|e| format!("{}:{}", e.obj, e.h.kind_name())).collect::<Vec<_>>(),
                    c,
                    v.len()
                );
                for x in &v {
                    println!("    VIOLATED {} :: {}", x.key, x.msg);
                }
                world.pending.extend(v);
            }
        }
        let (v, c) = world.check(cfg.prop, hist.last().copied(), &info, &mut outcomes, true);
        violations.extend(v);
        canon = c;
        enabled = world.enabled();
        summary = format!("len {} capacity {}", world.pool().len(), world.pool().capacity());
    }));
    match r {
        Ok(()) => {
            if violations.is_empty() {
                let t = catch_unwind(AssertUnwindSafe(|| world.teardown(cfg, &mut outcomes)));
                match t {
                    Ok(v) => violations.extend(v),
                    Err(p) => violations.push(Viol {
                        key: format!("panic:{}:drop_pool", P::NAME),
                        msg: format!("teardown panicked: {}", vcommon::panic_message(&*p)),
                    }),
                }
            } else {
                // The pool is in a state the property forbids; do not run its destructors.
                std::mem::forget(world);
            }
        }
        Err(p) => {
            let opn = hist.last().map_or("prefix", |o| o.name());
            violations.push(Viol {
                key: format!("panic:{}:{opn}", P::NAME),
                msg: format!("operation panicked: {}", vcommon::panic_message(&*p)),
            });
            std::mem::forget(world);
        }
    }
    infinity_pool::verif::set_slab_capacity_override(None);
    RunResult { violations, enabled, canon, outcomes, prefix_ops, summary }
}

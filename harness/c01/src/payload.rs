//! Payload types stored in the pools under test: an id, a canary that is a function of the id, and
//! a destructor that bumps a per-id counter in a thread-local table.

use std::cell::RefCell;
use std::mem::MaybeUninit;
use std::ptr;

/// What the harness can ask an object through a `dyn` handle.
pub trait Probe: Send {
    fn id(&self) -> u64;
    fn intact(&self) -> bool;
}

#[derive(Default)]
pub struct DropTable {
    /// Destructor runs per object id.
    pub counts: Vec<u32>,
    /// Destructor runs on memory whose id was out of range (garbage).
    pub garbage: u32,
    /// Destructor runs on an object whose canary was already damaged.
    pub corrupt_at_drop: u32,
}

thread_local! {
    pub static DROPS: RefCell<DropTable> = RefCell::new(DropTable::default());
}

pub fn drops_reset() {
    DROPS.with(|d| {
        let mut d = d.borrow_mut();
        d.counts.clear();
        d.counts.resize(MAX_IDS, 0);
        d.garbage = 0;
        d.corrupt_at_drop = 0;
    });
}

pub fn drops_of(id: u64) -> u32 {
    DROPS.with(|d| d.borrow().counts[id as usize])
}

pub fn drops_anomalies() -> (u32, u32) {
    DROPS.with(|d| {
        let d = d.borrow();
        (d.garbage, d.corrupt_at_drop)
    })
}

pub const MAX_IDS: usize = 1024;

fn canary(id: u32, k: usize) -> u32 {
    (id.wrapping_mul(0x9E37_79B1) ^ (k as u32).wrapping_mul(0x85EB_CA6B)).rotate_left(13) ^ 0xA5A5_5A5A
}

/// `W` 32-bit words aligned like `A`: word 0 is the id, the rest is canary.
#[repr(C)]
pub struct Pay<A: Send + Unpin + 'static, const W: usize> {
    _align: [A; 0],
    w: [u32; W],
}

#[repr(align(64))]
pub struct A64;

impl<A: Send + Unpin + 'static, const W: usize> Pay<A, W> {
    fn words(id: u64) -> [u32; W] {
        let mut w = [0_u32; W];
        w[0] = id as u32;
        for (k, slot) in w.iter_mut().enumerate().skip(1) {
            *slot = canary(id as u32, k);
        }
        w
    }
}

impl<A: Send + Unpin + 'static, const W: usize> Probe for Pay<A, W> {
    fn id(&self) -> u64 {
        u64::from(self.w[0])
    }

    fn intact(&self) -> bool {
        let id = self.w[0];
        self.w.iter().enumerate().skip(1).all(|(k, v)| *v == canary(id, k))
    }
}

impl<A: Send + Unpin + 'static, const W: usize> Drop for Pay<A, W> {
    fn drop(&mut self) {
        let id = self.w[0] as usize;
        let intact = self.intact();
        let _ = DROPS.try_with(|d| {
            let mut d = d.borrow_mut();
            if id < d.counts.len() {
                d.counts[id] += 1;
                if !intact {
                    d.corrupt_at_drop += 1;
                }
            } else {
                d.garbage += 1;
            }
        });
    }
}

pub trait Payload: Probe + Unpin + Send + Sized + 'static {
    fn make(id: u64) -> Self;
    /// In-place initialisation for `insert_with` (field by field through the raw pointer).
    fn init(slot: &mut MaybeUninit<Self>, id: u64);
}

impl<A: Send + Unpin + 'static, const W: usize> Payload for Pay<A, W> {
    fn make(id: u64) -> Self {
        Self { _align: [], w: Self::words(id) }
    }

    fn init(slot: &mut MaybeUninit<Self>, id: u64) {
        let p = slot.as_mut_ptr();
        // SAFETY: `p` points to writable storage for `Self`; `_align` is zero-sized.
        unsafe {
            ptr::addr_of_mut!((*p).w).write(Self::words(id));
        }
    }
}

/// Payloads the explorer runs with; the siblings share the size resp. the alignment (so their blind
/// pool layout keys collide in one of the two 32-bit halves).
pub trait HasSibs: Payload {
    /// Same size, different alignment.
    type S1: Payload;
    /// Same alignment, different size.
    type S2: Payload;
}

pub type P8 = Pay<u64, 2>;
pub type P24 = Pay<u64, 6>;
pub type P64 = Pay<A64, 16>;

impl HasSibs for P8 {
    type S1 = Pay<u32, 2>;
    type S2 = Pay<u64, 4>;
}
impl HasSibs for P24 {
    type S1 = Pay<u32, 6>;
    type S2 = Pay<u64, 2>;
}
impl HasSibs for P64 {
    type S1 = Pay<u64, 16>;
    type S2 = Pay<A64, 32>;
}

//! Layout sweep (configurations): object layouts size x align at the REAL slab capacity, through
//! `RawOpaquePool::with_layout` and through the three blind pools holding every layout at once.

use std::alloc::Layout;
use std::cell::Cell;
use std::mem::MaybeUninit;

use infinity_pool::verif::PoolProbe;
use infinity_pool::{BlindPool, BlindPooledMut, LocalBlindPool, LocalBlindPooledMut, RawBlindPool, RawBlindPooledMut, RawOpaquePool};

use crate::engine::{Prop, Viol, check_probe};

thread_local! {
    static SWEEP_DROPS: Cell<u64> = const { Cell::new(0) };
}

fn sweep_drops() -> u64 {
    SWEEP_DROPS.with(Cell::get)
}

/// `N` declared bytes aligned like `A` (size = N rounded up to the alignment).
#[repr(C)]
pub struct L<A: Send + 'static, const N: usize> {
    _align: [A; 0],
    b: [u8; N],
}

impl<A: Send + 'static, const N: usize> Drop for L<A, N> {
    fn drop(&mut self) {
        let _ = SWEEP_DROPS.try_with(|c| c.set(c.get() + 1));
    }
}

fn canary_byte(id: u64, k: usize) -> u8 {
    let x = (id as u32).wrapping_mul(0x9E37_79B1) ^ (k as u32).wrapping_mul(0x85EB_CA6B);
    (x.rotate_left(11) ^ (x >> 7)) as u8 | 1
}

/// Positions carrying canary bytes: the first and last 16 bytes and every 509th in between.
fn canary_positions(n: usize) -> impl Iterator<Item = usize> {
    (0..n.min(16)).chain((16..n.saturating_sub(16)).step_by(509)).chain(n.saturating_sub(16).max(n.min(16))..n)
}

pub trait SweepPay: Send + Sized + 'static {
    const N: usize;
    fn init(slot: &mut MaybeUninit<Self>, id: u64);
}

impl<A: Send + 'static, const N: usize> SweepPay for L<A, N> {
    const N: usize = N;

    fn init(slot: &mut MaybeUninit<Self>, id: u64) {
        let p = slot.as_mut_ptr().cast::<u8>();
        // SAFETY: `p` is valid for size_of::<Self>() >= N bytes of writes; `b` starts at offset 0.
        unsafe {
            p.write_bytes(0, size_of::<Self>());
            for k in canary_positions(N) {
                p.add(k).write(canary_byte(id, k));
            }
        }
    }
}

fn canary_ok(addr: usize, n: usize, id: u64) -> bool {
    let p = addr as *const u8;
    // SAFETY: the caller has located `addr` in an occupied slot of a live slab of the right layout.
    canary_positions(n).all(|k| unsafe { p.add(k).read() } == canary_byte(id, k))
}

macro_rules! aligns {
    ($($name:ident = $n:literal),*) => {
        $( #[repr(align($n))] pub struct $name; )*
    };
}
aligns!(A1 = 1, A2 = 2, A4 = 4, A8 = 8, A16 = 16, A32 = 32, A64 = 64, A128 = 128, A256 = 256, A512 = 512, A1024 = 1024, A2048 = 2048, A4096 = 4096);

pub const SIZES: [usize; 15] = [1, 2, 3, 7, 8, 9, 24, 63, 64, 65, 4095, 4096, 4097, 32 * 1024 + 1, 1024 * 1024 + 1];

pub trait LayoutVisitor {
    fn visit<X: SweepPay>(&mut self);
}

macro_rules! for_sizes {
    ($v:expr, $want:expr, $a:ident, $an:literal, [$($n:literal),*]) => {
        $( if $want($n, $an) { $v.visit::<L<$a, $n>>(); } )*
    };
}

macro_rules! for_layouts {
    ($v:expr, $want:expr, [$(($a:ident, $an:literal)),*]) => {
        $( for_sizes!($v, $want, $a, $an, [1, 2, 3, 7, 8, 9, 24, 63, 64, 65, 4095, 4096, 4097, 32769, 1048577]); )*
    };
}

/// Calls `v.visit::<X>()` for every (declared size, align) the filter accepts.
pub fn for_each_layout(v: &mut impl LayoutVisitor, want: impl Fn(usize, usize) -> bool) {
    for_layouts!(v, want, [(A1, 1), (A2, 2), (A4, 4), (A8, 8), (A16, 16), (A32, 32), (A64, 64), (A128, 128), (A256, 256), (A512, 512), (A1024, 1024), (A2048, 2048), (A4096, 4096)]);
}

#[derive(Default)]
pub struct SweepOut {
    pub violations: Vec<(Viol, String)>,
    pub layouts: Vec<String>,
    pub steps: u64,
    pub checks: u64,
    pub objects: u64,
    pub capacities: Vec<usize>,
    pub outcomes: Vec<String>,
}

struct Rec {
    id: u64,
    addr: usize,
    n: usize,
    size: usize,
    align: usize,
}

/// Address-level oracle shared by both sweeps (C01) / accounting oracle (C02).
fn check_objects(prop: Prop, tag: &str, step: &str, probes: &[PoolProbe], live: &[Rec], len: usize, out: &mut Vec<Viol>) {
    for p in probes {
        check_probe(p, tag, prop, out);
    }
    if prop == Prop::C02 {
        if len != live.len() {
            out.push(Viol { key: format!("len-mismatch:{tag}:sweep"), msg: format!("{step}: len() = {len}, {} alive", live.len()) });
        }
        let occupied: usize = probes.iter().map(|p| p.slabs.iter().map(|s| s.slots.iter().filter(|x| x.is_none()).count()).sum::<usize>()).sum();
        if occupied != live.len() {
            out.push(Viol { key: format!("occupancy-mismatch:{tag}:sweep"), msg: format!("{step}: {occupied} occupied slots, {} alive", live.len()) });
        }
        return;
    }
    let mut index: Vec<(usize, usize, usize)> = Vec::new();
    for (pi, p) in probes.iter().enumerate() {
        for (si, s) in p.slabs.iter().enumerate() {
            index.push((s.base, pi, si));
        }
    }
    index.sort_unstable();
    let mut ranges: Vec<(usize, usize, u64)> = Vec::with_capacity(live.len());
    for r in live {
        ranges.push((r.addr, r.addr + r.size, r.id));
        if r.addr % r.align != 0 {
            out.push(Viol { key: format!("misaligned:{tag}"), msg: format!("{step}: object {} (s{}a{}) at {:#x}", r.id, r.size, r.align, r.addr) });
        }
        // Containment in an occupied slot of a slab of the right layout.
        let pos = index.partition_point(|e| e.0 <= r.addr);
        let mut ok = false;
        if pos > 0 {
            let (base, pi, si) = index[pos - 1];
            let p = &probes[pi];
            let stride = p.slot_layout.size();
            let off = p.slot_to_object_offset;
            if r.addr + r.size <= base + p.slab_alloc_layout.size()
                && p.object_layout.size() == r.size
                && p.object_layout.align() == r.align
                && r.addr - base >= off
                && (r.addr - base - off) % stride == 0
            {
                let slot = (r.addr - base - off) / stride;
                ok = slot < p.slab_capacity && p.slabs[si].slots[slot].is_none();
            }
        }
        if !ok {
            out.push(Viol { key: format!("outside-slab:{tag}:sweep"), msg: format!("{step}: object {} (s{}a{}) at {:#x} is not in an occupied slot of a live slab of its layout", r.id, r.size, r.align, r.addr) });
        } else if !canary_ok(r.addr, r.n, r.id) {
            out.push(Viol { key: format!("canary:{tag}:sweep"), msg: format!("{step}: object {} (s{}a{}) at {:#x} damaged", r.id, r.size, r.align, r.addr) });
        }
    }
    ranges.sort_unstable();
    for w in ranges.windows(2) {
        if w[0].1 > w[1].0 {
            out.push(Viol { key: format!("overlap:{tag}"), msg: format!("{step}: objects {} at {:#x}..{:#x} and {} at {:#x}..{:#x} share bytes", w[0].2, w[0].0, w[0].1, w[1].2, w[1].0, w[1].1) });
        }
    }
}

// ------------------------------------------------------------------------------------------
// RawOpaquePool::with_layout, one layout at a time, real capacity.
// ------------------------------------------------------------------------------------------

pub struct RawSweep {
    pub prop: Prop,
    pub out: SweepOut,
}

fn raw_ins<X: SweepPay>(pool: &mut RawOpaquePool, id: u64) -> infinity_pool::RawPooledMut<()> {
    // SAFETY: `init` initialises every byte.
    unsafe { pool.insert_with(|u: &mut MaybeUninit<X>| X::init(u, id)) }.erase()
}

impl LayoutVisitor for RawSweep {
    fn visit<X: SweepPay>(&mut self) {
        // Only the insertion is generic; the scripted histories run on type-erased handles.
        raw_sweep_layout(self, Layout::new::<X>(), X::N, raw_ins::<X>);
    }
}

type RawIns = fn(&mut RawOpaquePool, u64) -> infinity_pool::RawPooledMut<()>;

struct RawRun {
    pool: RawOpaquePool,
    live: Vec<(Rec, infinity_pool::RawPooledMut<()>)>,
    next_id: u64,
    viol: Vec<Viol>,
    script: Vec<String>,
    steps: u64,
    checks: u64,
    layout: Layout,
    n: usize,
    ins: RawIns,
    prop: Prop,
}

impl RawRun {
    fn ins(&mut self) {
        let id = self.next_id;
        self.next_id += 1;
        let h = (self.ins)(&mut self.pool, id);
        let addr = h.ptr().as_ptr() as usize;
        self.live.push((Rec { id, addr, n: self.n, size: self.layout.size(), align: self.layout.align() }, h));
        self.steps += 1;
    }

    fn rem(&mut self, pos: usize) {
        let (_, h) = self.live.remove(pos);
        // SAFETY: the object is in the pool.
        unsafe { self.pool.remove(h) };
        self.steps += 1;
    }

    /// Returns false when a violation has been recorded (the caller abandons the scenario).
    fn chk(&mut self, step: &str) -> bool {
        let tag = "RawOpaquePool";
        self.script.push(step.to_string());
        for (r, h) in &self.live {
            if h.ptr().as_ptr() as usize != r.addr && self.prop == Prop::C01 {
                self.viol.push(Viol { key: format!("addr-moved:{tag}:sweep"), msg: format!("{step}: object {} moved", r.id) });
            }
        }
        let recs: Vec<Rec> = self.live.iter().map(|(r, _)| Rec { id: r.id, addr: r.addr, n: r.n, size: r.size, align: r.align }).collect();
        check_objects(self.prop, tag, step, &[self.pool.verif_probe()], &recs, self.pool.len(), &mut self.viol);
        self.checks += 1;
        self.viol.is_empty()
    }

    /// Leaks the pool and hands the findings over.
    fn abandon(self, sw: &mut RawSweep, label: &str, variant: usize) {
        let RawRun { pool, live, viol, script, steps, checks, next_id, .. } = self;
        std::mem::forget(pool);
        drop(live);
        sw.out.objects += next_id;
        sw.out.steps += steps;
        sw.out.checks += checks;
        let replay = format!("sweep raw layout={label} variant={variant} steps={script:?}");
        for v in viol {
            sw.out.violations.push((v, replay.clone()));
        }
    }
}

fn raw_sweep_layout(sw: &mut RawSweep, layout: Layout, n: usize, ins: RawIns) {
    let label = format!("n{n}:s{}a{}", layout.size(), layout.align());
    let tag = "RawOpaquePool";
    // Three removal orders around the slab boundary (one for the > 1 MiB objects: 100 MiB per run).
    for variant in 0..(if n > 32 * 1024 + 1 { 1 } else { 3_usize }) {
        let r = std::panic::catch_unwind(std::panic::AssertUnwindSafe(|| raw_sweep_variant(sw, layout, n, ins, variant, &label)));
        if let Err(p) = r {
            sw.out.violations.push((
                Viol { key: format!("panic:{tag}:sweep"), msg: format!("{label} variant {variant}: pool panicked: {}", vcommon::panic_message(&*p)) },
                format!("sweep raw layout={label} variant={variant}"),
            ));
        }
    }
    sw.out.layouts.push(label);
}

/// One scripted history. Stops at the first violation (the pool is then in a state the property
/// forbids; it is leaked rather than used further).
fn raw_sweep_variant(sw: &mut RawSweep, layout: Layout, n: usize, ins: RawIns, variant: usize, label: &str) {
    let tag = "RawOpaquePool";
    {
        let drops0 = sweep_drops();
        let mut r = RawRun {
            pool: RawOpaquePool::with_layout(layout),
            live: Vec::new(),
            next_id: 0,
            viol: Vec::new(),
            script: Vec::new(),
            steps: 0,
            checks: 0,
            layout,
            n,
            ins,
            prop: sw.prop,
        };
        let c02 = sw.prop == Prop::C02;
        r.ins();
        let cap = r.pool.verif_probe().slab_capacity;
        if variant == 0 {
            sw.out.capacities.push(cap);
        }
        for _ in 1..=cap {
            r.ins();
        }
        if !r.chk("fill one slab + 1") { return r.abandon(sw, label, variant); }
        if c02 && r.pool.capacity() < cap + 1 {
            r.viol.push(Viol { key: format!("capacity-lt-len:{tag}:sweep"), msg: format!("{label}: capacity {} after {} inserts", r.pool.capacity(), cap + 1) });
        }
        match variant {
            0 => {
                r.rem(cap / 2);
                if !r.chk("remove middle") { return r.abandon(sw, label, variant); }
                r.rem(0);
                if !r.chk("remove first") { return r.abandon(sw, label, variant); }
                r.rem(cap - 3);
                if !r.chk("remove last of slab 0") { return r.abandon(sw, label, variant); }
            }
            1 => {
                r.rem(cap - 1);
                if !r.chk("remove last of slab 0") { return r.abandon(sw, label, variant); }
                r.rem(cap / 2);
                if !r.chk("remove middle") { return r.abandon(sw, label, variant); }
                r.rem(0);
                if !r.chk("remove first") { return r.abandon(sw, label, variant); }
            }
            _ => {
                r.rem(0);
                if !r.chk("remove first") { return r.abandon(sw, label, variant); }
                r.rem(cap - 2);
                if !r.chk("remove last of slab 0") { return r.abandon(sw, label, variant); }
                r.rem(cap / 2 - 1);
                if !r.chk("remove middle") { return r.abandon(sw, label, variant); }
            }
        }
        let cap_before = r.pool.capacity();
        r.ins();
        r.ins();
        if !r.chk("reinsert two") { return r.abandon(sw, label, variant); }
        if c02 && r.pool.capacity() != cap_before {
            r.viol.push(Viol { key: format!("capacity-grew-with-room:{tag}"), msg: format!("{label}: capacity changed {cap_before} -> {} on inserts into a pool with 3 holes", r.pool.capacity()) });
        }
        r.pool.shrink_to_fit();
        if !r.chk("shrink_to_fit with slab 1 occupied") { return r.abandon(sw, label, variant); }
        // The (cap+1)-th object (id = cap) spilled over the slab boundary.
        let spilled = r.live.iter().position(|(x, _)| x.id == cap as u64).expect("spilled object alive");
        r.rem(spilled);
        r.pool.shrink_to_fit();
        if !r.chk("remove spilled + shrink_to_fit") { return r.abandon(sw, label, variant); }
        sw.out.outcomes.push(if r.pool.capacity() < cap_before { "sweep:shrink-released".into() } else { "sweep:shrink-kept".into() });
        r.pool.reserve(cap + 1);
        if c02 && r.pool.capacity() < r.pool.len() + cap + 1 {
            r.viol.push(Viol { key: format!("reserve-short:{tag}"), msg: format!("{label}: reserve({}) left capacity {} for len {}", cap + 1, r.pool.capacity(), r.pool.len()) });
        }
        let cap_after_reserve = r.pool.capacity();
        r.ins();
        r.ins();
        if !r.chk("reserve(cap+1) + insert two") { return r.abandon(sw, label, variant); }
        if c02 && r.pool.capacity() != cap_after_reserve {
            r.viol.push(Viol { key: format!("capacity-grew-with-room:{tag}"), msg: format!("{label}: capacity changed {cap_after_reserve} -> {} on inserts after reserve", r.pool.capacity()) });
        }
        let alive = r.live.len() as u64;
        let inserted = r.next_id;
        let RawRun { pool, live, viol, script, steps, checks, .. } = r;
        drop(pool);
        drop(live);
        let dropped = sweep_drops() - drops0;
        let mut viol = viol;
        if c02 && dropped != inserted {
            viol.push(Viol { key: format!("drop-count:{tag}:sweep"), msg: format!("{label}: {inserted} objects inserted ({alive} alive at pool drop), {dropped} destructor runs") });
        }
        sw.out.objects += inserted;
        sw.out.steps += steps;
        sw.out.checks += checks;
        let replay = format!("sweep raw layout={label} variant={variant} steps={script:?}");
        for v in viol {
            sw.out.violations.push((v, replay.clone()));
        }
    }
}

// ------------------------------------------------------------------------------------------
// Blind pools: every layout in one pool.
// ------------------------------------------------------------------------------------------

pub trait BlindLike {
    const NAME: &'static str;
    type HE;
    fn new() -> Self;
    fn ins<X: SweepPay>(&mut self, id: u64) -> (usize, Self::HE);
    fn rem(&mut self, h: Self::HE);
    fn probes(&self) -> Vec<PoolProbe>;
    fn len(&self) -> usize;
    fn shrink(&mut self);
}

impl BlindLike for RawBlindPool {
    const NAME: &'static str = "RawBlindPool";
    type HE = RawBlindPooledMut<()>;
    fn new() -> Self {
        Self::new()
    }
    fn ins<X: SweepPay>(&mut self, id: u64) -> (usize, Self::HE) {
        // SAFETY: `init` initialises every byte.
        let h = unsafe { self.insert_with(|u: &mut MaybeUninit<X>| X::init(u, id)) };
        (h.ptr().as_ptr() as usize, h.erase())
    }
    fn rem(&mut self, h: Self::HE) {
        // SAFETY: the object is in the pool.
        unsafe { self.remove(h) }
    }
    fn probes(&self) -> Vec<PoolProbe> {
        self.verif_probe()
    }
    fn len(&self) -> usize {
        Self::len(self)
    }
    fn shrink(&mut self) {
        self.shrink_to_fit();
    }
}

impl BlindLike for LocalBlindPool {
    const NAME: &'static str = "LocalBlindPool";
    type HE = LocalBlindPooledMut<()>;
    fn new() -> Self {
        Self::new()
    }
    fn ins<X: SweepPay>(&mut self, id: u64) -> (usize, Self::HE) {
        // SAFETY: `init` initialises every byte.
        let h = unsafe { self.insert_with(|u: &mut MaybeUninit<X>| X::init(u, id)) };
        (h.ptr().as_ptr() as usize, h.erase())
    }
    fn rem(&mut self, h: Self::HE) {
        drop(h);
    }
    fn probes(&self) -> Vec<PoolProbe> {
        self.verif_probe()
    }
    fn len(&self) -> usize {
        Self::len(self)
    }
    fn shrink(&mut self) {
        self.shrink_to_fit();
    }
}

impl BlindLike for BlindPool {
    const NAME: &'static str = "BlindPool";
    type HE = BlindPooledMut<()>;
    fn new() -> Self {
        Self::new()
    }
    fn ins<X: SweepPay>(&mut self, id: u64) -> (usize, Self::HE) {
        // SAFETY: `init` initialises every byte.
        let h = unsafe { self.insert_with(|u: &mut MaybeUninit<X>| X::init(u, id)) };
        (h.ptr().as_ptr() as usize, h.erase())
    }
    fn rem(&mut self, h: Self::HE) {
        drop(h);
    }
    fn probes(&self) -> Vec<PoolProbe> {
        self.verif_probe()
    }
    fn len(&self) -> usize {
        Self::len(self)
    }
    fn shrink(&mut self) {
        self.shrink_to_fit();
    }
}

struct BlindInsert<'a, B: BlindLike> {
    pool: &'a mut B,
    live: &'a mut Vec<(Rec, B::HE)>,
    next_id: &'a mut u64,
    per_layout: usize,
    layouts: &'a mut Vec<String>,
}

impl<B: BlindLike> LayoutVisitor for BlindInsert<'_, B> {
    fn visit<X: SweepPay>(&mut self) {
        let layout = Layout::new::<X>();
        for _ in 0..self.per_layout {
            let id = *self.next_id;
            *self.next_id += 1;
            let (addr, h) = self.pool.ins::<X>(id);
            self.live.push((Rec { id, addr, n: X::N, size: layout.size(), align: layout.align() }, h));
        }
        self.layouts.push(format!("n{}:s{}a{}", X::N, layout.size(), layout.align()));
    }
}

pub fn blind_sweep<B: BlindLike>(prop: Prop, want: impl Fn(usize, usize) -> bool + Copy) -> SweepOut {
    match std::panic::catch_unwind(std::panic::AssertUnwindSafe(|| blind_sweep_inner::<B>(prop, want))) {
        Ok(out) => out,
        Err(p) => {
            let mut out = SweepOut::default();
            out.violations.push((
                Viol { key: format!("panic:{}:sweep", B::NAME), msg: format!("pool panicked: {}", vcommon::panic_message(&*p)) },
                format!("sweep blind pool={}", B::NAME),
            ));
            out
        }
    }
}

fn blind_sweep_inner<B: BlindLike>(prop: Prop, want: impl Fn(usize, usize) -> bool + Copy) -> SweepOut {
    let mut out = SweepOut::default();
    let tag = B::NAME;
    let drops0 = sweep_drops();
    let mut pool = B::new();
    let mut live: Vec<(Rec, B::HE)> = Vec::new();
    let mut next_id = 0_u64;
    let mut viol: Vec<Viol> = Vec::new();
    let mut script: Vec<String> = Vec::new();
    let mut chk = |step: &str, pool: &B, live: &Vec<(Rec, B::HE)>, viol: &mut Vec<Viol>, out: &mut SweepOut| {
        script.push(step.to_string());
        let recs: Vec<Rec> = live.iter().map(|(r, _)| Rec { id: r.id, addr: r.addr, n: r.n, size: r.size, align: r.align }).collect();
        let probes = pool.probes();
        check_objects(prop, tag, step, &probes, &recs, pool.len(), viol);
        // Routing: one inner pool per distinct (size, align), no more, no less.
        let mut distinct: Vec<(usize, usize)> = recs.iter().map(|r| (r.size, r.align)).collect();
        distinct.sort_unstable();
        distinct.dedup();
        let mut have: Vec<(usize, usize)> = probes.iter().map(|p| (p.object_layout.size(), p.object_layout.align())).collect();
        have.sort_unstable();
        let dup = have.windows(2).any(|w| w[0] == w[1]);
        if dup || distinct.iter().any(|d| !have.contains(d)) {
            viol.push(Viol { key: format!("blind-routing:{tag}"), msg: format!("{step}: {} distinct live layouts, {} inner pools (duplicates: {dup})", distinct.len(), have.len()) });
        }
        out.checks += 1;
        viol.is_empty()
    };
    macro_rules! bail {
        () => {{
            // The pool is in a state the property forbids: leak it, report what was found.
            std::mem::forget(live);
            std::mem::forget(pool);
            let replay = format!("sweep blind pool={tag} layouts={}", out.layouts.len());
            for v in viol {
                out.violations.push((v, replay.clone()));
            }
            return out;
        }};
    }
    // Round 1: two objects of every layout, interleaved by layout.
    {
        let mut v = BlindInsert { pool: &mut pool, live: &mut live, next_id: &mut next_id, per_layout: 2, layouts: &mut out.layouts };
        for_each_layout(&mut v, want);
    }
    if !chk("two objects of every layout", &pool, &live, &mut viol, &mut out) {
        bail!();
    }
    // Remove every other object.
    let mut keep = Vec::new();
    for (i, (r, h)) in live.drain(..).enumerate() {
        if i % 2 == 0 {
            pool.rem(h);
            out.steps += 1;
        } else {
            keep.push((r, h));
        }
    }
    live = keep;
    if !chk("remove every other object", &pool, &live, &mut viol, &mut out) {
        bail!();
    }
    pool.shrink();
    if !chk("shrink_to_fit", &pool, &live, &mut viol, &mut out) {
        bail!();
    }
    // Round 2: one more of every layout (reuses the holes).
    {
        let mut layouts2 = Vec::new();
        let mut v = BlindInsert { pool: &mut pool, live: &mut live, next_id: &mut next_id, per_layout: 1, layouts: &mut layouts2 };
        for_each_layout(&mut v, want);
    }
    if !chk("one more of every layout", &pool, &live, &mut viol, &mut out) {
        bail!();
    }
    out.steps += next_id;
    out.objects = next_id;
    // Remove everything that is left through the handles, then drop the pool.
    for (_, h) in live.drain(..) {
        pool.rem(h);
    }
    if !chk("all removed", &pool, &live, &mut viol, &mut out) {
        bail!();
    }
    drop(pool);
    let dropped = sweep_drops() - drops0;
    if prop == Prop::C02 && dropped != next_id {
        viol.push(Viol { key: format!("drop-count:{tag}:sweep"), msg: format!("{next_id} objects inserted, {dropped} destructor runs") });
    }
    let replay = format!("sweep blind pool={tag} layouts={} steps={script:?}", out.layouts.len());
    for v in viol {
        out.violations.push((v, replay.clone()));
    }
    out
}
